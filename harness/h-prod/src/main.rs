//! Correspondence harness for the Producer cluster (C30): drives the real
//! `fuel_core_producer::Producer` with a scripted relayer port and prints the chosen DA
//! height, once through the hooked `select_new_da_height` (explicit transaction limit) and
//! once through the public `produce_and_execute_block_transactions` (header captured by
//! the executor port; the limit there is u16::MAX - 1).
mod c30;

use vcommon::{Rng, T};

fn gen(prop: &str, rng: &mut Rng, n: u64, tier: &str) -> Vec<T> {
    match prop {
        "C30" => c30::gen(rng, n, tier),
        p => panic!("unknown property {p}"),
    }
}

fn run(prop: &str, input: &T) -> T {
    match prop {
        "C30" => c30::run(input),
        p => panic!("unknown property {p}"),
    }
}

fn main() {
    vcommon::main_protocol(gen, run);
}
