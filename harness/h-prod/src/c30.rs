//! C30: Producer::select_new_da_height and its caller new_header_with_new_da_height.
use fuel_core_producer::{
    block_producer::{
        gas_price::{ChainStateInfoProvider, GasPriceProvider},
        Error as ProducerError, NO_NEW_DA_HEIGHT_FOUND,
    },
    mocks::{MockDb, MockExecutorWithCapture, MockTxPool},
    ports::{Relayer, RelayerBlockInfo},
    Config, Producer,
};
use fuel_core_types::{
    blockchain::{
        block::PartialFuelBlock,
        header::{ApplicationHeader, ConsensusHeader, ConsensusParametersVersion, PartialBlockHeader},
        primitives::DaBlockHeight,
    },
    fuel_tx::ConsensusParameters,
    fuel_types::BlockHeight,
    tai64::Tai64,
};
use std::collections::HashMap;
use std::sync::{Arc, Mutex};
use vcommon::{catch, Rng, T};

/// Scripted relayer port: `highest` is what `wait_for_at_least_height` answers, the table
/// maps DA heights to (gas cost, tx count); absent heights cost (0, 0) like `MockRelayer`.
#[derive(Clone)]
struct ScriptRelayer {
    highest: u64,
    table: HashMap<u64, (u64, u64)>,
}

#[async_trait::async_trait]
impl Relayer for ScriptRelayer {
    async fn wait_for_at_least_height(&self, _height: &DaBlockHeight) -> anyhow::Result<DaBlockHeight> {
        Ok(DaBlockHeight(self.highest))
    }

    async fn get_cost_and_transactions_number_for_block(
        &self,
        height: &DaBlockHeight,
    ) -> anyhow::Result<RelayerBlockInfo> {
        let (gas_cost, tx_count) = self.table.get(&height.0).cloned().unwrap_or_default();
        Ok(RelayerBlockInfo { gas_cost, tx_count })
    }
}

struct FixedGasPrice;
impl GasPriceProvider for FixedGasPrice {
    fn production_gas_price(&self) -> anyhow::Result<u64> {
        Ok(0)
    }
    fn dry_run_gas_price(&self) -> anyhow::Result<u64> {
        Ok(0)
    }
}

struct FixedParams(Arc<ConsensusParameters>);
impl ChainStateInfoProvider for FixedParams {
    fn consensus_params_at_version(
        &self,
        _version: &ConsensusParametersVersion,
    ) -> anyhow::Result<Arc<ConsensusParameters>> {
        Ok(self.0.clone())
    }
}

const PREV_BLOCK_HEIGHT: u32 = 1;

fn db_with_prev_block(prev_da: u64) -> MockDb {
    let block = PartialFuelBlock {
        header: PartialBlockHeader {
            application: ApplicationHeader {
                da_height: DaBlockHeight(prev_da),
                ..Default::default()
            },
            consensus: ConsensusHeader {
                height: BlockHeight::new(PREV_BLOCK_HEIGHT),
                time: Tai64::UNIX_EPOCH,
                ..Default::default()
            },
        },
        transactions: vec![],
    }
    .generate(&[], Default::default())
    .unwrap()
    .compress(&Default::default());
    MockDb {
        blocks: Arc::new(Mutex::new(HashMap::from_iter(Some((
            BlockHeight::new(PREV_BLOCK_HEIGHT),
            block,
        ))))),
        consensus_parameters_version: 0,
        state_transition_bytecode_version: 0,
    }
}

fn result_t(r: anyhow::Result<DaBlockHeight>) -> T {
    match r {
        Ok(h) => T::l(vec![T::i(0), T::n(h.0)]),
        Err(e) => {
            if let Some(ProducerError::InvalidDaFinalizationState { .. }) = e.downcast_ref::<ProducerError>() {
                T::l(vec![T::i(1)])
            } else if e.downcast_ref::<ProducerError>().is_none() && e.to_string() == NO_NEW_DA_HEIGHT_FOUND {
                T::l(vec![T::i(2)])
            } else {
                T::l(vec![T::i(3)])
            }
        }
    }
}

pub fn run(input: &T) -> T {
    let input = input.clone();
    catch(move || {
        let f = input.as_l();
        let prev = f[0].as_u64();
        let highest = f[1].as_u64();
        let gas_limit = f[2].as_u64();
        let tx_limit = f[3].as_u16();
        let mut table = HashMap::new();
        for e in f[4].as_l() {
            let e = e.as_l();
            // first entry for a height wins (as in the model's association list)
            table.entry(e[0].as_u64()).or_insert((e[1].as_u64(), e[2].as_u64()));
        }
        let relayer = ScriptRelayer { highest, table };
        let mut params = ConsensusParameters::default();
        params.set_block_gas_limit(gas_limit);
        let executor = MockExecutorWithCapture::default();
        let producer = Producer {
            config: Config::default(),
            view_provider: db_with_prev_block(prev),
            txpool: MockTxPool::default(),
            executor: Arc::new(executor.clone()),
            relayer: Box::new(relayer),
            lock: Default::default(),
            gas_price_provider: FixedGasPrice,
            chain_state_info_provider: FixedParams(Arc::new(params)),
        };
        let rt = tokio::runtime::Builder::new_current_thread().build().unwrap();
        // 1. the selection itself, explicit transaction limit
        let hook = rt.block_on(producer.verif_select_new_da_height(gas_limit, DaBlockHeight(prev), tx_limit));
        // 2. the public block production path; the DA height is read from the header handed to the executor
        let full = rt.block_on(producer.produce_and_execute_block_transactions(
            BlockHeight::new(PREV_BLOCK_HEIGHT + 1),
            Tai64::now(),
            vec![],
        ));
        let full = match full {
            Ok(res) => {
                let captured = executor.captured.lock().unwrap();
                let comp = captured.as_ref().expect("executor was not called");
                let da = comp.header_to_produce.application.da_height;
                // the produced block carries the same DA height
                assert_eq!(res.into_result().block.header().da_height(), da);
                Ok(da)
            }
            Err(e) => {
                assert!(executor.captured.lock().unwrap().is_none(), "executor called although selection failed");
                Err(e)
            }
        };
        T::l(vec![result_t(hook), result_t(full)])
    })
}

// ---------------------------------------------------------------------------------------
// generator

const M: u64 = u64::MAX;

fn case(prev: u64, highest: u64, gl: u64, tl: u64, table: &[(u64, u64, u64)]) -> T {
    T::l(vec![
        T::n(prev),
        T::n(highest),
        T::n(gl),
        T::n(tl),
        T::l(table.iter().map(|(h, c, n)| T::l(vec![T::n(*h), T::n(*c), T::n(*n)])).collect()),
    ])
}

fn small_or_edge(rng: &mut Rng, edge: &[u64], small_max: u64) -> u64 {
    if rng.chance(1, 3) {
        *rng.pick(edge)
    } else {
        rng.range(0, small_max)
    }
}

/// saturating prefix sums of the table over prev+1..=prev+k
fn prefix(table: &[(u64, u64, u64)], prev: u64, k: u64) -> (u64, u64) {
    let mut m: HashMap<u64, (u64, u64)> = HashMap::new();
    for (h, c, n) in table {
        m.entry(*h).or_insert((*c, *n));
    }
    let (mut tc, mut tt) = (0u64, 0u64);
    for i in 1..=k {
        let h = match prev.checked_add(i) {
            Some(h) => h,
            None => break,
        };
        let (c, n) = m.get(&h).cloned().unwrap_or_default();
        tc = tc.saturating_add(c);
        tt = tt.saturating_add(n);
    }
    (tc, tt)
}

fn random_case(rng: &mut Rng, tier: &str) -> T {
    let max_gap = if tier == "thorough" { 40 } else { 12 };
    // previous height: small, around a unit-test value, or right below u64::MAX
    let prev = match rng.below(6) {
        0 => 0,
        1 => rng.range(0, 5),
        2 => 100,
        3 => M - rng.range(0, max_gap + 2),
        4 => M,
        _ => rng.next() >> rng.below(64),
    };
    // highest: behind (error), equal, or ahead by a small gap
    let highest = match rng.below(10) {
        0 => prev.saturating_sub(rng.range(1, 3)),
        1 => prev,
        _ => prev.saturating_add(rng.range(1, max_gap)),
    };
    let gap = highest.saturating_sub(prev);
    // per-block values from profiles: zeros, small, around 2^16 (tx limit), huge, u64::MAX
    let cost_profile = rng.below(6);
    let cnt_profile = rng.below(6);
    let val = |rng: &mut Rng, profile: u64| -> u64 {
        match profile {
            0 => 0,
            1 => rng.range(0, 3),
            2 => rng.range(0, 1000),
            3 => small_or_edge(rng, &[0, 1, 65533, 65534, 65535, 21845, 32767], 30000),
            4 => {
                if rng.chance(1, 2) { *rng.pick(&[M, M - 1, M / 2, M / 2 + 1, M / 3]) } else { rng.next() }
            }
            _ => {
                if rng.chance(1, 2) { 0 } else { rng.next() >> rng.below(64) }
            }
        }
    };
    let mut table: Vec<(u64, u64, u64)> = vec![];
    for i in 0..=gap.saturating_add(1) {
        if rng.chance(1, 8) {
            continue; // absent height = (0, 0)
        }
        let h = match prev.checked_add(i) {
            Some(h) => h,
            None => break,
        };
        table.push((h, val(rng, cost_profile), val(rng, cnt_profile)));
    }
    if rng.chance(1, 6) && !table.is_empty() {
        // a duplicate height (first wins) and an entry outside the range
        let (h, _, _) = *rng.pick(&table);
        table.push((h, val(rng, cost_profile), val(rng, cnt_profile)));
        table.push((highest.saturating_add(5), M, M));
    }
    // limits: at an exact prefix sum, +-1, zero, max, random
    let k = if gap == 0 { 0 } else { rng.range(1, gap.min(max_gap)) };
    let (pc, pt) = prefix(&table, prev, k);
    let pick_limit = |rng: &mut Rng, exact: u64, cap: u64| -> u64 {
        let v = match rng.below(8) {
            0 => exact,
            1 => exact.saturating_sub(1),
            2 => exact.saturating_add(1),
            3 => 0,
            4 => cap,
            5 => cap - 1,
            6 => exact / 2,
            _ => rng.next() >> rng.below(64),
        };
        v.min(cap)
    };
    let gl = pick_limit(rng, pc, M);
    // the tx limit is a u16; 65534 makes the public path and the hook coincide
    let tl = if rng.chance(1, 3) { 65534 } else { pick_limit(rng, pt.min(65535), 65535) };
    case(prev, highest, gl, tl, &table)
}

pub fn gen(rng: &mut Rng, n: u64, tier: &str) -> Vec<T> {
    let mut cases = vec![];
    // the crate's own unit-test scenarios
    cases.push(case(100, 100, 0, 65534, &[]));
    cases.push(case(100, 99, 0, 65534, &[]));
    cases.push(case(100, 104, 700, 65534, &[(100, 0, 0), (101, 500, 0), (102, 200, 0), (103, 0, 0), (104, 500, 0)]));
    cases.push(case(100, 104, 0, 65534, &[(101, 0, 15000), (102, 0, 15000), (103, 0, 15000), (104, 0, 21000)]));
    cases.push(case(100, 101, 1000, 65534, &[(100, 1000, 0), (101, 1001, 0)]));
    // bounded-exhaustive small universe: prev 3, highest 1..=6, costs/counts in {0,1,2}, limits 0..=3
    let vals = [0u64, 1, 2];
    for highest in 1..=6u64 {
        for gl in 0..=3u64 {
            for tl in 0..=3u64 {
                for a in 0..27u64 {
                    // three blocks' costs from a base-3 code; counts from a rotated code
                    let c = [vals[(a % 3) as usize], vals[(a / 3 % 3) as usize], vals[(a / 9 % 3) as usize]];
                    let b = (a * 7 + highest + gl) % 27;
                    let t = [vals[(b % 3) as usize], vals[(b / 3 % 3) as usize], vals[(b / 9 % 3) as usize]];
                    cases.push(case(3, highest, gl, tl, &[(4, c[0], t[0]), (5, c[1], t[1]), (6, c[2], t[2])]));
                }
            }
        }
    }
    // saturation boundaries: two blocks whose true sum overflows u64, limit u64::MAX / MAX-1
    for (c1, c2) in [(M, 1), (M - 1, 1), (M - 1, 2), (M / 2 + 1, M / 2 + 1), (M / 2, M / 2 + 1), (M, M), (M, 0)] {
        for gl in [M, M - 1, M - 2] {
            cases.push(case(7, 9, gl, 65534, &[(8, c1, 0), (9, c2, 0)]));
            cases.push(case(7, 9, gl, 65535, &[(8, 0, c1), (9, 0, c2)]));
            cases.push(case(M - 2, M, gl, 65534, &[(M - 1, c1, 1), (M, c2, 1)]));
        }
    }
    // transaction-count limit at exact sums +-1 (public path limit 65534)
    for d in [65533u64, 65534, 65535] {
        cases.push(case(0, 2, M, 65534, &[(1, 0, d), (2, 0, 0)]));
        cases.push(case(0, 2, M, 65534, &[(1, 0, 1), (2, 0, d - 1)]));
        cases.push(case(0, 3, 10, 65534, &[(1, 5, 30000), (2, 5, d - 30000), (3, 0, 1)]));
    }
    for _ in 0..n {
        cases.push(random_case(rng, tier));
    }
    cases
}
