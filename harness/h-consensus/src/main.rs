//! C15: block acceptance — the real Verifier (field checks, PoA consensus) and
//! Block::try_from_executed on generated blocks and single-field mutations of them.
use fuel_core_chain_config::{ConsensusConfig, PoAV2};
use fuel_core_consensus_module::block_verifier::{config::Config, Verifier};
use fuel_core_storage::{
    codec::{postcard::Postcard, Decode, Encode, Encoder},
    not_found,
    transactional::AtomicView,
    Result as StorageResult,
};
use fuel_core_types::{
    blockchain::{
        block::Block,
        consensus::{poa::PoAConsensus, Consensus, Genesis, Sealed},
        header::{BlockHeader, PartialBlockHeader},
        primitives::DaBlockHeight,
    },
    fuel_crypto::{Message, SecretKey, Signature},
    fuel_tx::{Address, Bytes32, Input, Transaction, TransactionBuilder},
    fuel_types::{
        canonical::{Deserialize, Serialize},
        BlockHeight,
    },
    tai64::Tai64,
};
use std::collections::BTreeMap;
use vcommon::{catch, Rng, T};

fn secret(i: u64) -> SecretKey {
    let mut b = [0u8; 32];
    b[31] = 1 + i as u8;
    b[0] = 7;
    SecretKey::try_from(&b[..]).expect("secret key")
}
fn address(i: u64) -> Address {
    Input::owner(&secret(i).public_key())
}

#[derive(Clone)]
struct MockDb {
    root: Option<Bytes32>,
    header: Option<BlockHeader>,
}
impl fuel_core_poa::ports::Database for MockDb {
    fn block_header(&self, _: &BlockHeight) -> StorageResult<BlockHeader> {
        self.header.clone().ok_or(not_found!("header"))
    }
    fn block_header_merkle_root(&self, _: &BlockHeight) -> StorageResult<Bytes32> {
        self.root.ok_or(not_found!("root"))
    }
}
impl AtomicView for MockDb {
    type LatestView = MockDb;
    fn latest_view(&self) -> StorageResult<MockDb> {
        Ok(self.clone())
    }
}

fn b32(t: &T) -> Bytes32 {
    let v = t.as_bytes();
    Bytes32::new(v.as_slice().try_into().expect("32 bytes"))
}

/// header from explicit field values; the application hash is whatever the input says and
/// the cached id is dropped by a serde round trip (as for a header received from the network)
fn header_of(t: &T) -> BlockHeader {
    let f = t.as_l();
    let mut h = BlockHeader::default();
    h.set_previous_root(b32(&f[0]));
    h.set_block_height(f[1].as_u32().into());
    h.set_time(Tai64(f[2].as_u64()));
    h.set_da_height(DaBlockHeight(f[4].as_u64()));
    h.set_consensus_parameters_version(f[5].as_u32());
    h.set_stf_version(f[6].as_u32());
    h.set_transactions_count(f[7].as_u16());
    h.set_message_receipt_count(f[8].as_u32());
    h.set_transaction_root(b32(&f[9]));
    h.set_message_outbox_root(b32(&f[10]));
    h.set_event_inbox_root(b32(&f[11]));
    h.set_application_hash(b32(&f[3]));
    let bytes = <Postcard as Encode<BlockHeader>>::encode(&h).as_bytes().into_owned();
    <Postcard as Decode<BlockHeader>>::decode(&bytes).expect("header round trip")
}

fn header_t(h: &BlockHeader) -> T {
    T::l(vec![
        T::bytes(h.prev_root().as_ref()),
        T::n(**h.height()),
        T::n(h.time().0),
        T::bytes(h.application_hash().as_ref()),
        T::n(h.da_height().0),
        T::n(h.consensus_parameters_version()),
        T::n(h.state_transition_bytecode_version()),
        T::n(h.transactions_count()),
        T::n(h.message_receipt_count()),
        T::bytes(h.transactions_root().as_ref()),
        T::bytes(h.message_outbox_root().as_ref()),
        T::bytes(h.event_inbox_root().as_ref()),
    ])
}

fn config_of(t: &T) -> ConsensusConfig {
    let f = t.as_l();
    match f[0].as_i() {
        0 => ConsensusConfig::PoA { signing_key: address(f[1].as_u64()) },
        1 => {
            let ovs: BTreeMap<BlockHeight, Address> =
                f[2].as_l().iter().map(|o| { let o = o.as_l(); (o[0].as_u32().into(), address(o[1].as_u64())) }).collect();
            ConsensusConfig::PoAV2(PoAV2::new(address(f[1].as_u64()), ovs))
        }
        k => panic!("bad config {k}"),
    }
}

fn signature_of(sig: &T) -> Signature {
    let s = sig.as_l();
    let id = b32(&s[1]);
    match s[0].as_l().first() {
        Some(k) => Signature::sign(&secret(k.as_u64()), &Message::from_bytes(*id)),
        None => {
            // tampered signature
            let good = Signature::sign(&secret(0), &Message::from_bytes(*id));
            let mut raw: [u8; 64] = *good;
            raw[5] ^= 0x40;
            raw[40] ^= 0x01;
            Signature::from_bytes(raw)
        }
    }
}

fn run(_prop: &str, input: &T) -> T {
    let input = input.clone();
    catch(move || {
        let f = input.as_l();
        let (exp_h, exp_da) = (f[0].as_u32(), f[1].as_u64());
        let cfg = config_of(&f[2]);
        let p = f[3].as_l();
        let root = p[0].as_l().first().map(b32);
        let pheader = {
            let ph = p[1].as_l();
            if ph.is_empty() { None } else {
                let mut h = BlockHeader::default();
                h.set_da_height(DaBlockHeight(ph[0].as_u64()));
                h.set_time(Tai64(ph[1].as_u64()));
                Some(h)
            }
        };
        let verifier = Verifier::new(Config::new(cfg, exp_h.into(), DaBlockHeight(exp_da)), MockDb { root, header: pheader });
        let mut out = vec![];
        for b in f[4].as_l() {
            let b = b.as_l();
            let kind = b[0].as_i();
            let header = header_of(&b[2]);
            let mut txs: Vec<Transaction> = vec![];
            for t in b[3].as_l() {
                let items = t.as_l();
                // run-length form (-1 n bytes): n copies of one transaction
                if items.len() == 3 && matches!(items[0], T::I(-1)) {
                    let tx = Transaction::from_bytes(&items[2].as_bytes()).expect("tx bytes");
                    for _ in 0..items[1].as_usize() {
                        txs.push(tx.clone());
                    }
                } else {
                    txs.push(Transaction::from_bytes(&t.as_bytes()).expect("tx bytes"));
                }
            }
            let consensus = match kind {
                0 => Consensus::Genesis(Genesis::default()),
                1 => Consensus::PoA(PoAConsensus::new(signature_of(&b[1]))),
                k => panic!("unsupported consensus kind {k} cannot be constructed"),
            };
            let block = Block::try_from_executed(header.clone(), txs.clone());
            let valid = block.is_some();
            // the verifier takes a Block; build one even when the transactions do not match
            let block = match block {
                Some(b) => b,
                None => {
                    let mut blk = Block::default();
                    *blk.header_mut() = header.clone();
                    *blk.transactions_mut() = txs.clone();
                    blk
                }
            };
            let id: [u8; 32] = header.id().into();
            let fields = match verifier.verify_block_fields(&consensus, &block) {
                Ok(()) => 0u32,
                Err(e) => {
                    let m = e.to_string();
                    if m.contains("zero height") { 1 }
                    else if m.contains("Previous root") { 3 }
                    else if m.contains("`da_height` of the next") { 4 }
                    else if m.contains("`time` of the next") { 5 }
                    else if m.contains("application hash") { 6 }
                    else if m.contains("transactions don't match") { 7 }
                    else if m.contains("genesis") { 8 }
                    else if m.contains("Unsupported") { 9 }
                    else { 2 }
                }
            };
            let cons = verifier.verify_consensus(&Sealed { entity: header, consensus });
            out.push(T::l(vec![T::bytes(&id), T::n(fields), T::b(cons), T::b(valid)]));
        }
        T::l(out)
    })
}

fn tx_pool() -> Vec<Vec<u8>> {
    (0..5u64)
        .map(|i| {
            let tx: Transaction = TransactionBuilder::script(vec![0x24, 0, 0, i as u8], vec![i as u8; (i % 3) as usize])
                .script_gas_limit(1000 + i)
                .add_fee_input()
                .finalize_as_transaction();
            tx.to_bytes()
        })
        .collect()
}

fn root_val(rng: &mut Rng) -> Vec<u8> {
    let mut v = vec![0u8; 32];
    v[0] = rng.below(3) as u8;
    v[31] = rng.below(2) as u8;
    v
}

fn flip(v: &T, rng: &mut Rng) -> T {
    let mut b = v.as_bytes();
    let i = rng.below(32) as usize;
    b[i] ^= 1 << rng.below(8);
    T::bytes(&b)
}

fn gen(_prop: &str, rng: &mut Rng, n: u64, tier: &str) -> Vec<T> {
    let pool = tx_pool();
    let mut cases = vec![];
    for _ in 0..n {
        // configuration
        let cfg = if rng.chance(1, 3) {
            T::l(vec![T::i(0), T::n(rng.below(3))])
        } else {
            let novs = rng.below(3);
            let mut hs: Vec<u32> = (0..novs).map(|_| 1 + rng.below(6) as u32).collect();
            hs.sort();
            hs.dedup();
            T::l(vec![T::i(1), T::n(rng.below(3)), T::l(hs.iter().map(|h| T::l(vec![T::n(*h), T::n(rng.below(3))])).collect())])
        };
        let cfg_real = config_of(&cfg);
        let proot = root_val(rng);
        let (pda, ptime) = (rng.below(5), Tai64::UNIX_EPOCH.0 + rng.below(5));
        let parent = T::l(vec![
            if rng.chance(1, 20) { T::l(vec![]) } else { T::l(vec![T::bytes(&proot)]) },
            if rng.chance(1, 20) { T::l(vec![]) } else { T::l(vec![T::n(pda), T::n(ptime)]) },
        ]);
        let (exp_h, exp_da) = (rng.below(3) as u32, rng.below(3));
        // the original block: produced the way the executor does it (consistent header)
        let height = if rng.chance(1, 15) { 0 } else { 1 + rng.below(7) as u32 };
        let ntx = rng.below(5) as usize;
        let txs: Vec<Vec<u8>> = (0..ntx).map(|_| rng.pick(&pool).clone()).collect();
        let real_txs: Vec<Transaction> = txs.iter().map(|b| Transaction::from_bytes(b).unwrap()).collect();
        let mut partial = PartialBlockHeader::default();
        partial.consensus.height = height.into();
        partial.consensus.prev_root = if rng.chance(9, 10) { Bytes32::new(proot.clone().try_into().unwrap()) } else { Bytes32::new(root_val(rng).try_into().unwrap()) };
        partial.consensus.time = Tai64(if rng.chance(9, 10) { ptime + rng.below(3) } else { ptime.saturating_sub(1 + rng.below(2)) });
        partial.application.da_height = DaBlockHeight(if rng.chance(9, 10) { pda + rng.below(3) } else { pda.saturating_sub(1) });
        partial.application.consensus_parameters_version = rng.below(3) as u32;
        let nmsg = rng.below(3);
        let msg_ids: Vec<fuel_core_types::fuel_tx::MessageId> = (0..nmsg).map(|i| fuel_core_types::fuel_tx::MessageId::new([i as u8; 32])).collect();
        let header = partial.generate(&real_txs, &msg_ids, Bytes32::new(root_val(rng).try_into().unwrap())).expect("header");
        let ht = header_t(&header);
        let id: [u8; 32] = header.id().into();
        // signer: mostly the key configured for this height
        let right_key = match &cfg_real {
            ConsensusConfig::PoA { signing_key } => (0..3).find(|i| address(*i) == *signing_key).unwrap(),
            ConsensusConfig::PoAV2(p) => { let a = p.address_for_height(height.into()); (0..3).find(|i| address(*i) == a).unwrap() }
        };
        let signer = if rng.chance(5, 6) { right_key } else { rng.below(3) };
        let sig = T::l(vec![T::l(vec![T::n(signer)]), T::bytes(&id)]);
        let txs_t = |txs: &[Vec<u8>]| T::l(txs.iter().map(|b| T::bytes(b)).collect());
        let mut blocks = vec![T::l(vec![T::i(1), sig.clone(), ht.clone(), txs_t(&txs)])];

        // variants: one mutation each
        let nvar = if tier == "thorough" { 40 } else { 24 };
        for v in 0..nvar {
            let mut f: Vec<T> = ht.as_l().to_vec();
            let mut vtxs = txs.clone();
            let mut vsig = sig.clone();
            let mut kind = 1;
            let mut recompute = rng.chance(1, 2); // attacker recomputes dependent hashes
            match v % 20 {
                0 => f[0] = flip(&f[0], rng),
                1 => f[1] = T::n(rng.below(9)),
                2 => f[2] = T::n(ptime.wrapping_add(rng.below(6)).wrapping_sub(2)),
                3 => { f[3] = flip(&f[3], rng); recompute = false; }
                4 => f[4] = T::n(pda.wrapping_add(rng.below(6)).saturating_sub(2)),
                5 => f[5] = T::n(f[5].as_u32() as u64 + 1 + rng.below(2)),
                6 => f[6] = T::n(f[6].as_u32() as u64 + 1),
                7 => f[7] = T::n((f[7].as_u16() as u64 + 1 + rng.below(2)) % 7),
                8 => f[8] = T::n(f[8].as_u32() as u64 + 1),
                9 => f[9] = flip(&f[9], rng),
                10 => f[10] = flip(&f[10], rng),
                11 => f[11] = flip(&f[11], rng),
                12 => { let i = rng.below(vtxs.len() as u64 + 1) as usize; vtxs.insert(i, rng.pick(&pool).clone()); }
                13 => { if !vtxs.is_empty() { let i = rng.below(vtxs.len() as u64) as usize; vtxs.remove(i); } }
                14 => { if vtxs.len() >= 2 { let i = rng.below(vtxs.len() as u64 - 1) as usize; vtxs.swap(i, i + 1); } }
                15 => { if !vtxs.is_empty() { let i = rng.below(vtxs.len() as u64) as usize; vtxs[i] = rng.pick(&pool).clone(); } }
                16 => { vsig = T::l(vec![T::l(vec![T::n(rng.below(3))]), T::bytes(&id)]); recompute = false; }
                17 => { vsig = T::l(vec![T::l(vec![]), T::bytes(&id)]); recompute = false; }
                18 => { kind = 0; recompute = false; }
                _ => { recompute = true; } // identical content, possibly re-signed below
            }
            if recompute {
                // recompute tx root / count (for tx mutations) and the application hash
                if (12..=15).contains(&(v % 20)) {
                    let real: Vec<Transaction> = vtxs.iter().map(|b| Transaction::from_bytes(b).unwrap()).collect();
                    let r = fuel_core_types::blockchain::header::generate_txns_root(&real);
                    f[9] = T::bytes(r.as_ref());
                    f[7] = T::n(real.len() as u16);
                }
                let mut tmp = T::l(f.clone());
                let h = header_of(&tmp);
                let mut h2 = h.clone();
                h2.recalculate_metadata();
                f[3] = T::bytes(h2.application_hash().as_ref());
                tmp = T::l(f.clone());
                // half of the recomputing attackers also re-sign (with some key) over the new id
                if rng.chance(1, 2) {
                    let nid: [u8; 32] = header_of(&tmp).id().into();
                    vsig = T::l(vec![T::l(vec![T::n(if rng.chance(1, 2) { right_key } else { rng.below(3) })]), T::bytes(&nid)]);
                }
            }
            blocks.push(T::l(vec![T::i(kind), vsig, T::l(f), txs_t(&vtxs)]));
        }
        // boundary class: more transactions than the u16 count can express. The header claims
        // u16::MAX transactions, commits to the real root of 65536 (or 65537) copies and is signed.
        if cases.len() % 4 == 0 {
            let n: usize = 65536 + rng.below(2) as usize;
            let one = Transaction::from_bytes(&pool[0]).unwrap();
            let many: Vec<Transaction> = std::iter::repeat(one).take(n).collect();
            let root = fuel_core_types::blockchain::header::generate_txns_root(&many);
            let mut f: Vec<T> = ht.as_l().to_vec();
            f[9] = T::bytes(root.as_ref());
            f[7] = T::n(u16::MAX);
            let mut h2 = header_of(&T::l(f.clone()));
            h2.recalculate_metadata();
            f[3] = T::bytes(h2.application_hash().as_ref());
            let nid: [u8; 32] = header_of(&T::l(f.clone())).id().into();
            let vsig = T::l(vec![T::l(vec![T::n(right_key)]), T::bytes(&nid)]);
            let rle = T::l(vec![T::l(vec![T::i(-1), T::n(n as u64), T::bytes(&pool[0])])]);
            blocks.push(T::l(vec![T::i(1), vsig, T::l(f), rle]));
        }
        cases.push(T::l(vec![T::n(exp_h), T::n(exp_da), cfg, parent, T::l(blocks)]));
    }
    cases
}

fn main() {
    vcommon::main_protocol(gen, run);
}
