//! C24: `fuel_core_poa::service::MainTask` and its real `SyncTask` driven through schedules of trigger
//! firings (`ensure_synced` followed by the real `run` loop iteration), manual production requests,
//! reserved-peer counts, blocks imported by another path (announced on the importer's block stream, as
//! the real importer does), silent database changes and clock advances, with scripted leader state and
//! producer / signer / importer outcomes, under a paused tokio clock.
//!
//! input = (trigger (h0 t0) clock0 (min_peers time_until_synced_ms) ops)
//!   trigger = (0) Never | (1) Instant | (2 secs) Interval | (3 secs) Open
//!   op  = (0 clock signer leader fail mid pd) ensure_synced, then one iteration of MainTask::run; pd = () | (delta):
//!                                           a predefined block with time last_timestamp + delta is stored for the next
//!                                           height; mid = () | (d t):
//!                                           a block (last_height + d - 1, t) is imported by another path right
//!                                           before the task reads the database height
//!       | (1 clock signer start mode fail)  produce_manual_blocks      start = () | (t)   mode = (0 n) | (1)
//!       | (2 clock d t)                     update_last_block_values(last_height + d - 1, t)
//!       | (3 db)                            the database content changes silently; db = () | (d t)
//!       | (4 ms)                            the monotonic clock advances
//!       | (5 n)                             reserved peers count
//!       | (6 d t)                           block (last_height + d - 1, t) imported by another path
//!   leader = (0) error | (1) follower | (2) leader | (3 ((off t ok) ..)) unreconciled blocks at asked height + off - 1
//!   fail   = () | (idx stage)   the idx-th production of the op fails at stage 0 produce, 1 seal, 2 commit,
//!                               3 the producer exceeds production_timeout (20 s); 4 = no failure, the producer takes 1.5 s
//! observation per op = (result state sync events)
//!   result = () | (code) | (ensure_code state_after_ensure sync_then run_code) for op 0
//!   state = (last_height last_timestamp last_block_created_ms now_ms db)    sync = () NotSynced | (h t)
//!   event = (0 h) leader_state | (1 h time source deadline_ms at_ms) produce (source 2 = predefined block) | (2 h) seal
//!         | (3 h time sealed) commit_result | (4 h time) execute_and_commit | (5) release
//!         | (6 h time local at_ms) announced on the block stream | (7 h time at_ms) imported by another path
use fuel_core_poa::{
    ports::{
        BlockImporter, BlockProducer, BlockReconciliationReadPort, BlockSigner, GetTime, LeaderState, P2pPort,
        PredefinedBlocks, TransactionPool, TransactionsSource, WaitForReadySignal,
    },
    service::{MainTask, Mode},
    Config, Trigger,
};
use fuel_core_services::{stream::BoxStream, RunnableService, RunnableTask, StateWatcher, TaskNextAction};
use fuel_core_storage::transactional::Changes;
use fuel_core_types::{
    blockchain::{block::Block, consensus::Consensus, header::BlockHeader, SealedBlock},
    fuel_types::BlockHeight,
    services::{
        block_importer::{BlockImportInfo, UncommittedResult as UncommittedImportResult},
        executor::{ExecutionResult, UncommittedResult as UncommittedExecutionResult},
    },
    signer::SignMode,
    tai64::Tai64,
};
use std::{
    sync::{Arc, Mutex},
    time::Duration,
};
use tokio::time::Instant;
use vcommon::{Rng, T};

#[derive(Default)]
struct Script {
    clock: u64,
    signer: bool,
    leader: Option<T>,
    fail: Option<(u64, u64)>,
    prod_count: u64,
    cur: u64,
    db: Option<(u32, u64)>,
    /// next height asked by the last leader_state call: batch heights are nh + off - 1
    nh: u32,
    /// a block to import by another path at the next database height read
    mid: Option<(u32, u64)>,
    /// time of the predefined block stored for the next height
    predef: Option<u64>,
}

struct Sh {
    s: Mutex<Script>,
    log: Mutex<Vec<T>>,
    base: Instant,
    blk_tx: tokio::sync::mpsc::UnboundedSender<BlockImportInfo>,
    blk_rx: Mutex<Option<tokio::sync::mpsc::UnboundedReceiver<BlockImportInfo>>>,
    peers_rx: Mutex<Option<tokio::sync::mpsc::UnboundedReceiver<usize>>>,
}

impl Sh {
    /// the importer's announcement of an imported block
    fn announce(&self, h: u32, t: u64, local: bool) {
        let header = header_of(h, t);
        let info = if local { BlockImportInfo::from(header) } else { BlockImportInfo::new_from_network(header) };
        let _ = self.blk_tx.send(info);
    }
    /// a block imported by another path: database and announcement
    fn p2p_import(&self, s: &mut Script, h: u32, t: u64) {
        if s.db.map(|d| h > d.0).unwrap_or(true) {
            s.db = Some((h, t));
        }
        self.log.lock().unwrap().push(T::l(vec![T::i(7), T::n(h), T::n(t), ms(self.base, Instant::now())]));
        self.announce(h, t, false);
    }
}

fn ms(base: Instant, i: Instant) -> T {
    if i >= base {
        T::i((i - base).as_millis() as i128)
    } else {
        T::i(-((base - i).as_millis() as i128))
    }
}

fn block_of(h: u32, t: u64) -> Block {
    let mut b = Block::default();
    b.header_mut().set_block_height(h.into());
    b.header_mut().set_time(Tai64(t));
    b.header_mut().recalculate_metadata();
    b
}

fn header_of(h: u32, t: u64) -> BlockHeader {
    block_of(h, t).header().clone()
}

struct Producer(Arc<Sh>);
#[async_trait::async_trait]
impl BlockProducer for Producer {
    async fn produce_and_execute_block(
        &self,
        height: BlockHeight,
        block_time: Tai64,
        source: TransactionsSource,
        deadline: Instant,
    ) -> anyhow::Result<UncommittedExecutionResult<Changes>> {
        let src = match source {
            TransactionsSource::TxPool => 0,
            TransactionsSource::SpecificTransactions(_) => 1,
        };
        self.0.log.lock().unwrap().push(T::l(vec![
            T::i(1),
            T::n(*height),
            T::n(block_time.0),
            T::i(src),
            ms(self.0.base, deadline),
            ms(self.0.base, Instant::now()),
        ]));
        let stage = {
            let mut s = self.0.s.lock().unwrap();
            let idx = s.prod_count;
            s.prod_count += 1;
            s.cur = idx;
            match s.fail {
                Some((i, st)) if i == idx => Some(st),
                _ => None,
            }
        };
        match stage {
            Some(0) => anyhow::bail!("producer failure"),
            Some(3) => {
                // longer than production_timeout: the caller gives up first
                tokio::time::sleep(Duration::from_secs(25)).await;
                anyhow::bail!("too late");
            }
            Some(4) => tokio::time::sleep(Duration::from_millis(1500)).await,
            _ => {}
        }
        Ok(UncommittedExecutionResult::new(
            ExecutionResult {
                block: block_of(*height, block_time.0),
                skipped_transactions: vec![],
                tx_status: vec![],
                events: vec![],
            },
            Changes::default(),
        ))
    }

    async fn produce_predefined_block(&self, block: &Block) -> anyhow::Result<UncommittedExecutionResult<Changes>> {
        let h: u32 = **block.header().height();
        let t = block.header().time().0;
        let now = ms(self.0.base, Instant::now());
        self.0.log.lock().unwrap().push(T::l(vec![T::i(1), T::n(h), T::n(t), T::i(2), now.clone(), now]));
        let mut s = self.0.s.lock().unwrap();
        s.prod_count += 1;
        s.cur = 0;
        if s.fail == Some((0, 0)) {
            anyhow::bail!("producer failure");
        }
        Ok(UncommittedExecutionResult::new(
            ExecutionResult { block: block.clone(), skipped_transactions: vec![], tx_status: vec![], events: vec![] },
            Changes::default(),
        ))
    }
}

struct Signer(Arc<Sh>);
#[async_trait::async_trait]
impl BlockSigner for Signer {
    async fn seal_block(&self, block: &Block) -> anyhow::Result<Consensus> {
        let h: u32 = **block.header().height();
        self.0.log.lock().unwrap().push(T::l(vec![T::i(2), T::n(h)]));
        let s = self.0.s.lock().unwrap();
        if s.fail == Some((s.cur, 1)) {
            anyhow::bail!("seal failure");
        }
        Ok(Consensus::PoA(Default::default()))
    }
    fn is_available(&self) -> bool {
        self.0.s.lock().unwrap().signer
    }
}

struct Importer(Arc<Sh>);
#[async_trait::async_trait]
impl BlockImporter for Importer {
    async fn commit_result(&self, result: UncommittedImportResult<Changes>) -> anyhow::Result<()> {
        let sb = &result.result().sealed_block;
        let h: u32 = **sb.entity.header().height();
        let t = sb.entity.header().time().0;
        let sealed = matches!(sb.consensus, Consensus::PoA(_));
        self.0.log.lock().unwrap().push(T::l(vec![T::i(3), T::n(h), T::n(t), T::b(sealed)]));
        let mut s = self.0.s.lock().unwrap();
        if s.fail == Some((s.cur, 2)) {
            anyhow::bail!("commit failure");
        }
        if s.db.map(|d| h > d.0).unwrap_or(true) {
            s.db = Some((h, t));
        }
        self.0.log.lock().unwrap().push(T::l(vec![T::i(6), T::n(h), T::n(t), T::b(true), ms(self.0.base, Instant::now())]));
        self.0.announce(h, t, true);
        Ok(())
    }

    async fn execute_and_commit(&self, block: SealedBlock) -> anyhow::Result<()> {
        let h: u32 = **block.entity.header().height();
        let t = block.entity.header().time().0;
        self.0.log.lock().unwrap().push(T::l(vec![T::i(4), T::n(h), T::n(t)]));
        let mut s = self.0.s.lock().unwrap();
        let ok = match &s.leader {
            Some(l) if l.as_l()[0].as_i() == 3 => l.as_l()[1]
                .as_l()
                .iter()
                .find(|b| (s.nh + b.as_l()[0].as_u32()).saturating_sub(1) == h && b.as_l()[1].as_u64() == t)
                .map(|b| b.as_l()[2].as_bool())
                .unwrap_or(false),
            _ => false,
        };
        if !ok {
            anyhow::bail!("import failure");
        }
        if s.db.map(|d| h > d.0).unwrap_or(true) {
            s.db = Some((h, t));
        }
        self.0.log.lock().unwrap().push(T::l(vec![T::i(6), T::n(h), T::n(t), T::b(false), ms(self.0.base, Instant::now())]));
        self.0.announce(h, t, false);
        Ok(())
    }

    fn block_stream(&self) -> BoxStream<BlockImportInfo> {
        let rx = self.0.blk_rx.lock().unwrap().take().expect("block stream taken once");
        Box::pin(tokio_stream::wrappers::UnboundedReceiverStream::new(rx))
    }

    fn latest_block_height(&self) -> anyhow::Result<Option<BlockHeight>> {
        let mut s = self.0.s.lock().unwrap();
        if let Some((h, t)) = s.mid.take() {
            self.0.p2p_import(&mut s, h, t);
        }
        Ok(s.db.map(|d| d.0.into()))
    }
}

struct Recon(Arc<Sh>);
#[async_trait::async_trait]
impl BlockReconciliationReadPort for Recon {
    async fn leader_state(&self, next_height: BlockHeight) -> anyhow::Result<LeaderState> {
        self.0.log.lock().unwrap().push(T::l(vec![T::i(0), T::n(*next_height)]));
        let mut s = self.0.s.lock().unwrap();
        s.nh = *next_height;
        let nh = s.nh;
        let l = s.leader.clone().expect("leader script");
        let l = l.as_l();
        match l[0].as_i() {
            0 => anyhow::bail!("leader state failure"),
            1 => Ok(LeaderState::ReconciledFollower),
            2 => Ok(LeaderState::ReconciledLeader),
            _ => Ok(LeaderState::UnreconciledBlocks(
                l[1].as_l()
                    .iter()
                    .map(|b| SealedBlock {
                        entity: block_of((nh + b.as_l()[0].as_u32()).saturating_sub(1), b.as_l()[1].as_u64()),
                        consensus: Consensus::PoA(Default::default()),
                    })
                    .collect(),
            )),
        }
    }
    async fn release(&self) -> anyhow::Result<()> {
        self.0.log.lock().unwrap().push(T::l(vec![T::i(5)]));
        Ok(())
    }
}

struct Predef(Arc<Sh>);
impl PredefinedBlocks for Predef {
    fn get_block(&self, height: &BlockHeight) -> anyhow::Result<Option<Block>> {
        Ok(self.0.s.lock().unwrap().predef.map(|t| block_of(**height, t)))
    }
}

struct Clock(Arc<Sh>);
impl GetTime for Clock {
    fn now(&self) -> Tai64 {
        Tai64(self.0.s.lock().unwrap().clock)
    }
}

struct Ready;
impl WaitForReadySignal for Ready {
    async fn wait_for_ready_signal(&self) {}
}

struct Pool(tokio::sync::watch::Receiver<()>);
impl TransactionPool for Pool {
    fn new_txs_watcher(&self) -> tokio::sync::watch::Receiver<()> {
        self.0.clone()
    }
}

struct P2p(Arc<Sh>);
impl P2pPort for P2p {
    fn reserved_peers_count(&self) -> BoxStream<usize> {
        let rx = self.0.peers_rx.lock().unwrap().take().expect("peer stream taken once");
        Box::pin(tokio_stream::wrappers::UnboundedReceiverStream::new(rx))
    }
}

fn fail_of(t: &T) -> Option<(u64, u64)> {
    let v = t.as_l();
    if v.is_empty() {
        None
    } else {
        Some((v[0].as_u64(), v[1].as_u64()))
    }
}

pub fn run(input: &T) -> T {
    let input = input.clone();
    let (txr, rxr) = std::sync::mpsc::channel();
    std::thread::spawn(move || {
        let r = std::panic::catch_unwind(std::panic::AssertUnwindSafe(|| run_inner(&input)));
        let _ = txr.send(r.unwrap_or_else(|_| vcommon::t_panic()));
    });
    match rxr.recv_timeout(Duration::from_secs(60)) {
        Ok(t) => t,
        Err(_) => T::l(vec![T::i(-778)]),
    }
}

const BIG_WAIT_MS: u64 = 100_000;

async fn settle() {
    for _ in 0..12 {
        tokio::task::yield_now().await;
    }
}

fn run_inner(input: &T) -> T {
    let f = input.as_l();
    let tr = f[0].as_l();
    let trigger = match tr[0].as_i() {
        0 => Trigger::Never,
        1 => Trigger::Instant,
        2 => Trigger::Interval { block_time: Duration::from_secs(tr[1].as_u64()) },
        _ => Trigger::Open { period: Duration::from_secs(tr[1].as_u64()) },
    };
    let (h0, t0) = (f[1].as_l()[0].as_u32(), f[1].as_l()[1].as_u64());
    let clock0 = f[2].as_u64();
    let (min_peers, tus_ms) = (f[3].as_l()[0].as_usize(), f[3].as_l()[1].as_u64());
    let rt = tokio::runtime::Builder::new_current_thread().enable_all().start_paused(true).build().expect("runtime");
    rt.block_on(async move {
        let base = Instant::now();
        let (blk_tx, blk_rx) = tokio::sync::mpsc::unbounded_channel();
        let (peers_tx, peers_rx) = tokio::sync::mpsc::unbounded_channel();
        let sh = Arc::new(Sh {
            s: Mutex::new(Script { clock: clock0, signer: true, db: Some((h0, t0)), ..Default::default() }),
            log: Default::default(),
            base,
            blk_tx,
            blk_rx: Mutex::new(Some(blk_rx)),
            peers_rx: Mutex::new(Some(peers_rx)),
        });
        let (txs_tx, txs_rx) = tokio::sync::watch::channel(());
        let config = Config {
            trigger,
            signer: SignMode::Unavailable,
            metrics: false,
            min_connected_reserved_peers: min_peers,
            time_until_synced: Duration::from_millis(tus_ms),
            production_timeout: Duration::from_secs(20),
            chain_id: Default::default(),
        };
        let task = MainTask::new(
            &header_of(h0, t0),
            config,
            Pool(txs_rx),
            Producer(sh.clone()),
            Importer(sh.clone()),
            P2p(sh.clone()),
            Arc::new(Signer(sh.clone())),
            Predef(sh.clone()),
            Clock(sh.clone()),
            Ready,
            Recon(sh.clone()),
        );
        let mut watcher = StateWatcher::started();
        let mut task = task.into_task(&watcher, ()).await.expect("into_task");
        settle().await;
        let state_t = |task: &MainTask<_, _, _, _, _, _, _>, sh: &Arc<Sh>| {
            let (h, t, c) = task.verif_state();
            let db = match sh.s.lock().unwrap().db {
                None => T::l(vec![]),
                Some((h, t)) => T::l(vec![T::n(h), T::n(t)]),
            };
            T::l(vec![T::n(*h), T::n(t.0), ms(base, c), ms(base, Instant::now()), db])
        };
        let sync_t = |task: &MainTask<_, _, _, _, _, _, _>| match task.verif_sync_state() {
            None => T::l(vec![]),
            Some(h) => T::l(vec![T::n(**h.height()), T::n(h.time().0)]),
        };
        let mut out = vec![T::l(vec![T::l(vec![]), state_t(&task, &sh), sync_t(&task), T::l(vec![])])];
        let big = Duration::from_millis(BIG_WAIT_MS);
        for op in f[4].as_l() {
            let o = op.as_l();
            let res = match o[0].as_i() {
                0 => {
                    {
                        let mut s = sh.s.lock().unwrap();
                        s.clock = o[1].as_u64();
                        s.signer = o[2].as_bool();
                        s.leader = Some(o[3].clone());
                        s.fail = fail_of(&o[4]);
                        s.prod_count = 0;
                        s.cur = 0;
                        s.mid = None;
                    }
                    let ens = tokio::time::timeout(big, task.verif_ensure_synced(&mut watcher)).await;
                    let ens_code = match ens {
                        Ok(None) => 0,
                        Err(_) => 1,
                        Ok(Some(_)) => 2,
                    };
                    let ens_state = state_t(&task, &sh);
                    let ens_sync = sync_t(&task);
                    if ens_code == 0 {
                        let pd = o[6].as_l();
                        if !pd.is_empty() {
                            let lt = task.verif_state().1 .0;
                            sh.s.lock().unwrap().predef = Some(lt.saturating_add(pd[0].as_u64()));
                        }
                        let m = o[5].as_l();
                        if !m.is_empty() {
                            let lh: u32 = *task.verif_state().0;
                            sh.s.lock().unwrap().mid = Some(((lh + m[0].as_u32()).saturating_sub(1), m[1].as_u64()));
                        }
                    }
                    let _ = txs_tx.send(());
                    let run_code = match tokio::time::timeout(big, task.run(&mut watcher)).await {
                        Ok(TaskNextAction::Continue) => 0,
                        Ok(TaskNextAction::ErrorContinue(_)) => 1,
                        Ok(TaskNextAction::Stop) => 2,
                        Err(_) => 3,
                    };
                    {
                        let mut s = sh.s.lock().unwrap();
                        s.mid = None;
                        s.predef = None;
                    }
                    T::l(vec![T::i(ens_code), ens_state, ens_sync, T::l(vec![T::i(run_code)])])
                }
                1 => {
                    {
                        let mut s = sh.s.lock().unwrap();
                        s.clock = o[1].as_u64();
                        s.signer = o[2].as_bool();
                        s.leader = None;
                        s.fail = fail_of(&o[5]);
                        s.prod_count = 0;
                        s.cur = 0;
                        s.mid = None;
                    }
                    let start = o[3].as_l().first().map(|x| Tai64(x.as_u64()));
                    let m = o[4].as_l();
                    let mode = if m[0].as_i() == 0 {
                        Mode::Blocks { number_of_blocks: m[1].as_u32() }
                    } else {
                        Mode::BlockWithTransactions(vec![])
                    };
                    match task.verif_produce_manual_blocks(start, mode).await {
                        Ok(()) => T::l(vec![T::i(0)]),
                        Err(_) => T::l(vec![T::i(1)]),
                    }
                }
                2 => {
                    sh.s.lock().unwrap().clock = o[1].as_u64();
                    let lh: u32 = *task.verif_state().0;
                    task.verif_update_last_block_values(&Arc::new(header_of((lh + o[2].as_u32()).saturating_sub(1), o[3].as_u64())));
                    T::l(vec![])
                }
                3 => {
                    let d = o[1].as_l();
                    let lh: u32 = *task.verif_state().0;
                    sh.s.lock().unwrap().db = if d.is_empty() { None } else { Some(((lh + d[0].as_u32()).saturating_sub(1), d[1].as_u64())) };
                    T::l(vec![])
                }
                4 => {
                    tokio::time::advance(Duration::from_millis(o[1].as_u64())).await;
                    T::l(vec![])
                }
                5 => {
                    let _ = peers_tx.send(o[1].as_usize());
                    T::l(vec![])
                }
                6 => {
                    let lh: u32 = *task.verif_state().0;
                    let h = (lh + o[1].as_u32()).saturating_sub(1);
                    let mut s = sh.s.lock().unwrap();
                    sh.p2p_import(&mut s, h, o[2].as_u64());
                    T::l(vec![])
                }
                k => panic!("bad op {k}"),
            };
            settle().await;
            let evs = T::l(std::mem::take(&mut *sh.log.lock().unwrap()));
            out.push(T::l(vec![res, state_t(&task, &sh), sync_t(&task), evs]));
        }
        T::l(out)
    })
}

// ---------------------------------------------------------------------------------------------

fn fail_t(rng: &mut Rng, max_idx: u64) -> T {
    if rng.chance(1, 5) {
        T::l(vec![T::n(rng.below(max_idx)), T::n(rng.below(5))])
    } else {
        T::l(vec![])
    }
}

pub fn gen(rng: &mut Rng, n: u64, tier: &str) -> Vec<T> {
    let max_len = if tier == "thorough" { 30 } else { 16 };
    let mut cases = vec![];
    for _ in 0..n {
        let trig = match rng.below(8) {
            0 => T::l(vec![T::i(0)]),
            1 => T::l(vec![T::i(1)]),
            2..=5 => T::l(vec![T::i(2), T::n(*rng.pick(&[1u64, 2, 3, 10]))]),
            _ => T::l(vec![T::i(3), T::n(*rng.pick(&[1u64, 2, 5]))]),
        };
        let big = rng.chance(1, 25);
        let t0: u64 = if big { u64::MAX - rng.below(30) } else { 1000 + rng.below(50) };
        let h0 = rng.below(5) as u32;
        let mut clock = if big { t0 } else { t0.saturating_add(rng.below(8)) };
        // shadow of the heights / times in play, to generate mostly relevant values
                let mut top_t = t0;
        // time_until_synced values are chosen so that a sync timer tick never falls on an instant at which
        // the main task wakes up (the order of two tasks woken at the same instant is the scheduler's choice)
        let (min_peers, tus): (u64, u64) = match rng.below(10) {
            0..=3 => (0, 0),
            4..=6 => (0, *rng.pick(&[700u64, 1300, 2300])),
            _ => (1 + rng.below(2), *rng.pick(&[0u64, 700, 1300])),
        };
        let len = rng.range(1, max_len);
        let mut ops = vec![];
        for _ in 0..len {
            if !big && rng.chance(2, 3) {
                clock = clock.saturating_add(rng.below(4));
            }
            let ck = if rng.chance(1, 15) { clock.saturating_sub(rng.below(20)) } else { clock };
            match rng.below(16) {
                12..=13 => ops.push(T::l(vec![T::i(5), T::n(rng.below(4))])),
                14..=15 => {
                    let d = rng.below(4) as u32;
                    let t = if big { t0 } else { ck.saturating_add(rng.below(6)) };
                    top_t = top_t.max(t);
                    ops.push(T::l(vec![T::i(6), T::n(d), T::n(t)]));
                }
                0..=4 => {
                    let leader = match rng.below(10) {
                        0 => T::l(vec![T::i(0)]),
                        1 => T::l(vec![T::i(1)]),
                        2..=6 => T::l(vec![T::i(2)]),
                        _ => {
                            let k = rng.below(4);
                            let mut bs = vec![];
                            let mut off = rng.below(3) as u32; // 0 = one below the asked height (stale), 1 = the asked height
                            if rng.chance(1, 12) {
                                off += 2;
                            }
                            let mut t = top_t;
                            for _ in 0..k {
                                t = t.saturating_add(rng.below(3));
                                bs.push(T::l(vec![T::n(off), T::n(t), T::b(!rng.chance(1, 5))]));
                                off += if rng.chance(1, 12) { 2 } else { 1 };
                            }
                            if k > 0 {
                                top_t = top_t.max(t);
                            }
                            T::l(vec![T::i(3), T::l(bs)])
                        }
                    };
                    let mid = if rng.chance(1, 5) {
                        let t = if big { t0 } else if rng.chance(1, 3) { top_t.saturating_sub(rng.below(4)) } else { ck.saturating_add(rng.below(6)) };
                        top_t = top_t.max(t);
                        T::l(vec![T::n(rng.below(4)), T::n(t)])
                    } else {
                        T::l(vec![])
                    };
                    let pd = if !big && rng.chance(1, 8) { T::l(vec![T::n(rng.below(4))]) } else { T::l(vec![]) };
                    ops.push(T::l(vec![T::i(0), T::n(ck), T::b(!rng.chance(1, 12)), leader, fail_t(rng, 1), mid, pd]));
                }
                5..=6 => {
                    let start = if rng.chance(1, 2) {
                        T::l(vec![T::n(if rng.chance(1, 4) { top_t.saturating_sub(rng.below(5)) } else { ck.saturating_add(rng.below(5)) })])
                    } else {
                        T::l(vec![])
                    };
                    let nb = rng.below(4);
                    let mode = if rng.chance(1, 4) { T::l(vec![T::i(1)]) } else { T::l(vec![T::i(0), T::n(nb)]) };
                    ops.push(T::l(vec![T::i(1), T::n(ck), T::b(!rng.chance(1, 12)), start, mode, fail_t(rng, 3)]));
                }
                7 => {
                    let d = rng.below(4) as u32; // height = last_height + d - 1
                    let t = if rng.chance(1, 4) { top_t.saturating_sub(rng.below(5)) } else { ck.saturating_sub(rng.below(3)) };
                    top_t = top_t.max(t);
                    ops.push(T::l(vec![T::i(2), T::n(ck), T::n(d), T::n(t)]));
                }
                8..=9 => {
                    // a block reaches the database without the sync task telling the producer
                    if rng.chance(1, 8) {
                        ops.push(T::l(vec![T::i(3), T::l(vec![])]));
                    } else {
                        let d = rng.below(4) as u32;
                        let t = if big { t0 } else { ck.saturating_add(rng.below(6)) };
                        top_t = top_t.max(t);
                        ops.push(T::l(vec![T::i(3), T::l(vec![T::n(d), T::n(t)])]));
                    }
                }
                _ => ops.push(T::l(vec![T::i(4), T::n(*rng.pick(&[1u64, 500, 999, 1000, 1001, 2500, 10000]))])),
            }
        }
        cases.push(T::l(vec![
            trig,
            T::l(vec![T::n(h0), T::n(t0)]),
            T::n(clock.min(t0.saturating_add(8)).max(t0)),
            T::l(vec![T::n(min_peers), T::n(tus)]),
            T::l(ops),
        ]));
    }
    cases
}
