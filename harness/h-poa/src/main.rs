//! Correspondence harness for the PoA block production task (C24): the real `MainTask` with
//! scripted ports under a paused tokio clock.
mod c24;

use vcommon::{Rng, T};

fn gen(prop: &str, rng: &mut Rng, n: u64, tier: &str) -> Vec<T> {
    match prop {
        "C24" => c24::gen(rng, n, tier),
        p => panic!("unknown property {p}"),
    }
}

fn run(prop: &str, input: &T) -> T {
    match prop {
        "C24" => c24::run(input),
        p => panic!("unknown property {p}"),
    }
}

fn main() {
    vcommon::main_protocol(gen, run);
}
