//! C39: export -> snapshot -> regenesis round trip (filled in below).
use vcommon::{Rng, T};

pub fn gen_c39(_rng: &mut Rng, _n: u64, _tier: &str) -> Vec<T> {
    vec![]
}

pub fn run_c39(_input: &T) -> T {
    T::l(vec![])
}
