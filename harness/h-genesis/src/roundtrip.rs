//! C39: the real `Exporter::write_full_snapshot` -> `SnapshotReader::open_w_config` ->
//! `SnapshotImporter::import` round trip, JSON and parquet.
//!
//! input  (enc ge gi latest da (coins msgs blobs code utxo state assets ptx mdata mmeta) seed)
//!   enc 0 JSON / 1 parquet; ge = group size of the exporter; gi = json group size of the
//!   reader; latest = height of the last block of the exported chain (blocks 0..=latest exist);
//!   da = its DA height; tables = lists of (key aux): key = index of the entry (contract state
//!   and balances: contract * 2^32 + index), aux = tx-pointer height (coins, contract UTXOs) /
//!   DA height (messages) / 0.  mdata/mmeta list the rows of the block Merkle tables by rank.
//!   Values (owners, amounts, payloads, code, slot values ...) come from the seed.
//! output (ok dst (height da) digests_ok ((column equal) ...))
//!   ok = export, read and import succeeded; dst = the same tables read from the new database;
//!   (height da) = last block data read back from the snapshot; digests_ok = every compared
//!   column has the same digest before and after (JSON: the 7 state columns; parquet: also
//!   processed transactions, block Merkle data/metadata and the off-chain TransactionStatuses,
//!   OwnedTransactions, SpentMessages); the last list reports digest equality of every
//!   on-chain column (id) and off-chain column (1000 + id).
use crate::{base_asset, temp_dir};
use fuel_core::{
    combined_database::{CombinedDatabase, CombinedGenesisDatabase},
    database::{
        database_description::{off_chain::OffChain, on_chain::OnChain, DatabaseDescription},
        Database, GenesisDatabase,
    },
    fuel_core_graphql_api::storage::{
        messages::SpentMessages,
        transactions::{OwnedTransactionIndexKey, OwnedTransactions, TransactionStatuses},
    },
    service::genesis::{verif_hooks::SnapshotImporter, Exporter, NotifyCancel},
};
use fuel_core_chain_config::{ChainConfig, SnapshotMetadata, SnapshotReader, SnapshotWriter, ZstdCompressionLevel};
use fuel_core_services::StateWatcher;
use fuel_core_storage::{
    iter::{IterDirection, IterableStore, IteratorOverTable},
    kv_store::StorageColumn,
    tables::{
        merkle::{FuelBlockMerkleData, FuelBlockMerkleMetadata},
        Coins, ContractsAssets, ContractsLatestUtxo, ContractsRawCode, ContractsState, FuelBlocks, Messages,
        ProcessedTransactions, SealedBlockConsensus,
    },
    transactional::WriteTransaction,
    ContractsAssetKey, ContractsStateKey, StorageAsMut,
};
use fuel_core_types::{
    blockchain::{
        block::Block,
        consensus::{Consensus, Genesis},
        header::{ApplicationHeader, ConsensusHeader, PartialBlockHeader},
        primitives::{DaBlockHeight, Empty},
    },
    entities::{
        coins::coin::{CompressedCoin, CompressedCoinV1},
        contract::{ContractUtxoInfo, ContractUtxoInfoV1},
        relayer::message::{Message, MessageV1},
    },
    fuel_crypto::Hasher,
    fuel_tx::{AssetId, TxPointer, UtxoId},
    fuel_types::{Address, BlobId, BlockHeight, Bytes32, ContractId, Nonce},
    fuel_vm::BlobData,
    services::transaction_status::TransactionExecutionStatus,
    tai64::Tai64,
};
use std::{collections::HashMap, sync::OnceLock};
use vcommon::{catch, Rng, T};

type Table = Vec<(u64, u64)>;

#[derive(Clone)]
struct Never;
impl NotifyCancel for Never {
    async fn wait_until_cancelled(&self) -> anyhow::Result<()> {
        std::future::pending::<()>().await;
        Ok(())
    }
    fn is_cancelled(&self) -> bool {
        false
    }
}

fn never_stopping() -> StateWatcher {
    let (sender, receiver) = tokio::sync::watch::channel(fuel_core_services::State::Started);
    // keep the channel open for the whole process
    std::mem::forget(sender);
    StateWatcher::from(receiver)
}

fn runtime() -> &'static tokio::runtime::Runtime {
    static RT: OnceLock<tokio::runtime::Runtime> = OnceLock::new();
    RT.get_or_init(|| {
        tokio::runtime::Builder::new_multi_thread().worker_threads(2).enable_all().build().expect("runtime")
    })
}

// keys: tag byte, index (big endian), then bytes derived from the index: key order = index order
fn key(tag: u8, i: u64) -> [u8; 32] {
    let mut b = [0u8; 32];
    b[0] = tag;
    b[1..9].copy_from_slice(&i.to_be_bytes());
    let h = Hasher::hash(&b[..9]);
    b[9..].copy_from_slice(&h[..23]);
    b
}
fn index_of(b: &[u8]) -> u64 {
    u64::from_be_bytes(b[1..9].try_into().unwrap())
}
const SHIFT: u64 = 1 << 32;

struct Tables {
    t: Vec<Table>,
}

fn parse_tables(t: &T) -> Tables {
    Tables {
        t: t.as_l().iter().map(|tb| tb.as_l().iter().map(|e| (e.as_l()[0].as_u64(), e.as_l()[1].as_u64())).collect()).collect(),
    }
}
fn tables_t(ts: &[Table]) -> T {
    T::l(ts.iter().map(|tb| T::l(tb.iter().map(|(k, a)| T::l(vec![T::n(*k), T::n(*a)])).collect())).collect())
}

fn chain_config() -> ChainConfig {
    ChainConfig::local_testnet()
}

fn block(height: u32, da: u64, prev_root: Bytes32) -> Block {
    Block::new(
        PartialBlockHeader {
            application: ApplicationHeader::<Empty> {
                da_height: DaBlockHeight(da),
                consensus_parameters_version: 0,
                state_transition_bytecode_version: 0,
                generated: Empty,
            },
            consensus: ConsensusHeader::<Empty> {
                prev_root,
                height: BlockHeight::from(height),
                time: Tai64(4611686018427387914 + height as u64),
                generated: Empty,
            },
        },
        vec![],
        &[],
        Default::default(),
    )
    .expect("block")
}

/// the exported node: blocks 0..=latest committed one by one (each commit also carries a share
/// of the state), then the off-chain rows
fn build_source(rng: &mut Rng, latest: u32, da: u64, tb: &Tables) -> CombinedDatabase {
    let db = CombinedDatabase::in_memory();
    let mut on: Database<OnChain> = db.on_chain().clone();
    let chain_id = chain_config().consensus_parameters.chain_id();
    let base = base_asset();
    let n_blocks = latest as u64 + 1;
    let share = |i: u64, h: u64| i % n_blocks == h;
    for h in 0..n_blocks {
        let mut tx = on.write_transaction();
        let b = block(h as u32, if h == latest as u64 { da } else { da.min(h) }, Bytes32::zeroed());
        tx.storage_as_mut::<FuelBlocks>().insert(&BlockHeight::from(h as u32), &b.compress(&chain_id)).expect("block");
        tx.storage_as_mut::<SealedBlockConsensus>()
            .insert(&BlockHeight::from(h as u32), &Consensus::Genesis(Genesis::default()))
            .expect("consensus");
        for (i, aux) in tb.t[0].iter().filter(|e| share(e.0, h)) {
            let coin: CompressedCoin = CompressedCoinV1 {
                owner: Address::from([1 + rng.below(3) as u8; 32]),
                amount: 1 + rng.below(1000),
                asset_id: if rng.chance(1, 2) { base } else { AssetId::from([7u8; 32]) },
                tx_pointer: TxPointer::new(BlockHeight::from(*aux as u32), rng.below(5) as u16),
            }
            .into();
            let id = UtxoId::new(Bytes32::from(key(1, *i)), (*i % 3) as u16);
            tx.storage_as_mut::<Coins>().insert(&id, &coin).expect("coin");
        }
        for (i, aux) in tb.t[1].iter().filter(|e| share(e.0, h)) {
            let nonce = Nonce::from(key(2, *i));
            let m: Message = MessageV1 {
                sender: Address::from([1 + rng.below(3) as u8; 32]),
                recipient: Address::from([1 + rng.below(3) as u8; 32]),
                nonce,
                amount: 1 + rng.below(1000),
                data: if rng.chance(1, 2) { vec![] } else { vec![rng.below(256) as u8; 1 + rng.below(3) as usize] },
                da_height: DaBlockHeight(*aux),
            }
            .into();
            tx.storage_as_mut::<Messages>().insert(&nonce, &m).expect("message");
        }
        for (i, _) in tb.t[2].iter().filter(|e| share(e.0, h)) {
            let payload = vec![rng.below(256) as u8; rng.below(40) as usize];
            tx.storage_as_mut::<BlobData>().insert(&BlobId::from(key(3, *i)), payload.as_slice()).expect("blob");
        }
        for (c, _) in tb.t[3].iter().filter(|e| share(e.0, h)) {
            let code = vec![rng.below(256) as u8; 1 + rng.below(30) as usize];
            tx.storage_as_mut::<ContractsRawCode>().insert(&ContractId::from(key(4, *c)), code.as_slice()).expect("code");
        }
        for (c, aux) in tb.t[4].iter().filter(|e| share(e.0, h)) {
            let info = ContractUtxoInfo::V1(ContractUtxoInfoV1 {
                utxo_id: UtxoId::new(Bytes32::from(key(5, *c)), (*c % 3) as u16),
                tx_pointer: TxPointer::new(BlockHeight::from(*aux as u32), rng.below(5) as u16),
            });
            tx.storage_as_mut::<ContractsLatestUtxo>().insert(&ContractId::from(key(4, *c)), &info).expect("utxo");
        }
        for (k, _) in tb.t[5].iter().filter(|e| share(e.0, h)) {
            let (c, s) = (k / SHIFT, k % SHIFT);
            let value = vec![rng.below(256) as u8; rng.below(70) as usize];
            let sk = ContractsStateKey::new(&ContractId::from(key(4, c)), &Bytes32::from(key(6, s)));
            tx.storage_as_mut::<ContractsState>().insert(&sk, value.as_slice()).expect("state");
        }
        for (k, _) in tb.t[6].iter().filter(|e| share(e.0, h)) {
            let (c, s) = (k / SHIFT, k % SHIFT);
            let ak = ContractsAssetKey::new(&ContractId::from(key(4, c)), &AssetId::from(key(7, s)));
            tx.storage_as_mut::<ContractsAssets>().insert(&ak, &(1 + rng.below(1000))).expect("balance");
        }
        for (i, _) in tb.t[7].iter().filter(|e| share(e.0, h)) {
            tx.storage_as_mut::<ProcessedTransactions>().insert(&Bytes32::from(key(8, *i)), &()).expect("ptx");
        }
        tx.commit().expect("commit block");
    }
    // off-chain rows that the snapshot carries as they are
    let mut off: Database<OffChain> = db.off_chain().clone();
    let mut tx = off.write_transaction();
    for (i, _) in tb.t[7].iter() {
        let id = Bytes32::from(key(8, *i));
        let st = if i % 2 == 0 {
            TransactionExecutionStatus::Submitted { time: Tai64(100 + i) }
        } else {
            TransactionExecutionStatus::SqueezedOut { reason: format!("r{i}") }
        };
        tx.storage_as_mut::<TransactionStatuses>().insert(&id, &st).expect("status");
        let ok = OwnedTransactionIndexKey::new(&Address::from([1 + (i % 3) as u8; 32]), BlockHeight::from((i % n_blocks) as u32), *i as u16);
        tx.storage_as_mut::<OwnedTransactions>().insert(&ok, &id).expect("owned tx");
    }
    for (i, _) in tb.t[1].iter().filter(|e| e.0 % 3 == 0) {
        tx.storage_as_mut::<SpentMessages>().insert(&Nonce::from(key(9, *i)), &()).expect("spent");
    }
    tx.commit().expect("commit off-chain");
    db
}

/// the modelled tables of an on-chain database, (key index, aux) in database order; the block
/// Merkle tables by the rank their key has in `ranks` (the exported database)
fn dump<St>(db: &Database<OnChain, St>, ranks: Option<&(HashMap<Vec<u8>, u64>, HashMap<Vec<u8>, u64>)>) -> (Vec<Table>, (HashMap<Vec<u8>, u64>, HashMap<Vec<u8>, u64>)) {
    let mut t: Vec<Table> = vec![];
    t.push(db.iter_all::<Coins>(None).map(|r| r.expect("coin")).map(|(k, c)| (index_of(k.tx_id().as_ref()), u32::from(c.tx_pointer().block_height()) as u64)).collect());
    t.push(db.iter_all::<Messages>(None).map(|r| r.expect("msg")).map(|(k, m)| (index_of(k.as_ref()), m.da_height().0)).collect());
    t.push(db.iter_all_keys::<BlobData>(None).map(|r| r.expect("blob")).map(|k| (index_of(k.as_ref()), 0)).collect());
    t.push(db.iter_all_keys::<ContractsRawCode>(None).map(|r| r.expect("code")).map(|k| (index_of(k.as_ref()), 0)).collect());
    t.push(db.iter_all::<ContractsLatestUtxo>(None).map(|r| r.expect("utxo")).map(|(k, u)| (index_of(k.as_ref()), u32::from(u.tx_pointer().block_height()) as u64)).collect());
    t.push(db.iter_all_keys::<ContractsState>(None).map(|r| r.expect("state")).map(|k| (index_of(k.contract_id().as_ref()) * SHIFT + index_of(k.state_key().as_ref()), 0)).collect());
    t.push(db.iter_all_keys::<ContractsAssets>(None).map(|r| r.expect("asset")).map(|k| (index_of(k.contract_id().as_ref()) * SHIFT + index_of(k.asset_id().as_ref()), 0)).collect());
    t.push(db.iter_all_keys::<ProcessedTransactions>(None).map(|r| r.expect("ptx")).map(|k| (index_of(k.as_ref()), 0)).collect());
    // raw keys of the Merkle tables
    let raw = |column: fuel_core_storage::column::Column| -> Vec<Vec<u8>> {
        db.iter_store_keys(column, None, None, IterDirection::Forward).map(|r| r.expect("key").to_vec()).collect()
    };
    use fuel_core_storage::structured_storage::TableWithBlueprint;
    let mdata = raw(<FuelBlockMerkleData as TableWithBlueprint>::column());
    let mmeta = raw(<FuelBlockMerkleMetadata as TableWithBlueprint>::column());
    let own: (HashMap<Vec<u8>, u64>, HashMap<Vec<u8>, u64>) = (
        mdata.iter().enumerate().map(|(i, k)| (k.clone(), i as u64)).collect(),
        mmeta.iter().enumerate().map(|(i, k)| (k.clone(), i as u64)).collect(),
    );
    let rk = ranks.unwrap_or(&own);
    t.push(mdata.iter().enumerate().map(|(j, k)| (*rk.0.get(k).unwrap_or(&(1_000_000 + j as u64)), 0)).collect());
    t.push(mmeta.iter().enumerate().map(|(j, k)| (*rk.1.get(k).unwrap_or(&(1_000_000 + j as u64)), 0)).collect());
    (t, own)
}

fn column_digest<D: DatabaseDescription, St>(db: &Database<D, St>, column: D::Column) -> u64 {
    let mut h = Hasher::default();
    for kv in db.iter_store(column, None, None, IterDirection::Forward) {
        let (k, v) = kv.expect("iter");
        h.input((k.len() as u64).to_be_bytes());
        h.input(&k);
        h.input((v.len() as u64).to_be_bytes());
        h.input(&v[..]);
    }
    let d = h.finalize();
    u64::from_be_bytes(d[..8].try_into().unwrap())
}

fn genesis_block(reader: &SnapshotReader) -> Block {
    // as create_genesis_block: the new chain continues the exported one
    let last = reader.last_block_config().expect("last block config");
    block(
        u32::from(last.block_height.succ().expect("height")),
        last.da_block_height.0,
        last.blocks_root,
    )
}

pub fn run_c39(input: &T) -> T {
    let input = input.clone();
    catch(move || {
        let f = input.as_l();
        let enc = f[0].as_u64();
        let ge = f[1].as_usize();
        let gi = f[2].as_usize();
        let latest = f[3].as_u32();
        let da = f[4].as_u64();
        let tb = parse_tables(&f[5]);
        let mut rng = Rng::new(f[6].as_u64() ^ 0x3939);
        let src = build_source(&mut rng, latest, da, &tb);
        let (src_tables, ranks) = dump(src.on_chain(), None);
        assert_eq!(src_tables, tb.t, "the source database does not hold the tables of the input");

        // export
        let dir = temp_dir();
        let out = dir.clone();
        let rt = runtime();
        let exported = rt.block_on(async {
            let writer = move || -> anyhow::Result<SnapshotWriter> {
                if enc == 0 {
                    Ok(SnapshotWriter::json(out.clone()))
                } else {
                    SnapshotWriter::parquet(out.clone(), ZstdCompressionLevel::Level1)
                }
            };
            Exporter::new(src.clone(), chain_config(), writer, ge, Never).write_full_snapshot().await
        });
        let fail = |_why: &str| {
            let _ = std::fs::remove_dir_all(&dir);
            T::l(vec![T::b(false), tables_t(&vec![vec![]; 10]), T::l(vec![T::n(0u64), T::n(0u64)]), T::b(false), T::l(vec![])])
        };
        if exported.is_err() {
            return fail("export");
        }
        // read back, regenesis into a fresh node
        let meta = match SnapshotMetadata::read(&dir) {
            Ok(m) => m,
            Err(_) => return fail("metadata"),
        };
        let reader = match SnapshotReader::open_w_config(meta, gi) {
            Ok(r) => r,
            Err(_) => return fail("open"),
        };
        let last = reader.last_block_config().cloned();
        let dst = CombinedGenesisDatabase {
            on_chain: GenesisDatabase::<OnChain>::in_memory(),
            off_chain: GenesisDatabase::<OffChain>::in_memory(),
        };
        let gblock = genesis_block(&reader);
        let imported = rt.block_on(SnapshotImporter::import(dst.clone(), gblock, reader, never_stopping()));
        if imported.is_err() {
            return fail("import");
        }
        let (dst_tables, _) = dump(dst.on_chain(), Some(&ranks));

        // digests, column by column
        use fuel_core_storage::column::Column as C;
        use fuel_core::fuel_core_graphql_api::storage::Column as O;
        let mut cols = vec![];
        let mut on_eq = HashMap::new();
        for c in enum_iterator::all::<<OnChain as DatabaseDescription>::Column>() {
            let eq = column_digest(src.on_chain(), c) == column_digest(dst.on_chain(), c);
            on_eq.insert(c.id(), eq);
            cols.push(T::l(vec![T::n(c.id() as u64), T::b(eq)]));
        }
        let mut off_eq = HashMap::new();
        for c in enum_iterator::all::<<OffChain as DatabaseDescription>::Column>() {
            let eq = column_digest(src.off_chain(), c) == column_digest(dst.off_chain(), c);
            off_eq.insert(c.id(), eq);
            cols.push(T::l(vec![T::n(1000 + c.id() as u64), T::b(eq)]));
        }
        let mut compared_on = vec![
            C::Coins, C::Messages, C::Blobs, C::ContractsRawCode, C::ContractsLatestUtxo, C::ContractsState, C::ContractsAssets,
        ];
        let mut compared_off = vec![];
        if enc != 0 {
            compared_on.extend([C::ProcessedTransactions, C::FuelBlockMerkleData, C::FuelBlockMerkleMetadata]);
            compared_off.extend([O::TransactionStatus, O::TransactionsByOwnerBlockIdx, O::SpentMessages]);
        }
        let digests_ok = compared_on.iter().all(|c| on_eq[&c.id()]) && compared_off.iter().all(|c| off_eq[&c.id()]);
        let _ = std::fs::remove_dir_all(&dir);
        let (lh, lda) = match last {
            Some(l) => (u32::from(l.block_height) as u64, l.da_block_height.0),
            None => (u64::MAX, u64::MAX),
        };
        T::l(vec![T::b(true), tables_t(&dst_tables), T::l(vec![T::n(lh), T::n(lda)]), T::b(digests_ok), T::l(cols)])
    })
}

// ---------------------------------------------------------------------------------------
// generator

pub fn gen_c39(rng: &mut Rng, n: u64, tier: &str) -> Vec<T> {
    let mut cases = vec![];
    let sizes: &[u64] = &[1, 2, 3, 7];
    for i in 0..n {
        let latest = rng.below(4);
        let da = rng.below(5);
        let big = tier == "thorough" && rng.chance(1, 4);
        let m = if big { 16 } else { 7 };
        let n_coins = rng.below(m);
        let n_msgs = rng.below(m);
        let n_blobs = rng.below(4);
        let n_contracts = rng.below(4);
        let n_ptx = rng.below(m);
        let plain = |k: u64| -> Table { (0..k).map(|i| (i, 0)).collect() };
        let coins: Table = (0..n_coins).map(|i| (i, rng.below(latest + 1))).collect();
        let msgs: Table = (0..n_msgs).map(|i| (i, rng.below(da + 1))).collect();
        let utxo: Table = (0..n_contracts).map(|c| (c, rng.below(latest + 1))).collect();
        let mut state: Table = vec![];
        let mut assets: Table = vec![];
        for c in 0..n_contracts {
            // contracts whose slots span several groups, contracts without slots
            let ns = if rng.chance(1, 4) { 0 } else { rng.below(2 * m) };
            let nb = rng.below(4);
            state.extend((0..ns).map(|s| (c * SHIFT + s, 0)));
            assets.extend((0..nb).map(|s| (c * SHIFT + s, 0)));
        }
        let n_blocks = latest + 1;
        // binary Merkle mountain range over n leaves: 2n - popcount(n) nodes; metadata: one row
        // per height and the "latest" row
        let mdata = plain(2 * n_blocks - n_blocks.count_ones() as u64);
        let mmeta = plain(n_blocks + 1);
        let tables = vec![coins, msgs, plain(n_blobs), plain(n_contracts), utxo, state, assets, plain(n_ptx), mdata, mmeta];
        let enc = i % 2;
        let (ge, gi) = if i < 32 {
            // every pair of group sizes for both encodings
            (sizes[((i / 2) % 4) as usize], sizes[((i / 8) % 4) as usize])
        } else {
            (*rng.pick(sizes), *rng.pick(sizes))
        };
        cases.push(T::l(vec![
            T::n(enc),
            T::n(ge),
            T::n(gi),
            T::n(latest),
            T::n(da),
            tables_t(&tables),
            T::n(rng.below(1 << 32)),
        ]));
    }
    cases
}
