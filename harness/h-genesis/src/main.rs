//! Genesis cluster: C40 (resumable import) and C39 (export -> regenesis round trip).
//!
//! C40 drives the real `ImportTask::{new, run}` (hook `service::genesis::verif_hooks`) over
//! in-memory `GenesisDatabase`s. Every handler is wrapped by `Wrap`, which records the calls
//! and injects the failures of the session plan; the groups come through `Feed`, which tells
//! the wrapper the index of the group just pulled and injects read errors; the cancellation
//! signal `Cancel` fires once the session completed a given number of groups.
//!
//! input  (mode spec init plans)
//!   mode 0  spec = ((tid ((k v) ...) ...) ...)   recording handlers of this file
//!           tid 100 "Coins -> Coins": insert coin k with amount v, error if present
//!           tid 101 "Messages -> Messages": insert message k with amount v + amount of
//!           coin k (0 if none), error if present
//!   mode 1  spec = (seed g n_coins n_msgs n_blobs ((n_state n_balances) ...) bad)
//!           the real on-chain/off-chain handlers in the order of run_workers over a generated
//!           JSON snapshot read back with group size g; bad = () | (p): coin p is invalid
//!   init    ((tid v) ...) progress rows present before the first session
//!   plans   ((cancel fail) ...) one interrupted session each; cancel = () | (c): the signal
//!           reports cancelled once c groups were completed in the session; fail = () |
//!           (tid idx kind): 0 reading the group fails, 1 the handler fails before writing,
//!           2 after writing the first half of the group, 3 after writing the whole group
//! output (sessions final uninterrupted digests dump)
//!   session = (res ((tid idx committed) ...) ((tid progress) ...)); res 0 Ok, 1 the error
//!   "Import cancelled", 2 any other error; digests = (on off on_u off_u); dump (mode 0) =
//!   (coins msgs) of the resumed database.
mod roundtrip;

use fuel_core::{
    database::{
        database_description::{off_chain::OffChain, on_chain::OnChain, DatabaseDescription},
        genesis_progress::{GenesisProgressInspect, GenesisProgressMutate},
        GenesisDatabase,
    },
    fuel_core_graphql_api::storage::{
        blocks::FuelBlockIdsToHeights,
        coins::OwnedCoins,
        contracts::ContractsInfo,
        messages::{OwnedMessageIds, SpentMessages},
        old::{OldFuelBlockConsensus, OldFuelBlocks, OldTransactions},
        transactions::{OwnedTransactions, TransactionStatuses},
    },
    service::genesis::{
        verif_hooks::{migration_name, CancellationToken, Handler, ImportTable, ImportTask, ProgressReporter},
        NotifyCancel,
    },
};
use fuel_core_chain_config::{
    BlobConfig, ChainConfig, CoinConfig, ContractBalanceConfig, ContractConfig, ContractStateConfig,
    LastBlockConfig, MessageConfig, SnapshotReader, SnapshotWriter, StateConfig, TableEntry,
};
use fuel_core_storage::{
    iter::{IterDirection, IterableStore, IteratorOverTable},
    kv_store::StorageColumn,
    tables::{
        merkle::{FuelBlockMerkleData, FuelBlockMerkleMetadata},
        Coins, ContractsAssets, ContractsLatestUtxo, ContractsRawCode, ContractsState, FuelBlocks, Messages,
        ProcessedTransactions, SealedBlockConsensus, Transactions,
    },
    transactional::{StorageTransaction, WriteTransaction},
    StorageAsMut, StorageAsRef,
};
use fuel_core_types::{
    blockchain::primitives::DaBlockHeight,
    entities::{
        coins::coin::{CompressedCoin, CompressedCoinV1},
        relayer::message::{Message, MessageV1},
    },
    fuel_crypto::Hasher,
    fuel_tx::{AssetId, UtxoId},
    fuel_types::{Address, BlobId, BlockHeight, Bytes32, ContractId, Nonce},
    fuel_vm::BlobData,
};
use std::{
    path::PathBuf,
    sync::{
        atomic::{AtomicU64, AtomicUsize, Ordering},
        Arc, Mutex,
    },
};
use vcommon::{catch, Rng, T};

pub const GENESIS_HEIGHT: u32 = 10;
pub const GENESIS_DA_HEIGHT: u64 = 10;

static COUNTER: AtomicU64 = AtomicU64::new(0);

pub fn temp_dir() -> PathBuf {
    let n = COUNTER.fetch_add(1, Ordering::Relaxed);
    let p = PathBuf::from(format!("/verif/target-genesis/tmp/h-genesis-{}-{}", std::process::id(), n));
    let _ = std::fs::remove_dir_all(&p);
    std::fs::create_dir_all(&p).expect("temp dir");
    p
}

// ---------------------------------------------------------------------------------------
// session control: plan, recording wrapper, group feed, cancellation signal

#[derive(Clone, Debug, Default)]
struct Plan {
    cancel_at: Option<usize>,
    fail: Option<(u64, usize, u64)>,
}

struct Ctl {
    plan: Plan,
    cur_idx: AtomicUsize,
    done: AtomicUsize,
    events: Mutex<Vec<(u64, usize, bool)>>,
}

impl Ctl {
    fn new(plan: &Plan) -> Arc<Self> {
        Arc::new(Ctl {
            plan: plan.clone(),
            cur_idx: AtomicUsize::new(usize::MAX),
            done: AtomicUsize::new(0),
            events: Mutex::new(vec![]),
        })
    }
    fn fail_here(&self, tid: u64, idx: usize) -> Option<u64> {
        match self.plan.fail {
            Some((t, i, k)) if t == tid && i == idx => Some(k),
            _ => None,
        }
    }
    fn record(&self, tid: u64, idx: usize, committed: bool) {
        self.events.lock().unwrap().push((tid, idx, committed));
    }
}

struct Wrap<H> {
    inner: H,
    tid: u64,
    ctl: Arc<Ctl>,
}

impl<H: ImportTable> ImportTable for Wrap<H> {
    type TableInSnapshot = H::TableInSnapshot;
    type TableBeingWritten = H::TableBeingWritten;
    type DbDesc = H::DbDesc;

    fn process(
        &mut self,
        group: Vec<TableEntry<Self::TableInSnapshot>>,
        tx: &mut StorageTransaction<&mut GenesisDatabase<Self::DbDesc>>,
    ) -> anyhow::Result<()> {
        let idx = self.ctl.cur_idx.load(Ordering::SeqCst);
        match self.ctl.fail_here(self.tid, idx) {
            Some(1) => anyhow::bail!("injected failure before the handler"),
            Some(2) => {
                let half = group.len().div_ceil(2);
                let part: Vec<_> = group.into_iter().take(half).collect();
                let _ = self.inner.process(part, tx);
                self.ctl.record(self.tid, idx, false);
                anyhow::bail!("injected failure inside the group")
            }
            Some(3) => {
                let _ = self.inner.process(group, tx);
                self.ctl.record(self.tid, idx, false);
                anyhow::bail!("injected failure after the group")
            }
            _ => {}
        }
        match self.inner.process(group, tx) {
            Ok(()) => {
                self.ctl.record(self.tid, idx, true);
                self.ctl.done.fetch_add(1, Ordering::SeqCst);
                Ok(())
            }
            Err(e) => {
                self.ctl.record(self.tid, idx, false);
                Err(e)
            }
        }
    }
}

struct Feed<I> {
    inner: I,
    pos: usize,
    tid: u64,
    ctl: Arc<Ctl>,
}

impl<I, X> Iterator for Feed<I>
where
    I: Iterator<Item = anyhow::Result<X>>,
{
    type Item = anyhow::Result<X>;
    fn next(&mut self) -> Option<Self::Item> {
        let item = self.inner.next()?;
        let idx = self.pos;
        self.pos += 1;
        self.ctl.cur_idx.store(idx, Ordering::SeqCst);
        if self.ctl.fail_here(self.tid, idx) == Some(0) {
            return Some(Err(anyhow::anyhow!("injected read error")));
        }
        Some(item)
    }
}

#[derive(Clone)]
struct Cancel(Arc<Ctl>);

impl NotifyCancel for Cancel {
    async fn wait_until_cancelled(&self) -> anyhow::Result<()> {
        std::future::pending::<()>().await;
        Ok(())
    }
    fn is_cancelled(&self) -> bool {
        match self.0.plan.cancel_at {
            Some(c) => self.0.done.load(Ordering::SeqCst) >= c,
            None => false,
        }
    }
}

fn err_tag(e: &anyhow::Error) -> i128 {
    if e.to_string() == "Import cancelled" {
        1
    } else {
        2
    }
}

#[derive(Clone)]
pub struct Dbs {
    pub on: GenesisDatabase<OnChain>,
    pub off: GenesisDatabase<OffChain>,
}

impl Dbs {
    pub fn new() -> Self {
        Dbs { on: GenesisDatabase::<OnChain>::in_memory(), off: GenesisDatabase::<OffChain>::in_memory() }
    }
}

/// sha256 over (column id, key, value) of every column, first 7 bytes as an integer
pub fn digest<D>(db: &GenesisDatabase<D>) -> u64
where
    D: DatabaseDescription,
{
    let mut h = Hasher::default();
    for column in enum_iterator::all::<D::Column>() {
        for kv in db.iter_store(column, None, None, IterDirection::Forward) {
            let (k, v) = kv.expect("iter");
            h.input((column.id() as u64).to_be_bytes());
            h.input((k.len() as u64).to_be_bytes());
            h.input(&k);
            h.input((v.len() as u64).to_be_bytes());
            h.input(&v[..]);
        }
    }
    let d = h.finalize();
    let mut b = [0u8; 8];
    b[1..].copy_from_slice(&d[..7]);
    u64::from_be_bytes(b)
}

// ---------------------------------------------------------------------------------------
// mode 0: recording handlers

fn key32(k: u64) -> [u8; 32] {
    let mut b = [0u8; 32];
    b[24..].copy_from_slice(&k.to_be_bytes());
    b
}
fn key_of(b: &[u8]) -> u64 {
    u64::from_be_bytes(b[24..32].try_into().unwrap())
}

struct RecCoins;
impl ImportTable for RecCoins {
    type TableInSnapshot = Coins;
    type TableBeingWritten = Coins;
    type DbDesc = OnChain;
    fn process(
        &mut self,
        group: Vec<TableEntry<Coins>>,
        tx: &mut StorageTransaction<&mut GenesisDatabase>,
    ) -> anyhow::Result<()> {
        for e in group {
            if tx.storage::<Coins>().contains_key(&e.key)? {
                anyhow::bail!("present");
            }
            tx.storage_as_mut::<Coins>().insert(&e.key, &e.value)?;
        }
        Ok(())
    }
}

struct RecMsgs;
impl ImportTable for RecMsgs {
    type TableInSnapshot = Messages;
    type TableBeingWritten = Messages;
    type DbDesc = OnChain;
    fn process(
        &mut self,
        group: Vec<TableEntry<Messages>>,
        tx: &mut StorageTransaction<&mut GenesisDatabase>,
    ) -> anyhow::Result<()> {
        for e in group {
            if tx.storage::<Messages>().contains_key(&e.key)? {
                anyhow::bail!("present");
            }
            let utxo = UtxoId::new(Bytes32::from(*e.key), 0);
            let add = match tx.storage::<Coins>().get(&utxo)? {
                Some(c) => *c.amount(),
                None => 0,
            };
            let m: Message = MessageV1 {
                nonce: e.key,
                amount: e.value.amount().checked_add(add).expect("amount fits"),
                ..Default::default()
            }
            .into();
            tx.storage_as_mut::<Messages>().insert(&e.key, &m)?;
        }
        Ok(())
    }
}

fn coin_entry(k: u64, v: u64) -> TableEntry<Coins> {
    let value: CompressedCoin = CompressedCoinV1 { amount: v, ..Default::default() }.into();
    TableEntry { key: UtxoId::new(Bytes32::from(key32(k)), 0), value }
}
fn msg_entry(k: u64, v: u64) -> TableEntry<Messages> {
    let nonce = Nonce::from(key32(k));
    let value: Message = MessageV1 { nonce, amount: v, ..Default::default() }.into();
    TableEntry { key: nonce, value }
}

type RecTask = (u64, Vec<Vec<(u64, u64)>>);

fn session_recording(tasks: &[RecTask], dbs: &Dbs, plan: &Plan) -> (i128, Vec<(u64, usize, bool)>) {
    let ctl = Ctl::new(plan);
    let token = CancellationToken::new(Cancel(ctl.clone()));
    let mut res = 0i128;
    for (tid, groups) in tasks {
        if res != 0 {
            break;
        }
        // spawn_worker_*: a table without groups gets no task
        if groups.is_empty() {
            continue;
        }
        let r = match *tid {
            100 => {
                let gs: Vec<anyhow::Result<Vec<TableEntry<Coins>>>> =
                    groups.iter().map(|g| Ok(g.iter().map(|(k, v)| coin_entry(*k, *v)).collect())).collect();
                let feed = Feed { inner: gs.into_iter(), pos: 0, tid: *tid, ctl: ctl.clone() };
                ImportTask::new(
                    Wrap { inner: RecCoins, tid: *tid, ctl: ctl.clone() },
                    feed,
                    dbs.on.clone(),
                    ProgressReporter::default(),
                )
                .run(token.clone())
            }
            101 => {
                let gs: Vec<anyhow::Result<Vec<TableEntry<Messages>>>> =
                    groups.iter().map(|g| Ok(g.iter().map(|(k, v)| msg_entry(*k, *v)).collect())).collect();
                let feed = Feed { inner: gs.into_iter(), pos: 0, tid: *tid, ctl: ctl.clone() };
                ImportTask::new(
                    Wrap { inner: RecMsgs, tid: *tid, ctl: ctl.clone() },
                    feed,
                    dbs.on.clone(),
                    ProgressReporter::default(),
                )
                .run(token.clone())
            }
            t => panic!("recording task {t}"),
        };
        if let Err(e) = r {
            res = err_tag(&e);
        }
    }
    let evs = ctl.events.lock().unwrap().clone();
    (res, evs)
}

fn dump_recording(dbs: &Dbs) -> T {
    let coins: Vec<T> = dbs
        .on
        .iter_all::<Coins>(None)
        .map(|r| {
            let (k, c) = r.expect("coin");
            T::l(vec![T::n(key_of(k.tx_id().as_ref())), T::n(*c.amount())])
        })
        .collect();
    let msgs: Vec<T> = dbs
        .on
        .iter_all::<Messages>(None)
        .map(|r| {
            let (k, m) = r.expect("message");
            T::l(vec![T::n(key_of(k.as_ref())), T::n(m.amount())])
        })
        .collect();
    T::l(vec![T::l(coins), T::l(msgs)])
}

// ---------------------------------------------------------------------------------------
// mode 1: the real handlers over a generated snapshot

fn rand32(rng: &mut Rng, tag: u8, i: u64) -> [u8; 32] {
    let mut b = [0u8; 32];
    for c in b.chunks_mut(8) {
        c.copy_from_slice(&rng.next().to_be_bytes());
    }
    // unique per (tag, i)
    b[0] = tag;
    b[1..9].copy_from_slice(&i.to_be_bytes());
    b
}

fn owner(rng: &mut Rng) -> Address {
    // three owners, so that balances of several coins/messages add up
    Address::from([1 + rng.below(3) as u8; 32])
}

pub fn base_asset() -> AssetId {
    *ChainConfig::local_testnet().consensus_parameters.base_asset_id()
}

/// deterministic snapshot content from (seed, sizes)
pub fn gen_state(seed: u64, n_coins: u64, n_msgs: u64, n_blobs: u64, contracts: &[(u64, u64)], bad: Option<u64>) -> StateConfig {
    let mut rng = Rng::new(seed ^ 0x5151);
    let base = base_asset();
    let mut coins: Vec<CoinConfig> = (0..n_coins)
        .map(|i| CoinConfig {
            tx_id: Bytes32::from(rand32(&mut rng, 1, i)),
            output_index: rng.below(4) as u16,
            tx_pointer_block_height: BlockHeight::from(rng.below(GENESIS_HEIGHT as u64 + 1) as u32),
            tx_pointer_tx_idx: rng.below(5) as u16,
            owner: owner(&mut rng).into(),
            amount: 1 + rng.below(1000),
            asset_id: if rng.chance(1, 2) { base } else { AssetId::from([7u8; 32]) },
        })
        .collect();
    if let Some(p) = bad {
        let p = p as usize;
        if p < coins.len() {
            if seed % 2 == 1 && p > 0 {
                // the same UTXO id as coin 0: "Coin should not exist"
                coins[p].tx_id = coins[0].tx_id;
                coins[p].output_index = coins[0].output_index;
            } else {
                coins[p].tx_pointer_block_height = BlockHeight::from(GENESIS_HEIGHT + 1);
            }
        }
    }
    let messages = (0..n_msgs)
        .map(|i| MessageConfig {
            sender: owner(&mut rng),
            recipient: owner(&mut rng),
            nonce: Nonce::from(rand32(&mut rng, 2, i)),
            amount: 1 + rng.below(1000),
            data: if rng.chance(1, 2) { vec![] } else { vec![rng.below(256) as u8; 1 + rng.below(3) as usize] },
            da_height: DaBlockHeight(rng.below(GENESIS_DA_HEIGHT + 1)),
        })
        .collect();
    let blobs = (0..n_blobs)
        .map(|i| BlobConfig {
            blob_id: BlobId::from(rand32(&mut rng, 3, i)),
            payload: vec![rng.below(256) as u8; rng.below(40) as usize],
        })
        .collect();
    let contracts = contracts
        .iter()
        .enumerate()
        .map(|(ci, (n_state, n_bal))| ContractConfig {
            contract_id: ContractId::from(rand32(&mut rng, 4, ci as u64)),
            code: vec![rng.below(256) as u8; 1 + rng.below(30) as usize],
            tx_id: Bytes32::from(rand32(&mut rng, 5, ci as u64)),
            output_index: rng.below(4) as u16,
            tx_pointer_block_height: BlockHeight::from(rng.below(GENESIS_HEIGHT as u64 + 1) as u32),
            tx_pointer_tx_idx: rng.below(5) as u16,
            states: (0..*n_state)
                .map(|si| ContractStateConfig {
                    key: Bytes32::from(rand32(&mut rng, 6, si)),
                    value: vec![rng.below(256) as u8; rng.below(70) as usize],
                })
                .collect(),
            balances: (0..*n_bal)
                .map(|bi| ContractBalanceConfig {
                    asset_id: AssetId::from(rand32(&mut rng, 7, bi)),
                    amount: 1 + rng.below(1000),
                })
                .collect(),
        })
        .collect();
    StateConfig {
        coins,
        messages,
        blobs,
        contracts,
        last_block: Some(LastBlockConfig {
            block_height: BlockHeight::from(GENESIS_HEIGHT - 1),
            da_block_height: DaBlockHeight(GENESIS_DA_HEIGHT),
            ..Default::default()
        }),
    }
}

/// one start of the import: every table of `run_workers`, in its order, each through the
/// real `ImportTask` with the real handler (wrapped); stops at the first error
fn session_snapshot(reader: &SnapshotReader, dbs: &Dbs, plan: &Plan) -> (i128, Vec<(u64, usize, bool)>) {
    let ctl = Ctl::new(plan);
    let token = CancellationToken::new(Cancel(ctl.clone()));
    let mut res = 0i128;
    let height = BlockHeight::from(GENESIS_HEIGHT);
    let da = DaBlockHeight(GENESIS_DA_HEIGHT);
    let base = *reader.chain_config().consensus_parameters.base_asset_id();
    macro_rules! task {
        ($tid:expr, $db:expr, $src:ty, $dst:ty) => {
            if res == 0 {
                let groups = reader.read::<$src>().expect("read groups");
                // spawn_worker_*: a table without groups gets no task
                if groups.len() != 0 {
                    let feed = Feed { inner: groups.into_iter(), pos: 0, tid: $tid, ctl: ctl.clone() };
                    let handler =
                        Wrap { inner: Handler::<$dst, $src>::new(height, da, &base), tid: $tid, ctl: ctl.clone() };
                    let task = ImportTask::new(handler, feed, $db.clone(), ProgressReporter::default());
                    if let Err(e) = task.run(token.clone()) {
                        res = err_tag(&e);
                    }
                }
            }
        };
    }
    task!(0, dbs.on, Coins, Coins);
    task!(1, dbs.on, Messages, Messages);
    task!(2, dbs.on, BlobData, BlobData);
    task!(3, dbs.on, ContractsRawCode, ContractsRawCode);
    task!(4, dbs.on, ContractsLatestUtxo, ContractsLatestUtxo);
    task!(5, dbs.on, ContractsState, ContractsState);
    task!(6, dbs.on, ContractsAssets, ContractsAssets);
    task!(7, dbs.on, ProcessedTransactions, ProcessedTransactions);
    task!(8, dbs.on, FuelBlockMerkleData, FuelBlockMerkleData);
    task!(9, dbs.on, FuelBlockMerkleMetadata, FuelBlockMerkleMetadata);
    task!(10, dbs.off, TransactionStatuses, TransactionStatuses);
    task!(11, dbs.off, OwnedTransactions, OwnedTransactions);
    task!(12, dbs.off, SpentMessages, SpentMessages);
    task!(13, dbs.off, Messages, OwnedMessageIds);
    task!(14, dbs.off, Coins, OwnedCoins);
    task!(15, dbs.off, FuelBlocks, OldFuelBlocks);
    task!(16, dbs.off, Transactions, OldTransactions);
    task!(17, dbs.off, SealedBlockConsensus, OldFuelBlockConsensus);
    task!(18, dbs.off, ContractsInfo, ContractsInfo);
    task!(19, dbs.off, Transactions, ContractsInfo);
    task!(20, dbs.off, OldTransactions, ContractsInfo);
    task!(21, dbs.off, OldFuelBlocks, OldFuelBlocks);
    task!(22, dbs.off, OldFuelBlockConsensus, OldFuelBlockConsensus);
    task!(23, dbs.off, OldTransactions, OldTransactions);
    task!(24, dbs.off, FuelBlocks, FuelBlockIdsToHeights);
    task!(25, dbs.off, OldFuelBlocks, FuelBlockIdsToHeights);
    let evs = ctl.events.lock().unwrap().clone();
    (res, evs)
}

/// (migration name, on-chain?) of a task id
fn task_name(tid: u64) -> (String, bool) {
    macro_rules! n {
        ($on:expr, $src:ty, $dst:ty) => {
            (migration_name::<$src, $dst>(), $on)
        };
    }
    match tid {
        0 | 100 => n!(true, Coins, Coins),
        1 | 101 => n!(true, Messages, Messages),
        2 => n!(true, BlobData, BlobData),
        3 => n!(true, ContractsRawCode, ContractsRawCode),
        4 => n!(true, ContractsLatestUtxo, ContractsLatestUtxo),
        5 => n!(true, ContractsState, ContractsState),
        6 => n!(true, ContractsAssets, ContractsAssets),
        7 => n!(true, ProcessedTransactions, ProcessedTransactions),
        8 => n!(true, FuelBlockMerkleData, FuelBlockMerkleData),
        9 => n!(true, FuelBlockMerkleMetadata, FuelBlockMerkleMetadata),
        10 => n!(false, TransactionStatuses, TransactionStatuses),
        11 => n!(false, OwnedTransactions, OwnedTransactions),
        12 => n!(false, SpentMessages, SpentMessages),
        13 => n!(false, Messages, OwnedMessageIds),
        14 => n!(false, Coins, OwnedCoins),
        15 => n!(false, FuelBlocks, OldFuelBlocks),
        16 => n!(false, Transactions, OldTransactions),
        17 => n!(false, SealedBlockConsensus, OldFuelBlockConsensus),
        18 => n!(false, ContractsInfo, ContractsInfo),
        19 => n!(false, Transactions, ContractsInfo),
        20 => n!(false, OldTransactions, ContractsInfo),
        21 => n!(false, OldFuelBlocks, OldFuelBlocks),
        22 => n!(false, OldFuelBlockConsensus, OldFuelBlockConsensus),
        23 => n!(false, OldTransactions, OldTransactions),
        24 => n!(false, FuelBlocks, FuelBlockIdsToHeights),
        25 => n!(false, OldFuelBlocks, FuelBlockIdsToHeights),
        t => panic!("task id {t}"),
    }
}

fn progress_of(tid: u64, dbs: &Dbs) -> Option<u64> {
    let (name, on) = task_name(tid);
    let p = if on {
        GenesisProgressInspect::<OnChain>::genesis_progress(&dbs.on, &name)
    } else {
        GenesisProgressInspect::<OffChain>::genesis_progress(&dbs.off, &name)
    };
    p.map(|x| x as u64)
}

fn set_progress(tid: u64, v: u64, dbs: &mut Dbs) {
    let (name, on) = task_name(tid);
    let v = usize::try_from(v).expect("usize");
    if on {
        let mut tx = dbs.on.write_transaction();
        GenesisProgressMutate::<OnChain>::update_genesis_progress(&mut tx, &name, v).expect("progress row");
        tx.commit().expect("commit progress row");
    } else {
        let mut tx = dbs.off.write_transaction();
        GenesisProgressMutate::<OffChain>::update_genesis_progress(&mut tx, &name, v).expect("progress row");
        tx.commit().expect("commit progress row");
    }
}

/// the migration names of all tasks of one database must differ (each owns a progress row)
fn assert_names_distinct() {
    let mut seen = std::collections::HashSet::new();
    for tid in 0..26 {
        assert!(seen.insert(task_name(tid)), "two tasks share a progress row");
    }
}

// ---------------------------------------------------------------------------------------

fn parse_plan(t: &T) -> Plan {
    let f = t.as_l();
    let cancel_at = f[0].as_l().first().map(|x| x.as_usize());
    let fl = f[1].as_l();
    let fail = if fl.is_empty() { None } else { Some((fl[0].as_u64(), fl[1].as_usize(), fl[2].as_u64())) };
    Plan { cancel_at, fail }
}

fn sess_t(res: i128, evs: &[(u64, usize, bool)], ids: &[u64], dbs: &Dbs) -> T {
    T::l(vec![
        T::i(res),
        T::l(evs.iter().map(|(t, i, c)| T::l(vec![T::n(*t), T::n(*i as u64), T::b(*c)])).collect()),
        T::l(ids.iter().map(|t| T::l(vec![T::n(*t), T::opt(progress_of(*t, dbs))])).collect()),
    ])
}

fn run_c40(input: &T) -> T {
    let input = input.clone();
    catch(move || {
        assert_names_distinct();
        let f = input.as_l();
        let mode = f[0].as_u64();
        let init: Vec<(u64, u64)> = f[2].as_l().iter().map(|p| (p.as_l()[0].as_u64(), p.as_l()[1].as_u64())).collect();
        let plans: Vec<Plan> = f[3].as_l().iter().map(parse_plan).collect();
        let fresh = |init: &[(u64, u64)]| {
            let mut dbs = Dbs::new();
            for (t, v) in init {
                set_progress(*t, *v, &mut dbs);
            }
            dbs
        };
        // mode-specific: task ids in order, one-session runner
        let rec_tasks: Vec<RecTask>;
        let reader: Option<SnapshotReader>;
        let dir: Option<PathBuf>;
        let ids: Vec<u64>;
        if mode == 0 {
            rec_tasks = f[1]
                .as_l()
                .iter()
                .map(|t| {
                    let tf = t.as_l();
                    let groups = tf[1]
                        .as_l()
                        .iter()
                        .map(|g| g.as_l().iter().map(|e| (e.as_l()[0].as_u64(), e.as_l()[1].as_u64())).collect())
                        .collect();
                    (tf[0].as_u64(), groups)
                })
                .collect();
            ids = rec_tasks.iter().map(|t| t.0).collect();
            reader = None;
            dir = None;
        } else {
            let s = f[1].as_l();
            let seed = s[0].as_u64();
            let g = s[1].as_usize();
            let contracts: Vec<(u64, u64)> =
                s[5].as_l().iter().map(|c| (c.as_l()[0].as_u64(), c.as_l()[1].as_u64())).collect();
            let bad = s[6].as_l().first().map(|x| x.as_u64());
            let state = gen_state(seed, s[2].as_u64(), s[3].as_u64(), s[4].as_u64(), &contracts, bad);
            let d = temp_dir();
            let meta = SnapshotWriter::json(&d)
                .write_state_config(state, &ChainConfig::local_testnet())
                .expect("write snapshot");
            reader = Some(SnapshotReader::open_w_config(meta, g).expect("open snapshot"));
            dir = Some(d);
            rec_tasks = vec![];
            ids = vec![0, 1, 2, 3, 4, 5, 6, 13, 14, 18];
        }
        let session = |dbs: &Dbs, plan: &Plan| match &reader {
            None => session_recording(&rec_tasks, dbs, plan),
            Some(r) => session_snapshot(r, dbs, plan),
        };
        // interrupted sessions, then the run to completion
        let dbs = fresh(&init);
        let mut sessions = vec![];
        for p in &plans {
            let (res, evs) = session(&dbs, p);
            sessions.push(sess_t(res, &evs, &ids, &dbs));
        }
        let (res, evs) = session(&dbs, &Plan::default());
        let fin = sess_t(res, &evs, &ids, &dbs);
        // the uninterrupted import
        let dbs_u = fresh(&init);
        let (res, evs) = session(&dbs_u, &Plan::default());
        let uni = sess_t(res, &evs, &ids, &dbs_u);
        let digs = T::l(vec![
            T::n(digest(&dbs.on)),
            T::n(digest(&dbs.off)),
            T::n(digest(&dbs_u.on)),
            T::n(digest(&dbs_u.off)),
        ]);
        let dump = if mode == 0 { dump_recording(&dbs) } else { T::l(vec![]) };
        if let Some(d) = dir {
            let _ = std::fs::remove_dir_all(d);
        }
        T::l(vec![T::l(sessions), fin, uni, digs, dump])
    })
}

// ---------------------------------------------------------------------------------------
// generator of C40

fn plan_t(cancel: Option<u64>, fail: Option<(u64, u64, u64)>) -> T {
    T::l(vec![
        T::opt(cancel),
        match fail {
            None => T::l(vec![]),
            Some((t, i, k)) => T::l(vec![T::n(t), T::n(i), T::n(k)]),
        },
    ])
}

/// every single interruption of an import with these task sizes: each failure kind at each
/// group, and the cancellation after each number of completed groups
fn single_interruptions(sizes: &[(u64, u64)]) -> Vec<Vec<T>> {
    let mut out = vec![];
    let total: u64 = sizes.iter().map(|s| s.1).sum();
    for (tid, n) in sizes {
        for idx in 0..*n {
            for kind in 0..4 {
                out.push(vec![plan_t(None, Some((*tid, idx, kind)))]);
            }
        }
    }
    for c in 0..=total {
        out.push(vec![plan_t(Some(c), None)]);
    }
    out
}

fn random_plans(rng: &mut Rng, sizes: &[(u64, u64)], max: u64) -> Vec<T> {
    let total: u64 = sizes.iter().map(|s| s.1).sum();
    let n = rng.below(max + 1);
    (0..n)
        .map(|_| {
            let cancel = if rng.chance(1, 2) { Some(rng.below(total + 2)) } else { None };
            let fail = if rng.chance(2, 3) && !sizes.is_empty() {
                let (tid, n) = *rng.pick(sizes);
                Some((tid, rng.below(n + 1), rng.below(4)))
            } else {
                None
            };
            plan_t(cancel, fail)
        })
        .collect()
}

fn random_init(rng: &mut Rng, sizes: &[(u64, u64)]) -> T {
    let mut rows = vec![];
    if rng.chance(1, 5) {
        for (tid, n) in sizes {
            if rng.chance(1, 2) {
                let v = match rng.below(6) {
                    0 => 0,
                    1 => n.saturating_sub(1),
                    2 => *n,
                    3 => rng.below(n + 2),
                    4 => u64::MAX,
                    _ => u64::MAX - 1,
                };
                rows.push(T::l(vec![T::n(*tid), T::n(v)]));
            }
        }
    }
    T::l(rows)
}

fn gen_recording_tasks(rng: &mut Rng) -> (T, Vec<(u64, u64)>) {
    let order: Vec<u64> = match rng.below(5) {
        0 => vec![100],
        1 => vec![101],
        2 => vec![101, 100],
        _ => vec![100, 101],
    };
    let mut tasks = vec![];
    let mut sizes = vec![];
    for tid in order {
        let n_groups = rng.below(5);
        let mut next_key = 0u64;
        let groups: Vec<T> = (0..n_groups)
            .map(|_| {
                let len = rng.below(4);
                T::l((0..len)
                    .map(|_| {
                        // mostly fresh keys; sometimes one that is (or will be) present
                        let k = if rng.chance(1, 12) { rng.below(8) } else { next_key };
                        next_key += 1;
                        T::l(vec![T::n(k), T::n(rng.below(50))])
                    })
                    .collect())
            })
            .collect();
        sizes.push((tid, n_groups));
        tasks.push(T::l(vec![T::n(tid), T::l(groups)]));
    }
    (T::l(tasks), sizes)
}

fn ceil_div(n: u64, g: u64) -> u64 {
    n.div_ceil(g)
}

fn gen_snapshot_spec(rng: &mut Rng, small: bool) -> (T, Vec<(u64, u64)>) {
    let g = *rng.pick(&[1u64, 2, 3, 7]);
    let m = if small { 4 } else { 8 };
    let n_coins = rng.below(m + 1);
    let n_msgs = rng.below(m);
    let n_blobs = rng.below(3);
    let n_contracts = rng.below(4);
    let contracts: Vec<(u64, u64)> = (0..n_contracts).map(|_| (rng.below(m), rng.below(4))).collect();
    let bad = if n_coins > 0 && rng.chance(1, 8) { Some(rng.below(n_coins)) } else { None };
    let seed = rng.below(1 << 32);
    let n_state: u64 = contracts.iter().map(|c| c.0).sum();
    let n_bal: u64 = contracts.iter().map(|c| c.1).sum();
    let sizes = vec![
        (0, ceil_div(n_coins, g)),
        (1, ceil_div(n_msgs, g)),
        (2, ceil_div(n_blobs, g)),
        (3, ceil_div(n_contracts, g)),
        (4, ceil_div(n_contracts, g)),
        (5, ceil_div(n_state, g)),
        (6, ceil_div(n_bal, g)),
        (13, ceil_div(n_msgs, g)),
        (14, ceil_div(n_coins, g)),
        (18, ceil_div(n_contracts, g)),
    ];
    let spec = T::l(vec![
        T::n(seed),
        T::n(g),
        T::n(n_coins),
        T::n(n_msgs),
        T::n(n_blobs),
        T::l(contracts.iter().map(|c| T::l(vec![T::n(c.0), T::n(c.1)])).collect()),
        T::opt(bad),
    ]);
    (spec, sizes)
}

fn gen_c40(rng: &mut Rng, n: u64, tier: &str) -> Vec<T> {
    let mut cases = vec![];
    let case = |mode: u64, spec: &T, init: T, plans: Vec<T>| T::l(vec![T::n(mode), spec.clone(), init, T::l(plans)]);
    // exhaustive single interruptions of a few imports of each mode
    let sets = if tier == "thorough" { 12 } else { 3 };
    for _ in 0..sets {
        let (spec, sizes) = gen_recording_tasks(rng);
        for plans in single_interruptions(&sizes) {
            cases.push(case(0, &spec, T::l(vec![]), plans));
        }
        let (spec, sizes) = gen_snapshot_spec(rng, true);
        for plans in single_interruptions(&sizes) {
            cases.push(case(1, &spec, T::l(vec![]), plans));
        }
    }
    // random schedules
    for i in 0..n {
        if i % 2 == 0 {
            let (spec, sizes) = gen_recording_tasks(rng);
            let init = random_init(rng, &sizes);
            let plans = random_plans(rng, &sizes, 5);
            cases.push(case(0, &spec, init, plans));
        } else {
            let (spec, sizes) = gen_snapshot_spec(rng, false);
            let init = random_init(rng, &sizes);
            let plans = random_plans(rng, &sizes, 6);
            cases.push(case(1, &spec, init, plans));
        }
    }
    cases
}

fn gen(prop: &str, rng: &mut Rng, n: u64, tier: &str) -> Vec<T> {
    match prop {
        "C40" => gen_c40(rng, n, tier),
        "C39" => roundtrip::gen_c39(rng, n, tier),
        p => panic!("unknown property {p}"),
    }
}

fn run(prop: &str, input: &T) -> T {
    match prop {
        "C40" => run_c40(input),
        "C39" => roundtrip::run_c39(input),
        p => panic!("unknown property {p}"),
    }
}

fn main() {
    vcommon::main_protocol(gen, run);
}
