use fuel_core::service::genesis::verif_hooks::{ImportTask, ImportTable, Handler, migration_name, ProgressReporter, CancellationToken, SnapshotImporter};
fn main() {
    let _ = std::any::type_name::<SnapshotImporter>();
    println!("{}", migration_name::<fuel_core_storage::tables::Coins, fuel_core_storage::tables::Coins>());
}
