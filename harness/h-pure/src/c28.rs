//! C28: fuel_core_sync::state::State driven by observe/commit/failed sequences.
use fuel_core_sync::state::{State, Status};
use vcommon::{catch, Rng, T};

const HEIGHTS: [u32; 8] = [0, 1, 2, 3, 4, 5, u32::MAX - 1, u32::MAX];

fn status_t(s: &State) -> T {
    // `status` is private; Debug prints `State { status: ... }`, but process_range
    // and a fresh comparison against State::new are the public observations. We use
    // the Debug text, parsed into the variant and numbers only.
    let d = format!("{s:?}");
    let nums: Vec<u128> = d
        .split(|c: char| !c.is_ascii_digit())
        .filter(|x| !x.is_empty())
        .map(|x| x.parse().unwrap())
        .collect();
    if d.contains("Uninitialized") {
        T::l(vec![T::i(0)])
    } else if d.contains("Processing") {
        T::l(vec![T::i(1), T::n(nums[0]), T::n(nums[1])])
    } else if d.contains("Committed") {
        T::l(vec![T::i(2), T::n(nums[0])])
    } else {
        panic!("unknown status {d}")
    }
}

#[allow(dead_code)]
fn _status_variants(s: Status) {
    // compile-time reminder: a new variant must be added to status_t and the model
    match s {
        Status::Uninitialized | Status::Processing(_) | Status::Committed(_) => {}
    }
}

fn range_t(s: &State) -> T {
    match s.process_range() {
        None => T::l(vec![]),
        Some(r) => T::l(vec![T::n(*r.start()), T::n(*r.end())]),
    }
}

pub fn run(input: &T) -> T {
    let input = input.clone();
    catch(move || {
        let f = input.as_l();
        let c = f[0].as_opt_u32();
        let o = f[1].as_opt_u32();
        let mut st = State::new(c, o);
        let mut out = vec![status_t(&st)];
        for ev in f[2].as_l() {
            let e = ev.as_l();
            let mut flag = T::i(-1);
            match e[0].as_i() {
                0 => flag = T::b(st.observe(e[1].as_u32())),
                1 => st.commit(e[1].as_u32()),
                2 => st.failed_to_process(e[1].as_u32()..=e[2].as_u32()),
                k => panic!("bad event {k}"),
            }
            out.push(T::l(vec![status_t(&st), range_t(&st), flag]));
        }
        T::l(out)
    })
}

fn height(rng: &mut Rng) -> u32 {
    if rng.chance(1, 12) {
        rng.next() as u32
    } else {
        *rng.pick(&HEIGHTS)
    }
}

fn opt_height(rng: &mut Rng) -> Option<u32> {
    if rng.chance(1, 4) { None } else { Some(height(rng)) }
}

fn event(rng: &mut Rng) -> T {
    match rng.below(3) {
        0 => T::l(vec![T::i(0), T::n(height(rng))]),
        1 => T::l(vec![T::i(1), T::n(height(rng))]),
        _ => {
            let a = height(rng);
            let b = height(rng);
            // mostly non-empty ranges
            let (a, b) = if a > b && rng.chance(3, 4) { (b, a) } else { (a, b) };
            T::l(vec![T::i(2), T::n(a), T::n(b)])
        }
    }
}

pub fn gen(rng: &mut Rng, n: u64, tier: &str) -> Vec<T> {
    let mut cases = vec![];
    // exhaustive: every initial state x every single event over HEIGHTS (x every second event in thorough)
    let mut opts: Vec<Option<u32>> = vec![None];
    opts.extend(HEIGHTS.iter().map(|h| Some(*h)));
    let mut events = vec![];
    for h in HEIGHTS {
        events.push(T::l(vec![T::i(0), T::n(h)]));
        events.push(T::l(vec![T::i(1), T::n(h)]));
        for h2 in HEIGHTS {
            events.push(T::l(vec![T::i(2), T::n(h), T::n(h2)]));
        }
    }
    for c in &opts {
        for o in &opts {
            for e in &events {
                if tier == "thorough" {
                    for e2 in &events {
                        cases.push(T::l(vec![T::opt(*c), T::opt(*o), T::l(vec![e.clone(), e2.clone()])]));
                    }
                } else {
                    cases.push(T::l(vec![T::opt(*c), T::opt(*o), T::l(vec![e.clone()])]));
                }
            }
        }
    }
    // random longer histories
    for _ in 0..n {
        let len = rng.range(2, if tier == "thorough" { 14 } else { 9 });
        let evs: Vec<T> = (0..len).map(|_| event(rng)).collect();
        cases.push(T::l(vec![T::opt(opt_height(rng)), T::opt(opt_height(rng)), T::l(evs)]));
    }
    cases
}
