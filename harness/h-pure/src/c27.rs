//! C27: Cache::get_chunks (through the `verif` hook of fuel-core-sync).
use fuel_core_sync::import::verif_hooks::get_chunks_summary;
use fuel_core_types::{
    blockchain::{block::Block, consensus::Sealed, header::BlockHeader, SealedBlock, SealedBlockHeader},
    tai64::Tai64,
};
use std::num::NonZeroU32;
use vcommon::{catch, Rng, T};

fn header(h: u32) -> SealedBlockHeader {
    Sealed { entity: BlockHeader::new_block(h.into(), Tai64::from_unix(0)), consensus: Default::default() }
}

fn block(h: u32) -> SealedBlock {
    let mut b = Block::default();
    b.header_mut().set_block_height(h.into());
    Sealed { entity: b, consensus: Default::default() }
}

/// input: (s e size ((h kind)...)), kind 1 = header, 2 = block, heights distinct
pub fn run(input: &T) -> T {
    let input = input.clone();
    catch(move || {
        let f = input.as_l();
        let (s, e, size) = (f[0].as_u32(), f[1].as_u32(), f[2].as_u32());
        let mut headers = vec![];
        let mut blocks = vec![];
        for it in f[3].as_l() {
            let it = it.as_l();
            match it[1].as_i() {
                1 => headers.push(header(it[0].as_u32())),
                2 => blocks.push(block(it[0].as_u32())),
                k => panic!("bad kind {k}"),
            }
        }
        let size = NonZeroU32::new(size).expect("size must be non-zero");
        let chunks = get_chunks_summary(headers, blocks, s..=e, size);
        T::l(chunks
            .into_iter()
            .map(|(k, a, b, hs)| T::l(vec![T::i(k), T::n(a), T::n(b), T::list_n(&hs)]))
            .collect())
    })
}

fn case(s: u32, e: u32, size: u32, items: &[(u32, u8)]) -> T {
    T::l(vec![
        T::n(s),
        T::n(e),
        T::n(size),
        T::l(items.iter().map(|(h, k)| T::l(vec![T::n(*h), T::i(*k)])).collect()),
    ])
}

pub fn gen(rng: &mut Rng, n: u64, tier: &str) -> Vec<T> {
    let mut cases = vec![];
    // bounded-exhaustive: every range inside 0..=top, every size 1..=top+1, every cache
    // content (absent/header/block) over the heights of the range
    let top: u32 = if tier == "thorough" { 8 } else { 6 };
    for s in 0..=top {
        for e in s..=top {
            let len = e - s + 1;
            for size in 1..=(top + 1) {
                for code in 0..3u32.pow(len) {
                    let mut items = vec![];
                    let mut c = code;
                    for h in s..=e {
                        if c % 3 != 0 {
                            items.push((h, (c % 3) as u8));
                        }
                        c /= 3;
                    }
                    cases.push(case(s, e, size, &items));
                }
            }
        }
    }
    // random: bases anywhere in u32 incl. next to u32::MAX, items also outside the range
    for i in 0..n {
        let base: u32 = match i % 4 {
            0 => u32::MAX - rng.below(24) as u32,
            1 => rng.below(10) as u32,
            _ => rng.next() as u32,
        };
        let s = base.saturating_sub(rng.below(24) as u32);
        let e_max = if rng.chance(1, 10) { u32::MAX } else { u32::MAX - 1 };
        let e = (s as u64 + rng.below(24)).min(e_max as u64) as u32;
        let size = 1 + rng.below(10) as u32;
        let mut items = vec![];
        let lo = s.saturating_sub(3);
        let hi = e.saturating_add(3);
        let density = 1 + rng.below(4);
        for h in lo..=hi {
            if rng.chance(density, 5) {
                items.push((h, 1 + rng.below(2) as u8));
            }
        }
        cases.push(case(s, e, size, &items));
    }
    cases
}
