//! C26: the real fuel_core_sync::import::Import driven round by round with scripted
//! peer / consensus / executor ports on a current-thread tokio runtime.
//! The mock executor yields many times before answering, so the fetch side always runs
//! until it blocks (two batches ahead): the schedule the model describes.
use fuel_core_services::{stream::{BoxStream, IntoBoxStream}, SharedMutex, State as ServiceState};
use fuel_core_sync::{
    import::{Config, Import},
    ports::{BlockImporterPort, ConsensusPort, PeerReportReason, PeerToPeerPort},
    state::State,
};
use fuel_core_types::{
    blockchain::{
        consensus::Sealed,
        header::PartialBlockHeader,
        primitives::DaBlockHeight,
        SealedBlock, SealedBlockHeader,
    },
    fuel_tx::{field::ScriptData, Bytes32, Transaction, TransactionBuilder},
    fuel_types::BlockHeight,
    services::p2p::{PeerId, SourcePeer, Transactions},
    tai64::Tai64,
};
use std::{
    ops::Range,
    sync::{Arc, Mutex},
};
use vcommon::{catch, Rng, T};

const VARIANTS: u64 = 4;

fn txs_of(w: u64) -> Vec<Transaction> {
    vec![TransactionBuilder::script(vec![0x24, 0, 0, 0], vec![w as u8])
        .script_gas_limit(1000)
        .add_fee_input()
        .finalize_as_transaction()]
}

fn variant_of_txs(txs: &[Transaction]) -> u64 {
    match txs.first() {
        Some(Transaction::Script(s)) => s.script_data().first().copied().unwrap_or(255) as u64,
        _ => 255,
    }
}

fn header_of(h: u32, v: u64, f: u64) -> SealedBlockHeader {
    let mut p = PartialBlockHeader::default();
    p.consensus.height = h.into();
    p.consensus.time = Tai64::UNIX_EPOCH;
    p.application.da_height = DaBlockHeight(f);
    let header = p.generate(&txs_of(v), &[], Bytes32::zeroed()).expect("header");
    Sealed { entity: header, consensus: Default::default() }
}

fn variant_of_header(h: &SealedBlockHeader) -> u64 {
    (0..VARIANTS)
        .find(|v| fuel_core_types::blockchain::header::generate_txns_root(&txs_of(*v)) == h.entity.transactions_root())
        .unwrap_or(255)
}

#[derive(Default)]
struct Shared {
    hb: Vec<(u32, (u8, u8, Vec<(u32, u64, u64)>))>,
    tb: Vec<(u32, (u8, u8, Vec<u64>))>,
    fetch: Vec<T>,
    exec: Vec<T>,
}

#[derive(Clone)]
struct Mock(Arc<Mutex<Shared>>);

fn peer(p: u8) -> PeerId {
    PeerId::from(vec![p])
}
fn peer_n(p: &PeerId) -> u8 {
    p.as_ref()[0]
}

#[async_trait::async_trait]
impl PeerToPeerPort for Mock {
    fn height_stream(&self) -> BoxStream<BlockHeight> {
        futures::stream::pending().into_boxed()
    }

    async fn get_sealed_block_headers(&self, r: Range<u32>) -> anyhow::Result<SourcePeer<Option<Vec<SealedBlockHeader>>>> {
        let mut s = self.0.lock().unwrap();
        s.fetch.push(T::l(vec![T::i(0), T::n(r.start), T::n(r.end)]));
        match s.hb.iter().find(|(k, _)| *k == r.start).map(|(_, v)| v.clone()) {
            Some((p, 0, items)) => Ok(SourcePeer { peer_id: peer(p), data: Some(items.iter().map(|(h, v, f)| header_of(*h, *v, *f)).collect()) }),
            Some((p, 2, _)) => Ok(SourcePeer { peer_id: peer(p), data: None }),
            _ => Err(anyhow::anyhow!("scripted header failure")),
        }
    }

    async fn get_transactions(&self, r: Range<u32>) -> anyhow::Result<SourcePeer<Option<Vec<Transactions>>>> {
        let mut s = self.0.lock().unwrap();
        s.fetch.push(T::l(vec![T::i(3), T::n(r.start), T::n(r.end), T::l(vec![])]));
        match s.tb.iter().find(|(k, _)| *k == r.start).map(|(_, v)| v.clone()) {
            Some((p, 0, items)) => Ok(SourcePeer { peer_id: peer(p), data: Some(items.iter().map(|w| Transactions(txs_of(*w))).collect()) }),
            Some((p, 2, _)) => Ok(SourcePeer { peer_id: peer(p), data: None }),
            _ => Err(anyhow::anyhow!("scripted transactions failure")),
        }
    }

    async fn get_transactions_from_peer(&self, sp: SourcePeer<Range<u32>>) -> anyhow::Result<Option<Vec<Transactions>>> {
        let r = sp.data.clone();
        let mut s = self.0.lock().unwrap();
        s.fetch.push(T::l(vec![T::i(3), T::n(r.start), T::n(r.end), T::l(vec![T::n(peer_n(&sp.peer_id))])]));
        match s.tb.iter().find(|(k, _)| *k == r.start).map(|(_, v)| v.clone()) {
            Some((_, 0, items)) => Ok(Some(items.iter().map(|w| Transactions(txs_of(*w))).collect())),
            Some((_, 2, _)) => Ok(None),
            _ => Err(anyhow::anyhow!("scripted transactions failure")),
        }
    }

    fn report_peer(&self, p: PeerId, reason: PeerReportReason) -> anyhow::Result<()> {
        let mut s = self.0.lock().unwrap();
        match reason {
            PeerReportReason::SuccessfulBlockImport => s.exec.push(T::l(vec![T::i(1), T::n(peer_n(&p))])),
            PeerReportReason::MissingBlockHeaders => s.fetch.push(T::l(vec![T::i(1), T::n(peer_n(&p)), T::i(1)])),
            PeerReportReason::BadBlockHeader => s.fetch.push(T::l(vec![T::i(1), T::n(peer_n(&p)), T::i(2)])),
            PeerReportReason::MissingTransactions => s.fetch.push(T::l(vec![T::i(1), T::n(peer_n(&p)), T::i(3)])),
            PeerReportReason::InvalidTransactions => s.fetch.push(T::l(vec![T::i(1), T::n(peer_n(&p)), T::i(4)])),
        }
        Ok(())
    }
}

impl ConsensusPort for Mock {
    fn check_sealed_header(&self, header: &SealedBlockHeader) -> anyhow::Result<bool> {
        let f = header.entity.da_height().0;
        if f & 2 != 0 {
            Err(anyhow::anyhow!("scripted consensus error"))
        } else {
            Ok(f & 1 == 0)
        }
    }
    async fn await_da_height(&self, da: &DaBlockHeight) -> anyhow::Result<()> {
        self.0.lock().unwrap().fetch.push(T::l(vec![T::i(2), T::n(da.0)]));
        Ok(())
    }
}

impl BlockImporterPort for Mock {
    fn committed_height_stream(&self) -> BoxStream<BlockHeight> {
        futures::stream::pending().into_boxed()
    }
    async fn execute_and_commit(&self, block: SealedBlock) -> anyhow::Result<()> {
        // let the fetch side run until it blocks
        for _ in 0..200 {
            tokio::task::yield_now().await;
        }
        let header = Sealed { entity: block.entity.header().clone(), consensus: block.consensus.clone() };
        let h = **block.entity.header().height();
        let f = block.entity.header().da_height().0;
        let v = variant_of_header(&header);
        let w = variant_of_txs(block.entity.transactions());
        let ok = f & 4 == 0;
        self.0.lock().unwrap().exec.push(T::l(vec![T::i(0), T::n(h), T::n(v), T::n(f), T::n(w), T::b(ok)]));
        if ok { Ok(()) } else { Err(anyhow::anyhow!("scripted execution failure")) }
    }
}

fn status_t(s: &State) -> T {
    let d = format!("{s:?}");
    let nums: Vec<u128> = d.split(|c: char| !c.is_ascii_digit()).filter(|x| !x.is_empty()).map(|x| x.parse().unwrap()).collect();
    if d.contains("Uninitialized") {
        T::l(vec![T::i(0)])
    } else if d.contains("Processing") {
        T::l(vec![T::i(1), T::n(nums[0]), T::n(nums[1])])
    } else {
        T::l(vec![T::i(2), T::n(nums[0])])
    }
}

/// input: (committed observed size ((pre hb tb) ...))
pub fn run(input: &T) -> T {
    let input = input.clone();
    catch(move || {
        let f = input.as_l();
        let state = SharedMutex::new(State::new(f[0].as_opt_u32(), f[1].as_opt_u32()));
        let size = f[2].as_usize();
        let shared = Arc::new(Mutex::new(Shared::default()));
        let mock = Mock(shared.clone());
        let rt = tokio::runtime::Builder::new_current_thread().enable_all().build().unwrap();
        let (_tx, rx) = tokio::sync::watch::channel(ServiceState::Started);
        let watcher: fuel_core_services::StateWatcher = rx.into();
        let mut import = Import::new(
            state.clone(),
            Arc::new(tokio::sync::Notify::new()),
            Config { block_stream_buffer_size: 1, header_batch_size: size },
            Arc::new(mock.clone()),
            Arc::new(mock.clone()),
            Arc::new(mock.clone()),
        );
        let mut out = vec![];
        for round in f[3].as_l() {
            let r = round.as_l();
            for ev in r[0].as_l() {
                let e = ev.as_l();
                match e[0].as_i() {
                    0 => { state.apply(|s| s.observe(e[1].as_u32())); }
                    1 => state.apply(|s| s.commit(e[1].as_u32())),
                    2 => state.apply(|s| s.failed_to_process(e[1].as_u32()..=e[2].as_u32())),
                    k => panic!("bad event {k}"),
                }
            }
            {
                let mut s = shared.lock().unwrap();
                s.hb = r[1].as_l().iter().map(|x| { let x = x.as_l(); (x[0].as_u32(), (x[1].as_u8(), x[2].as_u8(), x[3].as_l().iter().map(|d| { let d = d.as_l(); (d[0].as_u32(), d[1].as_u64(), d[2].as_u64()) }).collect())) }).collect();
                s.tb = r[2].as_l().iter().map(|x| { let x = x.as_l(); (x[0].as_u32(), (x[1].as_u8(), x[2].as_u8(), x[3].as_l().iter().map(|w| w.as_u64()).collect())) }).collect();
                s.fetch.clear();
                s.exec.clear();
            }
            let range = state.apply(|s| s.process_range());
            let ok = rt.block_on(async { import.verif_import_round(&watcher).await });
            let (fetch, exec) = { let s = shared.lock().unwrap(); (s.fetch.clone(), s.exec.clone()) };
            let cache: Vec<T> = import
                .verif_cache_dump()
                .iter()
                .map(|(h, is_block, hd)| T::l(vec![T::n(*h), T::i(if *is_block { 2 } else { 1 }),
                    T::l(vec![T::n(**hd.entity.height()), T::n(variant_of_header(hd)), T::n(hd.entity.da_height().0)])]))
                .collect();
            out.push(T::l(vec![
                match range { None => T::l(vec![]), Some(r) => T::l(vec![T::n(*r.start()), T::n(*r.end())]) },
                T::b(ok), T::l(fetch), T::l(exec), T::l(cache), state.apply(|s| status_t(s)),
            ]));
        }
        T::l(out)
    })
}

fn hdr_t(h: u32, v: u64, f: u64) -> T {
    T::l(vec![T::n(h), T::n(v), T::n(f)])
}

pub fn gen(rng: &mut Rng, n: u64, tier: &str) -> Vec<T> {
    let mut cases = vec![];
    let max_rounds = if tier == "thorough" { 5 } else { 3 };
    for _ in 0..n {
        let size = 1 + rng.below(4) as u32;
        let committed: Option<u32> = if rng.chance(1, 4) { None } else { Some(rng.below(4) as u32) };
        let top = committed.unwrap_or(0) + 2 + rng.below(9) as u32;
        let observed = if rng.chance(1, 6) { None } else { Some(top) };
        // how faulty this history is: 0 = clean peers, 1 = occasional faults, 2 = many faults
        let fault = rng.below(3);
        let bad = |rng: &mut Rng, k: u64| fault > 0 && rng.chance(k * fault, 40);
        let nrounds = 1 + rng.below(max_rounds);
        let mut rounds = vec![];
        for ri in 0..nrounds {
            let mut pre = vec![];
            if ri > 0 && rng.chance(1, 2) {
                pre.push(T::l(vec![T::i(0), T::n(top + rng.below(4) as u32)]));
            }
            if rng.chance(1, 10) {
                pre.push(T::l(vec![T::i(1), T::n(rng.below(top as u64 + 1) as u32)]));
            }
            let lo = 0u32;
            let hi = top + 6;
            let mut hb = vec![];
            let mut tb = vec![];
            for start in lo..=hi {
                // headers answer for a request starting at `start`
                let p = 1 + rng.below(3);
                let mode = if bad(rng, 2) { 1 + rng.below(2) } else { 0 };
                let mut len = size as u64 + rng.below(2); // may deliver an extra header
                if bad(rng, 3) { len = rng.below(size as u64 + 1); }
                let mut items = vec![];
                let mut vs = vec![];
                for i in 0..len {
                    let mut h = start + i as u32;
                    if bad(rng, 1) { h = h.wrapping_add(1 + rng.below(2) as u32); }
                    let v = rng.below(VARIANTS);
                    let mut fl = 0u64;
                    if bad(rng, 2) { fl |= 1; }
                    if bad(rng, 1) { fl |= 2; }
                    if bad(rng, 2) { fl |= 4; }
                    vs.push(v);
                    items.push(hdr_t(h, v, fl));
                }
                hb.push(T::l(vec![T::n(start), T::n(p), T::n(mode), T::l(items)]));
                // transactions answer: mostly the matching variants
                let tp = 1 + rng.below(3);
                let tmode = if bad(rng, 2) { 1 + rng.below(2) } else { 0 };
                let mut ws: Vec<u64> = vs.clone();
                while (ws.len() as u64) < size as u64 + 1 { ws.push(rng.below(VARIANTS)); }
                if bad(rng, 3) { let i = rng.below(ws.len() as u64) as usize; ws[i] = (ws[i] + 1) % VARIANTS; }
                if bad(rng, 2) { let k = rng.below(ws.len() as u64) as usize; ws.truncate(k); }
                tb.push(T::l(vec![T::n(start), T::n(tp), T::n(tmode), T::list_n(&ws)]));
            }
            rounds.push(T::l(vec![T::l(pre), T::l(hb), T::l(tb)]));
        }
        cases.push(T::l(vec![T::opt(committed), T::opt(observed), T::n(size), T::l(rounds)]));
    }
    cases
}
