//! Correspondence harness for the "pure" clusters (no RocksDB): drives the real
//! fuel-core crates on generated inputs and prints canonical observations.
mod c26;
mod c27;
mod c28;

use vcommon::{Rng, T};

fn gen(prop: &str, rng: &mut Rng, n: u64, tier: &str) -> Vec<T> {
    match prop {
        "C26" => c26::gen(rng, n, tier),
        "C27" => c27::gen(rng, n, tier),
        "C28" => c28::gen(rng, n, tier),
        p => panic!("unknown property {p}"),
    }
}

fn run(prop: &str, input: &T) -> T {
    match prop {
        "C26" => c26::run(input),
        "C27" => c27::run(input),
        "C28" => c28::run(input),
        p => panic!("unknown property {p}"),
    }
}

fn main() {
    vcommon::main_protocol(gen, run);
}
