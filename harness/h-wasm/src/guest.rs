//! Host-protocol cases: a scripted guest (a straight-line WASM module assembled with
//! wasm-encoder) issues raw host calls against the REAL host functions of
//! `fuel_core_upgradable_executor::instance::Instance`, over mock storage / relayer /
//! transaction-source views described by the input.  The guest returns its trace (return
//! values and the memory the host wrote) inside a `ReturnType::Validation(Ok(..))` value,
//! whose `Changes` carry arbitrary bytes.
//!
//! input  `(4 env calls)`, env = `(has_src default (batches) (storage rows) (valid cols)
//!         rel_enabled (relayer rows) rel_default input_bytes)`
//! observed: one `(ret (written bytes))` per call, `(-1)` for the call that trapped (last).
use fuel_core_executor::ports::{MaybeCheckedTransaction, RelayerPort, TransactionsSource};
use fuel_core_storage::{
    column::Column,
    kv_store::{KeyValueInspect, Value, WriteOperation},
    transactional::Changes,
    Error as StorageError, Result as StorageResult,
};
use fuel_core_types::{
    blockchain::primitives::DaBlockHeight,
    fuel_tx::Transaction,
    services::{executor::ValidationResult, relayer::Event, Uncommitted},
};
use fuel_core_upgradable_executor::instance::Instance;
use fuel_core_wasm_executor::utils::{InputDeserializationType, ReturnType, WasmDeserializationBlockTypes};
use std::{
    collections::BTreeMap,
    sync::Mutex,
};
use vcommon::T;
use wasm_encoder as we;

// ------------------------------------------------------------------ mocks

pub struct ScriptedSource {
    pub batches: Mutex<Vec<Vec<Transaction>>>,
}
impl TransactionsSource for ScriptedSource {
    fn next(&self, _gas: u64, _count: u16, _size: u32) -> Vec<MaybeCheckedTransaction> {
        let mut g = self.batches.lock().unwrap();
        if g.is_empty() {
            return vec![];
        }
        g.remove(0).into_iter().map(MaybeCheckedTransaction::Transaction).collect()
    }
}

#[derive(Clone)]
pub enum Row {
    Err,
    None,
    Some(Vec<u8>),
}
pub struct MockStorage {
    pub rows: Vec<(u32, Vec<u8>, Row)>,
}
impl KeyValueInspect for MockStorage {
    type Column = Column;
    fn get(&self, key: &[u8], column: Column) -> StorageResult<Option<Value>> {
        for (c, k, r) in self.rows.iter() {
            if *c == column.as_u32() && k.as_slice() == key {
                return match r {
                    Row::Err => Err(StorageError::Other(anyhow::anyhow!("injected storage failure"))),
                    Row::None => Ok(None),
                    Row::Some(v) => Ok(Some(Value::from(v.clone()))),
                };
            }
        }
        Ok(None)
    }
}

pub struct MockRelayer {
    pub enabled: bool,
    pub rows: Vec<(u64, Option<Vec<Event>>)>,
}
impl RelayerPort for MockRelayer {
    fn enabled(&self) -> bool {
        self.enabled
    }
    fn get_events(&self, h: &DaBlockHeight) -> anyhow::Result<Vec<Event>> {
        for (hh, r) in self.rows.iter() {
            if *hh == h.0 {
                return match r {
                    None => Err(anyhow::anyhow!("injected relayer failure")),
                    Some(ev) => Ok(ev.clone()),
                };
            }
        }
        Ok(vec![])
    }
}

// ------------------------------------------------------------------ the scripted guest

#[derive(Clone, Debug)]
pub enum Call {
    Input(u32),
    PeekV0(u64),
    Peek(u64, u32, u32),
    Consume(u32),
    Size(u32, Vec<u8>),
    Get(u32, Vec<u8>, u32),
    RelEnabled,
    RelSize(u64),
    RelGet(u64),
}

pub fn call_of_t(t: &T) -> Call {
    let f = t.as_l();
    match f[0].as_u64() {
        0 => Call::Input(f[1].as_u32()),
        1 => Call::PeekV0(f[1].as_u64()),
        2 => Call::Peek(f[1].as_u64(), f[2].as_u32(), f[3].as_u32()),
        3 => Call::Consume(f[1].as_u32()),
        4 => Call::Size(f[1].as_u32(), f[2].as_bytes()),
        5 => Call::Get(f[1].as_u32(), f[2].as_bytes(), f[3].as_u32()),
        6 => Call::RelEnabled,
        7 => Call::RelSize(f[1].as_u64()),
        8 => Call::RelGet(f[1].as_u64()),
        x => panic!("unknown call tag {x}"),
    }
}

pub fn call_to_t(c: &Call) -> T {
    match c {
        Call::Input(n) => T::l(vec![T::n(0u8), T::n(*n)]),
        Call::PeekV0(g) => T::l(vec![T::n(1u8), T::n(*g)]),
        Call::Peek(g, c, s) => T::l(vec![T::n(2u8), T::n(*g), T::n(*c), T::n(*s)]),
        Call::Consume(n) => T::l(vec![T::n(3u8), T::n(*n)]),
        Call::Size(c, k) => T::l(vec![T::n(4u8), T::n(*c), T::bytes(k)]),
        Call::Get(c, k, n) => T::l(vec![T::n(5u8), T::n(*c), T::bytes(k), T::n(*n)]),
        Call::RelEnabled => T::l(vec![T::n(6u8)]),
        Call::RelSize(h) => T::l(vec![T::n(7u8), T::n(*h)]),
        Call::RelGet(h) => T::l(vec![T::n(8u8), T::n(*h)]),
    }
}

const KEYS_AT: u32 = 1024;
const OUT_AT: u32 = 65536;
const MARK: u8 = 0xA5;

/// postcard bytes of `ReturnType::Validation(Ok(..))` up to the start of the byte string that
/// carries the trace (computed from a real serialisation, not hand-written)
fn return_header(trace_len: usize) -> Vec<u8> {
    let mut inner = BTreeMap::new();
    inner.insert(vec![0x4bu8].into(), WriteOperation::Insert(Value::from(vec![MARK; trace_len])));
    let mut changes = Changes::default();
    changes.insert(0u32, inner);
    let rt = ReturnType::Validation(Ok(Uncommitted::new(
        ValidationResult { tx_status: vec![], events: vec![] },
        changes,
    )));
    let enc = postcard::to_allocvec(&rt).expect("encode return template");
    assert!(enc.len() >= trace_len && enc[enc.len() - trace_len..].iter().all(|b| *b == MARK));
    enc[..enc.len() - trace_len].to_vec()
}

struct Slot {
    off: u32, // offset of the 8-byte return value inside the trace
    cap: u32, // capacity of the write area following it
    has_ret: bool,
}

fn assemble(calls: &[Call], rel_cap: u32, fill: u8) -> (Vec<u8>, Vec<Slot>, usize) {
    let mut slots = vec![];
    let mut off = 0u32;
    for c in calls {
        let (cap, has_ret) = match c {
            Call::Input(n) => (*n, false),
            Call::PeekV0(_) | Call::Peek(..) => (0, true),
            Call::Consume(n) => (*n, false),
            Call::Size(..) => (0, true),
            Call::Get(_, _, n) => (*n, true),
            Call::RelEnabled => (0, true),
            Call::RelSize(_) => (0, true),
            Call::RelGet(_) => (rel_cap, false),
        };
        slots.push(Slot { off, cap, has_ret });
        off += 8 + cap;
    }
    let trace_len = off as usize;
    let header = return_header(trace_len);
    let trace_at = OUT_AT + header.len() as u32;

    let mut types = we::TypeSection::new();
    use we::ValType::{I32, I64};
    let sigs: Vec<(Vec<we::ValType>, Vec<we::ValType>)> = vec![
        (vec![I32, I32], vec![]),                     // 0 input / consume_next_txs
        (vec![I32, I32, I32], vec![I64]),             // 1 storage_size_of_value
        (vec![I32, I32, I32, I32, I32], vec![I32]),   // 2 storage_get
        (vec![], vec![I32]),                          // 3 relayer_enabled
        (vec![I64], vec![I64]),                       // 4 relayer_size_of_events
        (vec![I64, I32], vec![]),                     // 5 relayer_get_events
        (vec![I64], vec![I32]),                       // 6 peek_next_txs_size (v0)
        (vec![I64, I32, I32], vec![I32]),             // 7 peek_next_txs_size (v1)
        (vec![I32], vec![I64]),                       // 8 execute
    ];
    for (p, r) in sigs.iter() {
        types.ty().function(p.clone(), r.clone());
    }
    let mut imports = we::ImportSection::new();
    let imp: [(&str, &str, u32); 9] = [
        ("host_v0", "input", 0),
        ("host_v0", "consume_next_txs", 0),
        ("host_v0", "storage_size_of_value", 1),
        ("host_v0", "storage_get", 2),
        ("host_v0", "relayer_enabled", 3),
        ("host_v0", "relayer_size_of_events", 4),
        ("host_v0", "relayer_get_events", 5),
        ("host_v0", "peek_next_txs_size", 6),
        ("host_v1", "peek_next_txs_size", 7),
    ];
    for (m, n, t) in imp.iter() {
        imports.import(m, n, we::EntityType::Function(*t));
    }
    const F_INPUT: u32 = 0;
    const F_CONSUME: u32 = 1;
    const F_SIZE: u32 = 2;
    const F_GET: u32 = 3;
    const F_REL_EN: u32 = 4;
    const F_REL_SIZE: u32 = 5;
    const F_REL_GET: u32 = 6;
    const F_PEEK0: u32 = 7;
    const F_PEEK1: u32 = 8;
    const F_EXECUTE: u32 = 9;

    let mut functions = we::FunctionSection::new();
    functions.function(8);
    let mut memories = we::MemorySection::new();
    memories.memory(we::MemoryType { minimum: 4, maximum: None, memory64: false, shared: false, page_size_log2: None });
    let mut exports = we::ExportSection::new();
    exports.export("memory", we::ExportKind::Memory, 0);
    exports.export("execute", we::ExportKind::Func, F_EXECUTE);

    use we::Instruction as I;
    let m8 = we::MemArg { offset: 0, align: 0, memory_index: 0 };
    let mut f = we::Function::new(vec![]);
    let mut keys: Vec<u8> = vec![];
    for (c, s) in calls.iter().zip(slots.iter()) {
        let ret_at = (trace_at + s.off) as i32;
        let buf_at = (trace_at + s.off + 8) as i32;
        if s.has_ret {
            f.instruction(&I::I32Const(ret_at));
        }
        match c {
            Call::Input(n) => {
                f.instruction(&I::I32Const(buf_at));
                f.instruction(&I::I32Const(*n as i32));
                f.instruction(&I::Call(F_INPUT));
            }
            Call::PeekV0(g) => {
                f.instruction(&I::I64Const(*g as i64));
                f.instruction(&I::Call(F_PEEK0));
                f.instruction(&I::I64ExtendI32U);
            }
            Call::Peek(g, cnt, sz) => {
                f.instruction(&I::I64Const(*g as i64));
                f.instruction(&I::I32Const(*cnt as i32));
                f.instruction(&I::I32Const(*sz as i32));
                f.instruction(&I::Call(F_PEEK1));
                f.instruction(&I::I64ExtendI32U);
            }
            Call::Consume(n) => {
                f.instruction(&I::I32Const(buf_at));
                f.instruction(&I::I32Const(*n as i32));
                f.instruction(&I::Call(F_CONSUME));
            }
            Call::Size(col, k) => {
                let kp = KEYS_AT + keys.len() as u32;
                keys.extend_from_slice(k);
                f.instruction(&I::I32Const(kp as i32));
                f.instruction(&I::I32Const(k.len() as i32));
                f.instruction(&I::I32Const(*col as i32));
                f.instruction(&I::Call(F_SIZE));
            }
            Call::Get(col, k, n) => {
                let kp = KEYS_AT + keys.len() as u32;
                keys.extend_from_slice(k);
                f.instruction(&I::I32Const(kp as i32));
                f.instruction(&I::I32Const(k.len() as i32));
                f.instruction(&I::I32Const(*col as i32));
                f.instruction(&I::I32Const(buf_at));
                f.instruction(&I::I32Const(*n as i32));
                f.instruction(&I::Call(F_GET));
                f.instruction(&I::I64ExtendI32U);
            }
            Call::RelEnabled => {
                f.instruction(&I::Call(F_REL_EN));
                f.instruction(&I::I64ExtendI32U);
            }
            Call::RelSize(h) => {
                f.instruction(&I::I64Const(*h as i64));
                f.instruction(&I::Call(F_REL_SIZE));
            }
            Call::RelGet(h) => {
                f.instruction(&I::I64Const(*h as i64));
                f.instruction(&I::I32Const(buf_at));
                f.instruction(&I::Call(F_REL_GET));
            }
        }
        if s.has_ret {
            f.instruction(&I::I64Store(m8));
        }
    }
    // pack_ptr_and_len(OUT_AT, header + trace)
    let total = header.len() as u64 + trace_len as u64;
    f.instruction(&I::I64Const(((total << 32) | OUT_AT as u64) as i64));
    f.instruction(&I::End);
    let mut code = we::CodeSection::new();
    code.function(&f);

    let mut data = we::DataSection::new();
    if !keys.is_empty() {
        data.active(0, &we::ConstExpr::i32_const(KEYS_AT as i32), keys.clone());
    }
    let mut out = header.clone();
    out.extend(std::iter::repeat(fill).take(trace_len));
    data.active(0, &we::ConstExpr::i32_const(OUT_AT as i32), out);

    assert!(KEYS_AT as usize + keys.len() < OUT_AT as usize);
    assert!((OUT_AT as usize) + header.len() + trace_len < 4 * 65536);

    let mut module = we::Module::new();
    module.section(&types);
    module.section(&imports);
    module.section(&functions);
    module.section(&memories);
    module.section(&exports);
    module.section(&code);
    module.section(&data);
    (module.finish(), slots, trace_len)
}

pub struct Env {
    pub has_src: bool,
    pub batches: Vec<Vec<u8>>,
    pub storage: Vec<(u32, Vec<u8>, Row)>,
    pub rel_enabled: bool,
    pub relayer: Vec<(u64, Option<Vec<u8>>)>,
    pub input: Vec<u8>,
}

pub fn env_of_t(t: &T) -> Env {
    let f = t.as_l();
    Env {
        has_src: f[0].as_bool(),
        batches: f[2].as_l().iter().map(|b| b.as_bytes()).collect(),
        storage: f[3]
            .as_l()
            .iter()
            .map(|r| {
                let r = r.as_l();
                let row = match r[2].as_u64() {
                    0 => Row::Err,
                    1 => Row::None,
                    _ => Row::Some(r[3].as_bytes()),
                };
                (r[0].as_u32(), r[1].as_bytes(), row)
            })
            .collect(),
        rel_enabled: f[5].as_bool(),
        relayer: f[6]
            .as_l()
            .iter()
            .map(|r| {
                let r = r.as_l();
                (r[0].as_u64(), if r[1].as_u64() == 0 { None } else { Some(r[2].as_bytes()) })
            })
            .collect(),
        input: f[8].as_bytes(),
    }
}

fn engine() -> &'static wasmtime::Engine {
    static E: std::sync::OnceLock<wasmtime::Engine> = std::sync::OnceLock::new();
    E.get_or_init(wasmtime::Engine::default)
}

/// one run of the script with the given fill pattern: Some(trace bytes) or None (trap / error)
fn run_once(env: &Env, calls: &[Call], fill: u8) -> Option<(Vec<u8>, Vec<Slot>)> {
    let rel_cap = env.relayer.iter().filter_map(|r| r.1.as_ref().map(|b| b.len())).max().unwrap_or(0).max(1) as u32;
    let (wasm, slots, trace_len) = assemble(calls, rel_cap, fill);
    let module = wasmtime::Module::new(engine(), &wasm).expect("scripted guest is a valid module");
    let source = if env.has_src {
        let batches = env
            .batches
            .iter()
            .map(|b| postcard::from_bytes::<Vec<Transaction>>(b).expect("batch bytes decode"))
            .collect();
        Some(ScriptedSource { batches: Mutex::new(batches) })
    } else {
        None
    };
    let storage = MockStorage { rows: env.storage.clone() };
    let relayer = MockRelayer {
        enabled: env.rel_enabled,
        rows: env
            .relayer
            .iter()
            .map(|(h, b)| (*h, b.as_ref().map(|b| postcard::from_bytes::<Vec<Event>>(b).expect("event bytes decode"))))
            .collect(),
    };
    let input: InputDeserializationType = postcard::from_bytes(&env.input).expect("input bytes decode");
    let (block, options) = match input {
        InputDeserializationType::V1 { block: WasmDeserializationBlockTypes::Validation(b), options } => (b, options),
        _ => panic!("the input of a scripted case is a validation input"),
    };
    let instance = Instance::new(engine())
        .add_source(source)
        .expect("add_source")
        .add_storage(storage)
        .expect("add_storage")
        .add_relayer(relayer)
        .expect("add_relayer")
        .add_validation_input_data(&block, options)
        .expect("add_input");
    match instance.run(&module) {
        Ok(ReturnType::Validation(Ok(u))) => {
            let (_, changes) = u.into();
            let inner = changes.get(&0u32).expect("column 0");
            let (_, op) = inner.iter().next().expect("one entry");
            match op {
                WriteOperation::Insert(v) => {
                    assert_eq!(v.len(), trace_len);
                    Some((v.to_vec(), slots))
                }
                WriteOperation::Remove => panic!("unexpected remove"),
            }
        }
        Ok(_) => panic!("unexpected return type"),
        Err(_) => None,
    }
}

/// Some(results of all calls) or None if some call trapped
fn run_script(env: &Env, calls: &[Call]) -> Option<Vec<T>> {
    let (a, slots) = run_once(env, calls, 0xEE)?;
    let (b, _) = run_once(env, calls, 0x11)?;
    let mut out = vec![];
    for s in slots.iter() {
        let o = s.off as usize;
        let ret = if s.has_ret {
            assert_eq!(a[o..o + 8], b[o..o + 8], "return slot differs between the two fills");
            u64::from_le_bytes(a[o..o + 8].try_into().unwrap())
        } else {
            0
        };
        // the bytes the host wrote = the leading positions on which the two runs agree
        let wa = &a[o + 8..o + 8 + s.cap as usize];
        let wb = &b[o + 8..o + 8 + s.cap as usize];
        let n = wa.iter().zip(wb.iter()).take_while(|(x, y)| x == y).count();
        assert!(wa[n..].iter().zip(wb[n..].iter()).all(|(x, y)| x != y), "non-contiguous host write");
        out.push(T::l(vec![T::n(ret), T::bytes(&wa[..n])]));
    }
    Some(out)
}

pub fn run(input: &T) -> T {
    let f = input.as_l();
    let env = env_of_t(&f[1]);
    let calls: Vec<Call> = f[2].as_l().iter().map(call_of_t).collect();
    if let Some(r) = run_script(&env, &calls) {
        return T::l(r);
    }
    // some call trapped: the longest prefix that runs, then the trap marker
    let mut k = calls.len();
    while k > 0 {
        k -= 1;
        if let Some(mut r) = run_script(&env, &calls[..k]) {
            r.push(T::l(vec![T::i(-1)]));
            return T::l(r);
        }
    }
    T::l(vec![T::l(vec![T::i(-1)])])
}
