//! A plain in-memory key-value store implementing the view traits the upgradable executor
//! asks for; every view is an immutable snapshot.  One read can be made to fail (fault
//! injection) to compare how both strategies report a failing storage.
use fuel_core_executor::ports::RelayerPort;
use fuel_core_storage::{
    column::Column,
    kv_store::{KeyValueInspect, Value, WriteOperation},
    transactional::{AtomicView, Changes, HistoricalView, Modifiable},
    Error as StorageError, Result as StorageResult,
};
use fuel_core_types::{blockchain::primitives::DaBlockHeight, fuel_types::BlockHeight, services::relayer::Event};
use std::{
    collections::BTreeMap,
    sync::{Arc, Mutex},
};

pub type Map = BTreeMap<(u32, Vec<u8>), Value>;

#[derive(Clone, Default)]
pub struct MemStore {
    pub map: Arc<Mutex<Map>>,
    pub fault: Arc<Mutex<Option<(u32, Vec<u8>)>>>,
}

pub struct MemView {
    map: Map,
    fault: Option<(u32, Vec<u8>)>,
}

impl KeyValueInspect for MemView {
    type Column = Column;
    fn get(&self, key: &[u8], column: Column) -> StorageResult<Option<Value>> {
        if let Some((c, k)) = &self.fault {
            if *c == column.as_u32() && k.as_slice() == key {
                return Err(StorageError::Other(anyhow::anyhow!("injected storage failure")));
            }
        }
        Ok(self.map.get(&(column.as_u32(), key.to_vec())).cloned())
    }
}

impl KeyValueInspect for MemStore {
    type Column = Column;
    fn get(&self, key: &[u8], column: Column) -> StorageResult<Option<Value>> {
        Ok(self.map.lock().unwrap().get(&(column.as_u32(), key.to_vec())).cloned())
    }
}

impl Modifiable for MemStore {
    fn commit_changes(&mut self, changes: Changes) -> StorageResult<()> {
        let mut g = self.map.lock().unwrap();
        for (col, m) in changes {
            for (k, op) in m {
                let key: Vec<u8> = k.into();
                match op {
                    WriteOperation::Insert(v) => {
                        g.insert((col, key), v);
                    }
                    WriteOperation::Remove => {
                        g.remove(&(col, key));
                    }
                }
            }
        }
        Ok(())
    }
}

impl AtomicView for MemStore {
    type LatestView = MemView;
    fn latest_view(&self) -> StorageResult<MemView> {
        Ok(MemView { map: self.map.lock().unwrap().clone(), fault: self.fault.lock().unwrap().clone() })
    }
}

impl HistoricalView for MemStore {
    type Height = BlockHeight;
    type ViewAtHeight = MemView;
    fn latest_height(&self) -> Option<BlockHeight> {
        None
    }
    fn view_at(&self, _: &BlockHeight) -> StorageResult<MemView> {
        self.latest_view()
    }
}

impl MemStore {
    /// keys of one column, in key order
    pub fn keys_of(&self, col: u32) -> Vec<Vec<u8>> {
        self.map.lock().unwrap().keys().filter(|k| k.0 == col).map(|k| k.1.clone()).collect()
    }
}

/// relayer: events per DA height; `fail_at` makes get_events fail for one height
#[derive(Clone, Default)]
pub struct Rel {
    pub enabled: bool,
    pub events: Arc<Mutex<BTreeMap<u64, Vec<Event>>>>,
    pub fail_at: Option<u64>,
}
pub struct RelView {
    enabled: bool,
    events: BTreeMap<u64, Vec<Event>>,
    fail_at: Option<u64>,
}
impl AtomicView for Rel {
    type LatestView = RelView;
    fn latest_view(&self) -> StorageResult<RelView> {
        Ok(RelView { enabled: self.enabled, events: self.events.lock().unwrap().clone(), fail_at: self.fail_at })
    }
}
impl RelayerPort for RelView {
    fn enabled(&self) -> bool {
        self.enabled
    }
    fn get_events(&self, h: &DaBlockHeight) -> anyhow::Result<Vec<Event>> {
        if self.fail_at == Some(h.0) {
            return Err(anyhow::anyhow!("injected relayer failure"));
        }
        Ok(self.events.get(&h.0).cloned().unwrap_or_default())
    }
}
