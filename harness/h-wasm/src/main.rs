//! Harness of the Wasm cluster (C07).  Four kinds of cases, told apart by the first element of
//! the input:
//!   0..3  the real pack/unpack functions of fuel-core-wasm-executor's utils.rs,
//!   4     a scripted guest against the real host functions of instance.rs (guest.rs),
//!   5     differential: blocks produced and validated under both strategies (diff.rs).
mod diff;
mod guest;
mod hostgen;
mod store;
mod world;

use fuel_core_wasm_executor::utils::{
    pack_exists_size_result, pack_ptr_and_len, unpack_exists_size_result, unpack_ptr_and_len,
};
use vcommon::{catch, Rng, T};

fn codec(input: &T) -> T {
    let f = input.as_l();
    match f[0].as_u64() {
        0 => {
            let p = pack_ptr_and_len(f[1].as_u32(), f[2].as_u32());
            let (a, b) = unpack_ptr_and_len(p);
            T::l(vec![T::n(p), T::l(vec![T::n(a), T::n(b)])])
        }
        1 => {
            let p = pack_exists_size_result(f[1].as_bool(), f[2].as_u32(), f[3].as_u16());
            let (e, s, r) = unpack_exists_size_result(p);
            T::l(vec![T::n(p), T::l(vec![T::b(e), T::n(s), T::n(r)])])
        }
        2 => {
            let (a, b) = unpack_ptr_and_len(f[1].as_u64());
            T::l(vec![T::n(a), T::n(b)])
        }
        3 => {
            let (e, s, r) = unpack_exists_size_result(f[1].as_u64());
            T::l(vec![T::b(e), T::n(s), T::n(r)])
        }
        k => panic!("unknown codec case {k}"),
    }
}

const EDGE32: [u32; 14] = [
    0, 1, 2, 0x7f, 0x80, 0xff, 0x100, 0xffff, 0x1_0000, 0x7fff_ffff, 0x8000_0000, 0x8000_0001, 0xffff_fffe, 0xffff_ffff,
];
const EDGE16: [u16; 8] = [0, 1, 2, 0xff, 0x100, 0x7fff, 0x8000, 0xffff];

fn codec_cases(rng: &mut Rng, thorough: bool) -> Vec<T> {
    let mut v = vec![];
    let n = |x: u64| T::n(x);
    // boundary products
    for a in EDGE32 {
        for b in EDGE32 {
            v.push(T::l(vec![n(0), n(a as u64), n(b as u64)]));
        }
    }
    for e in [false, true] {
        for s in EDGE32 {
            for r in EDGE16 {
                v.push(T::l(vec![n(1), T::b(e), n(s as u64), n(r as u64)]));
            }
        }
    }
    // every single-bit and all-but-one-bit u64 for the unpack functions
    for k in 0..64u32 {
        for val in [1u64 << k, !(1u64 << k), (1u64 << k).wrapping_sub(1)] {
            v.push(T::l(vec![n(2), n(val)]));
            v.push(T::l(vec![n(3), n(val)]));
        }
    }
    // 16-bit windows: exhaustive in thorough runs, strided otherwise
    let step = if thorough { 1u32 } else { 97 };
    let bases: [u32; 4] = [0, 0xffff_0000, 0x7fff_8000, (rng.next() as u32) & 0xffff_0000];
    for (bi, base) in bases.into_iter().enumerate() {
        let other = *rng.pick(&EDGE32);
        // thorough: the lowest and the highest window exhaustively, the other two with stride 5
        let step = if thorough && bi >= 2 { 5 } else { step };
        let mut x = 0u32;
        while x < 0x1_0000 {
            let w = base.wrapping_add(x);
            v.push(T::l(vec![n(0), n(w as u64), n(other as u64)]));
            v.push(T::l(vec![n(0), n(other as u64), n(w as u64)]));
            v.push(T::l(vec![n(1), T::b(x & 1 == 1), n(w as u64), n((x & 0xffff) as u64)]));
            x += step;
        }
    }
    // all result codes with boundary sizes
    let mut r = 0u32;
    while r < 0x1_0000 {
        v.push(T::l(vec![n(1), T::b(r & 2 == 0), n(*rng.pick(&EDGE32) as u64), n(r as u64)]));
        r += step;
    }
    // random 64-bit values
    for _ in 0..(if thorough { 25_000 } else { 1500 }) {
        let val = rng.next();
        v.push(T::l(vec![n(2), n(val)]));
        v.push(T::l(vec![n(3), n(val)]));
        v.push(T::l(vec![n(0), n(val >> 32), n(val & 0xffff_ffff)]));
        v.push(T::l(vec![n(1), T::b(val & 1 == 1), n((val >> 1) & 0xffff_ffff), n((val >> 33) & 0xffff)]));
    }
    v
}

/// `n` = number of differential histories; the codec and host-protocol cases are sized by tier
fn gen(_prop: &str, rng: &mut Rng, n: u64, tier: &str) -> Vec<T> {
    let thorough = tier == "thorough";
    let mut cases = codec_cases(rng, thorough);
    let n_host = if thorough { 6000 } else { 400 };
    for k in 0..n_host {
        cases.push(hostgen::gen_case(rng, k % 3 == 0));
    }
    // differential histories: groups of 20 spread over the list (one process compiles the wasm
    // module once for its group; thorough runs use several shards in parallel)
    let max_blocks = if thorough { 5 } else { 3 };
    let mut hist = vec![];
    for k in 0..n {
        // every 14th history runs over a view with one failing read (known class
        // K-C07-storage-error-masked)
        let flags = if k % 14 == 13 {
            world::F_FAULT | if k % 28 == 27 { world::F_RELAYER } else { 0 }
        } else {
            0
        };
        let flags = flags | match k % 10 {
            0 | 1 => 0,
            2 => world::F_TINYGAS,
            3 => world::F_BADRECIPIENT,
            4 => world::F_TINYSIZE,
            5 => world::F_COLLIDE,
            6 => world::F_HUGEFEE,
            7 | 8 => world::F_RELAYER,
            _ => world::F_RELAYER | world::F_TINYGAS,
        };
        hist.push(T::l(vec![
            T::n(5u8),
            T::n(rng.next() >> 16),
            T::n(rng.range(1, max_blocks)),
            T::n(rng.range(2, if thorough { 10 } else { 7 })),
            T::n(flags),
        ]));
    }
    let groups: Vec<Vec<T>> = hist.chunks(20).map(|c| c.to_vec()).collect();
    let stride = cases.len() / (groups.len() + 1);
    for (g, group) in groups.into_iter().enumerate().rev() {
        let pos = ((g + 1) * stride).min(cases.len());
        for (j, c) in group.into_iter().enumerate() {
            cases.insert(pos + j, c);
        }
    }
    cases
}

fn run(_prop: &str, input: &T) -> T {
    let input = input.clone();
    catch(move || match input.as_l()[0].as_u64() {
        0..=3 => codec(&input),
        4 => guest::run(&input),
        5 => diff::run(&input),
        k => panic!("unknown case kind {k}"),
    })
}

fn main() {
    vcommon::main_protocol(gen, run);
}
