//! Differential cases: every generated block is produced and validated with BOTH strategies
//! of the upgradable executor (`Executor::native`, `Executor::wasm`) on the same parent state.
//! input `(5 seed n_blocks max_txs flags)`; observed `(native_obs wasm_obs)`, one entry per
//! block: `(produce validate (tampered validations))`.
use crate::{
    store::{MemStore, Rel},
    world::{self, World},
};
use fuel_core_executor::ports::{MaybeCheckedTransaction, TransactionsSource};
use fuel_core_storage::{
    kv_store::WriteOperation,
    tables::FuelBlocks,
    transactional::{Changes, Modifiable, WriteTransaction},
    StorageAsMut,
};
use fuel_core_types::{
    blockchain::{
        block::Block,
        header::{ApplicationHeader, ConsensusHeader, PartialBlockHeader},
    },
    fuel_crypto::Hasher,
    fuel_tx::{ConsensusParameters, ContractId, Transaction, UniqueIdentifier},
    fuel_types::BlockHeight,
    fuel_vm::checked_transaction::IntoChecked,
    services::{
        block_producer::Components,
        executor::{Error as ExecutorError, ExecutionResult, ValidationResult},
    },
    tai64::Tai64,
};
use fuel_core_upgradable_executor::{config::Config, executor::Executor};
use std::sync::{Arc, Mutex};
use vcommon::{Rng, T};

type Exec = Executor<MemStore, Rel>;

fn d64(bytes: &[u8]) -> u64 {
    let h = Hasher::hash(bytes);
    u64::from_be_bytes(h.as_ref()[..8].try_into().unwrap()) >> 1
}
fn n(x: u64) -> T {
    T::n(x)
}

// ---------------------------------------------------------------- transaction source

#[derive(Clone, Copy, Debug)]
pub enum Policy {
    All,
    Count,
    Honest,
    Drip(usize),
}

pub struct SourceInner {
    pending: Vec<MaybeCheckedTransaction>,
    policy: Policy,
    params: ConsensusParameters,
    pub calls: Vec<(u64, u16, u32, usize)>,
}
#[derive(Clone)]
pub struct Source(pub Arc<Mutex<SourceInner>>);

fn tx_size(t: &Transaction) -> usize {
    use fuel_core_types::fuel_tx::Chargeable;
    match t {
        Transaction::Script(t) => t.metered_bytes_size(),
        Transaction::Create(t) => t.metered_bytes_size(),
        Transaction::Upgrade(t) => t.metered_bytes_size(),
        Transaction::Upload(t) => t.metered_bytes_size(),
        Transaction::Blob(t) => t.metered_bytes_size(),
        Transaction::Mint(_) => 0,
    }
}

fn plain(tx: &MaybeCheckedTransaction) -> Transaction {
    use fuel_core_types::fuel_vm::checked_transaction::CheckedTransaction as C;
    match tx {
        MaybeCheckedTransaction::Transaction(t) => t.clone(),
        MaybeCheckedTransaction::CheckedTransaction(c, _) => match c {
            C::Script(t) => t.transaction().clone().into(),
            C::Create(t) => t.transaction().clone().into(),
            C::Mint(t) => t.transaction().clone().into(),
            C::Upgrade(t) => t.transaction().clone().into(),
            C::Upload(t) => t.transaction().clone().into(),
            C::Blob(t) => t.transaction().clone().into(),
        },
    }
}

impl TransactionsSource for Source {
    fn next(&self, gas: u64, count: u16, size: u32) -> Vec<MaybeCheckedTransaction> {
        use fuel_core_types::blockchain::transaction::TransactionExt;
        let mut g = self.0.lock().unwrap();
        let take: usize = match g.policy {
            Policy::All => g.pending.len(),
            Policy::Count => g.pending.len().min(count as usize),
            Policy::Drip(k) => g.pending.len().min(k),
            Policy::Honest => {
                let mut gas_left = gas;
                let mut size_left = size as u64;
                let mut k = 0usize;
                for tx in g.pending.iter() {
                    if k >= count as usize {
                        break;
                    }
                    let mg = tx.max_gas(&g.params).unwrap_or(u64::MAX);
                    let sz = tx_size(&plain(tx)) as u64;
                    if mg > gas_left || sz > size_left {
                        break;
                    }
                    gas_left -= mg;
                    size_left -= sz;
                    k += 1;
                }
                k
            }
        };
        let batch: Vec<MaybeCheckedTransaction> = g.pending.drain(..take).collect();
        g.calls.push((gas, count, size, batch.len()));
        batch
    }
}

// ---------------------------------------------------------------- observations

fn changes_digest(c: &Changes) -> (u64, u64) {
    let mut cols: Vec<&u32> = c.keys().collect();
    cols.sort();
    let mut b: Vec<u8> = vec![];
    let mut cnt = 0u64;
    for col in cols {
        for (k, op) in c[col].iter() {
            let k: &[u8] = k.as_ref();
            b.extend_from_slice(&col.to_be_bytes());
            b.extend_from_slice(&(k.len() as u32).to_be_bytes());
            b.extend_from_slice(k);
            match op {
                WriteOperation::Insert(v) => {
                    b.push(1);
                    b.extend_from_slice(&(v.len() as u32).to_be_bytes());
                    b.extend_from_slice(v);
                }
                WriteOperation::Remove => b.push(0),
            }
            cnt += 1;
        }
    }
    (d64(&b), cnt)
}

pub const TAG_EXPIRED: u64 = 1001;
pub const TAG_INVALID_EXPIRATION: u64 = 1002;

/// variant tag of an executor error (never the message text).  Two variants get fixed tags
/// because the known class "expired transaction delivered as CheckedTransaction" is made of them.
fn err_tag(e: &ExecutorError) -> u64 {
    let s = format!("{e:?}");
    if s.starts_with("TransactionExpired(") {
        return TAG_EXPIRED;
    }
    if s == "InvalidTransaction(Validity(TransactionExpiration))" {
        return TAG_INVALID_EXPIRATION;
    }
    let name: String = s.chars().take_while(|c| c.is_alphanumeric() || *c == '_').collect();
    2000 + d64(name.as_bytes()) % 100_000
}

/// digest of the error's content; the text of RelayerError / StorageError comes from outside the
/// executor and crosses the boundary as a result code only, so it is not compared
fn err_text(e: &ExecutorError) -> u64 {
    match e {
        ExecutorError::RelayerError(_) | ExecutorError::StorageError(_) => 0,
        _ => d64(format!("{e:?}").as_bytes()),
    }
}

fn err_t(e: &ExecutorError) -> T {
    T::l(vec![n(1), n(err_tag(e)), n(err_text(e))])
}

fn ser<X: serde::Serialize>(x: &X) -> u64 {
    d64(&postcard::to_allocvec(x).expect("serialisable"))
}

fn produce_t(params: &ConsensusParameters, r: &Result<(ExecutionResult, Changes), ExecutorError>, calls: usize) -> T {
    match r {
        Err(e) => err_t(e),
        Ok((ExecutionResult { block, skipped_transactions, tx_status, events }, changes)) => {
            let chain_id = params.chain_id();
            let ids: Vec<u8> = block.transactions().iter().flat_map(|t| t.id(&chain_id).to_vec()).collect();
            let (cd, cn) = changes_digest(changes);
            let failed = tx_status
                .iter()
                .filter(|s| matches!(s.result, fuel_core_types::services::executor::TransactionExecutionResult::Failed { .. }))
                .count();
            T::l(vec![
                n(0),
                n(d64(block.id().as_ref())),
                n(block.transactions().len() as u64),
                n(d64(&ids)),
                n(ser(block)),
                n(cd),
                n(cn),
                n(ser(tx_status)),
                n(failed as u64),
                n(ser(events)),
                n(events.len() as u64),
                T::l(skipped_transactions
                    .iter()
                    .map(|(id, e)| T::l(vec![n(d64(id.as_ref())), n(err_tag(e)), n(err_text(e))]))
                    .collect()),
                n(calls as u64),
            ])
        }
    }
}

fn validate_t(r: &Result<(ValidationResult, Changes), ExecutorError>) -> T {
    match r {
        Err(e) => err_t(e),
        Ok((ValidationResult { tx_status, events }, changes)) => {
            let (cd, cn) = changes_digest(changes);
            T::l(vec![n(0), n(cd), n(cn), n(ser(tx_status)), n(ser(events)), n(events.len() as u64)])
        }
    }
}

// ---------------------------------------------------------------- tampered blocks (from h-exec)

fn tamper(w: &World, rng: &mut Rng, block: &Block, kind: u64) -> Option<Block> {
    use fuel_core_types::fuel_tx::field::{InputContract, MintAmount, MintAssetId, MintGasPrice, OutputContract, TxPointer as TP};
    use fuel_core_types::fuel_tx::TxPointer;
    let mut txs: Vec<Transaction> = block.transactions().to_vec();
    let nn = txs.len();
    let mint = match txs.last() {
        Some(Transaction::Mint(m)) => m.clone(),
        _ => return None,
    };
    let rebuild = |amount: u64, price: u64, index: u16| -> Transaction {
        Transaction::mint(
            TxPointer::new(mint.tx_pointer().block_height(), index),
            mint.input_contract().clone(),
            *mint.output_contract(),
            amount,
            *mint.mint_asset_id(),
            price,
        )
        .into()
    };
    let idx = mint.tx_pointer().tx_index();
    match kind {
        1 => txs[nn - 1] = rebuild(mint.mint_amount().wrapping_add(1), *mint.gas_price(), idx),
        2 => txs[nn - 1] = rebuild(*mint.mint_amount(), mint.gas_price().wrapping_add(1), idx),
        3 => txs[nn - 1] = rebuild(*mint.mint_amount(), *mint.gas_price(), idx.wrapping_add(1)),
        4 => {
            txs.pop();
        }
        5 => {
            if nn < 2 {
                return None;
            }
            let m = txs.pop().unwrap();
            txs.insert(0, m);
        }
        6 => {
            if nn < 2 {
                return None;
            }
            let k = rng.below(nn as u64 - 1) as usize;
            let t = txs[k].clone();
            txs.insert(nn - 1, t);
        }
        7 => {
            if w.executed.is_empty() {
                return None;
            }
            let t = w.executed[rng.below(w.executed.len() as u64) as usize].clone();
            txs.insert(nn - 1, t);
        }
        8 => {
            let m = txs[nn - 1].clone();
            txs.push(m);
        }
        9 => {
            // drop a non-mint transaction: outcome / roots no longer match
            if nn < 2 {
                return None;
            }
            let k = rng.below(nn as u64 - 1) as usize;
            txs.remove(k);
        }
        _ => return None,
    }
    let mut b = block.clone();
    *b.transactions_mut() = txs;
    Some(b)
}

// ---------------------------------------------------------------- one history

fn header(height: u32, da: u64) -> PartialBlockHeader {
    let mut application: ApplicationHeader<_> = Default::default();
    application.da_height = da.into();
    let mut consensus: ConsensusHeader<_> = Default::default();
    consensus.height = height.into();
    consensus.time = Tai64(4611686018427387914 + height as u64);
    PartialBlockHeader { application, consensus }
}

fn executor(w: &World, wasm: bool) -> Exec {
    let cfg = Config {
        forbid_fake_coins_default: w.forbid,
        allow_syscall: true,
        native_executor_version: None,
        allow_historical_execution: true,
    };
    if wasm {
        Executor::wasm(w.db.clone(), w.relayer.clone(), cfg)
    } else {
        Executor::native(w.db.clone(), w.relayer.clone(), cfg)
    }
}

struct Plan {
    txs: Vec<Transaction>,
    checked_at: Vec<Option<u32>>,
    policy: Policy,
    gas_price: u64,
    recipient: ContractId,
    da_height: u64,
}

fn pending(w: &World, p: &Plan) -> Vec<MaybeCheckedTransaction> {
    p.txs
        .iter()
        .zip(p.checked_at.iter())
        .map(|(tx, at)| {
            if let Some(h) = at {
                if let Ok(c) = tx.clone().into_checked_basic(BlockHeight::new(*h), &w.params) {
                    return MaybeCheckedTransaction::CheckedTransaction(c.into(), 0);
                }
            }
            MaybeCheckedTransaction::Transaction(tx.clone())
        })
        .collect()
}

fn produce(w: &World, p: &Plan, wasm: bool) -> (Result<(ExecutionResult, Changes), ExecutorError>, usize) {
    let ex = executor(w, wasm);
    let src = Source(Arc::new(Mutex::new(SourceInner {
        pending: pending(w, p),
        policy: p.policy,
        params: w.params.clone(),
        calls: vec![],
    })));
    let comps = Components {
        header_to_produce: header(w.height, p.da_height),
        transactions_source: src.clone(),
        coinbase_recipient: p.recipient,
        gas_price: p.gas_price,
    };
    let r = ex.produce_without_commit_with_source_direct_resolve(comps).map(|u| u.into());
    let calls = src.0.lock().unwrap().calls.len();
    (r, calls)
}

fn validate(w: &World, b: &Block, wasm: bool) -> Result<(ValidationResult, Changes), ExecutorError> {
    executor(w, wasm).validate(b).map(|u| u.into())
}

fn pick_price(rng: &mut Rng, flags: u64) -> u64 {
    if flags & world::F_HUGEFEE != 0 && rng.chance(2, 3) {
        return *rng.pick(&[300_000_000_000_000u64, 600_000_000_000_000, 1_000_000_000_000_000]);
    }
    *rng.pick(&[0u64, 0, 1, 1, 1, 2, 3, 7, 1000])
}

pub fn run(input: &T) -> T {
    let f = input.as_l();
    let seed = f[1].as_u64();
    let n_blocks = f[2].as_u64();
    let max_txs = f[3].as_u64();
    let flags = f[4].as_u64();
    let mut rng = Rng::new(seed);
    let mut w = World::new(&mut rng, flags);
    let mut nat = vec![];
    let mut was = vec![];
    for b in 0..n_blocks {
        if b > 0 {
            w.resync();
        }
        let mut gas_price = pick_price(&mut rng, flags);
        let k = rng.range(if b == 0 { 1 } else { 0 }, max_txs);
        let mut txs: Vec<Transaction> = (0..k).map(|_| w.gen_tx(&mut rng, gas_price)).collect();
        if b == 0 && flags & world::F_COLLIDE != 0 {
            use fuel_core_types::fuel_tx::field::Outputs;
            for tx in txs.clone().iter() {
                if let Transaction::Script(s) = tx {
                    if let Some(idx) = s.outputs().iter().position(|o| o.amount().unwrap_or(0) > 0 && o.is_coin()) {
                        w.plant_collision(&mut rng, tx, idx as u16);
                        break;
                    }
                }
            }
        }
        if flags & world::F_HUGEFEE != 0 && rng.chance(3, 4) {
            if let Some(p) = w.huge_price() {
                gas_price = p;
            }
        }
        let n_re = if w.txs.is_empty() { 0 } else { rng.below(3) };
        for _ in 0..n_re {
            let t = w.txs[rng.below(w.txs.len() as u64) as usize].clone();
            let pos = rng.below(txs.len() as u64 + 1) as usize;
            txs.insert(pos, t);
        }
        let policy = match rng.below(8) {
            0..=2 => Policy::All,
            3 => Policy::Count,
            4..=5 => Policy::Honest,
            _ => Policy::Drip(rng.range(1, 3) as usize),
        };
        let recipient = if rng.chance(1, 2) {
            Default::default()
        } else if flags & world::F_BADRECIPIENT != 0 && rng.chance(1, 2) {
            ContractId::new([7u8; 32])
        } else {
            w.contract
        };
        let da = w.da_height + if rng.chance(1, 2) { rng.range(1, 3) } else { 0 };
        if flags & world::F_RELAYER != 0 {
            w.gen_events(&mut rng, w.da_height, da, gas_price);
        }
        let checked_at: Vec<Option<u32>> = txs
            .iter()
            .map(|_| if rng.chance(1, 3) { Some(rng.range(0, w.height as u64) as u32) } else { None })
            .collect();
        let plan = Plan { txs, checked_at, policy, gas_price, recipient, da_height: da };
        // storage fault: one coin read of this block fails (both strategies see the same view)
        if flags & world::F_FAULT != 0 {
            let key = w.fault_key(&mut rng, &plan.txs);
            *w.db.fault.lock().unwrap() = key;
        }

        let (rn, cn) = produce(&w, &plan, false);
        let (rw, cw) = produce(&w, &plan, true);
        if std::env::var_os("HWASM_DEBUG").is_some() {
            for (tag, r) in [("native", &rn), ("wasm", &rw)] {
                match r {
                    Ok((res, _)) => {
                        for (id, e) in res.skipped_transactions.iter() {
                            eprintln!("{tag} block {b} skipped {id}: {e:?}");
                        }
                    }
                    Err(e) => eprintln!("{tag} block {b} produce error: {e:?}"),
                }
            }
        }
        let pn = produce_t(&w.params, &rn, cn);
        let pw = produce_t(&w.params, &rw, cw);
        let mut vn = T::l(vec![]);
        let mut vw = T::l(vec![]);
        let mut tn = vec![];
        let mut tw = vec![];
        if let Ok((res, changes)) = rn {
            let block = res.block.clone();
            let a = validate(&w, &block, false);
            let bb = validate(&w, &block, true);
            vn = validate_t(&a);
            vw = validate_t(&bb);
            for kind in 1..=9u64 {
                if !rng.chance(1, 3) {
                    continue;
                }
                if let Some(tb) = tamper(&w, &mut rng, &block, kind) {
                    let x = validate(&w, &tb, false);
                    let y = validate(&w, &tb, true);
                    tn.push(T::l(vec![n(kind), validate_t(&x)]));
                    tw.push(T::l(vec![n(kind), validate_t(&y)]));
                }
            }
            if a.is_ok() {
                for t in block.transactions().iter() {
                    if !matches!(t, Transaction::Mint(_)) {
                        w.executed.push(t.clone());
                    }
                }
                *w.db.fault.lock().unwrap() = None;
                let chain_id = w.params.chain_id();
                let mut t = w.db.write_transaction();
                t.commit_changes(changes).expect("merge changes");
                t.storage_as_mut::<FuelBlocks>()
                    .insert(&BlockHeight::new(w.height), &block.compress(&chain_id))
                    .expect("insert block");
                t.commit().expect("commit block");
                w.height += 1;
                w.da_height = plan.da_height;
            }
        }
        *w.db.fault.lock().unwrap() = None;
        nat.push(T::l(vec![pn, vn, T::l(tn)]));
        was.push(T::l(vec![pw, vw, T::l(tw)]));
    }
    T::l(vec![T::l(nat), T::l(was)])
}
