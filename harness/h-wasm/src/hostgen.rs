//! Generator of the host-protocol cases (kind 4): environments (storage rows, relayer rows,
//! source batches, executor input) and call scripts.  Scripts mix the call discipline of the
//! shipped guest (size then get with the exact length, size-of-events then get-events, peek then
//! consume) with calls it never makes (wrong lengths, get before size, unknown columns, double
//! peeks, oversized counts).
use crate::guest::{call_to_t, Call};
use fuel_core_executor::executor::ExecutionOptions;
use fuel_core_storage::column::Column;
use fuel_core_types::{
    blockchain::{
        block::PartialFuelBlock,
        header::{ApplicationHeader, ConsensusHeader, PartialBlockHeader},
        primitives::Empty,
    },
    entities::relayer::{
        message::{Message, MessageV1},
        transaction::{RelayedTransaction, RelayedTransactionV1},
    },
    fuel_tx::{Address, AssetId, Bytes32, Transaction},
    fuel_types::Nonce,
    services::relayer::Event,
    tai64::Tai64,
};
use fuel_core_wasm_executor::utils::{InputSerializationType, WasmSerializationBlockTypes};
use vcommon::{Rng, T};

fn mint(amount: u64, price: u64) -> Transaction {
    Transaction::mint(Default::default(), Default::default(), Default::default(), amount, AssetId::BASE, price).into()
}

fn input_bytes(rng: &mut Rng) -> Vec<u8> {
    let block = PartialFuelBlock::new(
        PartialBlockHeader {
            application: ApplicationHeader {
                da_height: rng.below(3).into(),
                consensus_parameters_version: 0,
                state_transition_bytecode_version: rng.below(40) as u32,
                generated: Empty,
            },
            consensus: ConsensusHeader {
                prev_root: Default::default(),
                height: (rng.below(5) as u32).into(),
                time: Tai64(4611686018427387914),
                generated: Empty,
            },
        },
        (0..rng.below(3)).map(|k| mint(k, 1)).collect(),
    )
    .generate(&[], Bytes32::zeroed())
    .expect("block");
    let input = InputSerializationType::V1 {
        block: WasmSerializationBlockTypes::Validation(&block),
        options: ExecutionOptions { forbid_fake_coins: rng.chance(1, 2), allow_syscall: rng.chance(1, 2) },
    };
    postcard::to_allocvec(&input).expect("input encodes")
}

fn b32(rng: &mut Rng) -> [u8; 32] {
    let mut b = [0u8; 32];
    for c in b.chunks_mut(8) {
        c.copy_from_slice(&rng.next().to_be_bytes());
    }
    b
}

fn events(rng: &mut Rng, h: u64) -> Vec<Event> {
    (0..rng.below(3))
        .map(|_| {
            if rng.chance(1, 2) {
                let m: Message = MessageV1 {
                    sender: Address::new(b32(rng)),
                    recipient: Address::new(b32(rng)),
                    nonce: Nonce::new(b32(rng)),
                    amount: rng.below(1000),
                    data: vec![7; rng.below(4) as usize],
                    da_height: h.into(),
                }
                .into();
                Event::Message(m)
            } else {
                let r: RelayedTransaction = RelayedTransactionV1 {
                    nonce: Nonce::new(b32(rng)),
                    max_gas: rng.below(100),
                    serialized_transaction: vec![9; rng.below(6) as usize],
                    da_height: h.into(),
                }
                .into();
                Event::Transaction(r)
            }
        })
        .collect()
}

pub fn valid_columns() -> Vec<u32> {
    (0u32..200).filter(|c| Column::try_from(*c).is_ok()).collect()
}

pub fn gen_case(rng: &mut Rng, long: bool) -> T {
    let vcols = valid_columns();
    let bad_col = (0u32..300).find(|c| !vcols.contains(c)).unwrap_or(9999);
    let has_src = rng.chance(5, 6);
    // batches: small mint lists; amounts < 128 keep the encoded size equal across batches
    let n_batches = rng.below(4);
    let same_size = rng.chance(1, 2);
    let batches: Vec<Vec<u8>> = (0..n_batches)
        .map(|i| {
            let k = if same_size { 1 } else { rng.below(3) };
            let txs: Vec<Transaction> = (0..k).map(|j| mint(if same_size { 1 + i + j } else { rng.below(100_000) }, rng.below(100))).collect();
            postcard::to_allocvec(&txs).expect("batch encodes")
        })
        .collect();
    let default_batch = postcard::to_allocvec(&Vec::<Transaction>::new()).unwrap();
    // storage rows
    let cols = [*rng.pick(&vcols), *rng.pick(&vcols)];
    let mut rows: Vec<(u32, Vec<u8>, u8, Vec<u8>)> = vec![];
    let with_err = rng.chance(1, 6);
    for i in 0..rng.range(2, 5) {
        let key: Vec<u8> = (0..*rng.pick(&[0u64, 1, 4, 32, 34])).map(|j| (i * 16 + j) as u8).collect();
        let col = cols[rng.below(2) as usize];
        let (tag, val): (u8, Vec<u8>) = match rng.below(8) {
            0 => (1, vec![]),
            1 if with_err => (0, vec![]),
            2 => (2, vec![]),
            3 => (2, vec![0xff]),
            4 => (2, (0..300u32).map(|x| (x % 251) as u8).collect()),
            _ => (2, (0..rng.range(1, 40)).map(|_| rng.below(256) as u8).collect()),
        };
        rows.push((col, key, tag, val));
    }
    // relayer rows
    let rel_enabled = rng.chance(1, 2);
    let mut rrows: Vec<(u64, Option<Vec<u8>>)> = vec![];
    for h in 1..=rng.below(4) {
        if rng.chance(1, 5) {
            rrows.push((h, None));
        } else if rng.chance(3, 4) {
            rrows.push((h, Some(postcard::to_allocvec(&events(rng, h)).unwrap())));
        }
    }
    let rel_default = postcard::to_allocvec(&Vec::<Event>::new()).unwrap();
    let input = input_bytes(rng);

    // ---- script
    let mut calls: Vec<Call> = vec![];
    let mut queue: Vec<usize> = batches.iter().map(|b| b.len()).collect(); // sizes still to come
    let next_size = |q: &mut Vec<usize>| -> usize { if q.is_empty() { default_batch.len() } else { q.remove(0) } };
    let n_steps = if long { rng.range(2, 8) } else { rng.range(1, 5) };
    let mut trapped = false;
    for _ in 0..n_steps {
        if trapped {
            break;
        }
        let row = rows[rng.below(rows.len() as u64) as usize].clone();
        match rng.below(22) {
            // shipped discipline
            0..=3 => {
                calls.push(Call::Size(row.0, row.1.clone()));
                if row.2 == 2 {
                    calls.push(Call::Get(row.0, row.1.clone(), row.3.len() as u32));
                }
            }
            4 => calls.push(Call::Size(row.0, vec![0xde, 0xad])), // absent key
            5..=6 => {
                let h = rng.range(1, 4);
                calls.push(Call::RelSize(h));
                if matches!(rrows.iter().find(|r| r.0 == h), Some((_, Some(_))) | None) {
                    calls.push(Call::RelGet(h));
                }
            }
            7 => calls.push(Call::RelEnabled),
            8..=10 => {
                let cnt = *rng.pick(&[0u32, 1, 100, 65535]);
                calls.push(Call::Peek(rng.below(1 << 40), cnt, rng.below(1 << 20) as u32));
                if has_src {
                    let s = next_size(&mut queue);
                    calls.push(Call::Consume(s as u32));
                }
            }
            11 => {
                calls.push(Call::PeekV0(rng.next()));
                if has_src {
                    let s = next_size(&mut queue);
                    calls.push(Call::Consume(s as u32));
                }
            }
            12 => calls.push(Call::Input(input.len() as u32)),
            // calls the shipped guest never makes
            13 => {
                // double peek, then both consumes
                calls.push(Call::Peek(1, 10, 10));
                calls.push(Call::Peek(2, 10, 10));
                if has_src {
                    let a = next_size(&mut queue);
                    let b = next_size(&mut queue);
                    calls.push(Call::Consume(*rng.pick(&[a, b]) as u32));
                    calls.push(Call::Consume(*rng.pick(&[a, b]) as u32));
                }
            }
            14 => calls.push(Call::Consume(*rng.pick(&[0u32, 1, 2, 50]))), // nothing pending / wrong size
            15 => {
                calls.push(Call::Peek(5, 65536 + rng.below(3) as u32, 7)); // count beyond u16
                trapped = has_src;
            }
            16 => {
                // wrong buffer length / value absent
                let n = match row.2 {
                    2 => row.3.len() as u32 + *rng.pick(&[1u32, 2, 100]),
                    _ => rng.below(3) as u32,
                };
                calls.push(Call::Get(row.0, row.1.clone(), n));
                trapped = row.2 != 0;
            }
            17 => {
                calls.push(Call::Get(row.0, vec![0xbe, 0xef], 0)); // get of an absent key
                trapped = true;
            }
            18 => {
                if rng.chance(1, 2) {
                    calls.push(Call::Size(bad_col, row.1.clone()));
                } else {
                    calls.push(Call::Get(bad_col, row.1.clone(), 0));
                }
                trapped = true;
            }
            19 => {
                calls.push(Call::RelGet(rng.range(5, 9))); // never sized
                trapped = true;
            }
            20 => {
                calls.push(Call::Input(input.len() as u32 + *rng.pick(&[1u32, 7])));
                trapped = true;
            }
            _ => {
                // get without a preceding size call but with the right length
                if row.2 == 2 {
                    calls.push(Call::Get(row.0, row.1.clone(), row.3.len() as u32));
                } else {
                    calls.push(Call::RelSize(0));
                }
            }
        }
    }
    let env = T::l(vec![
        T::b(has_src),
        T::bytes(&default_batch),
        T::l(batches.iter().map(|b| T::bytes(b)).collect()),
        T::l(rows
            .iter()
            .map(|(c, k, tag, v)| T::l(vec![T::n(*c), T::bytes(k), T::n(*tag), T::bytes(v)]))
            .collect()),
        T::list_n(&vcols),
        T::b(rel_enabled),
        T::l(rrows
            .iter()
            .map(|(h, b)| match b {
                None => T::l(vec![T::n(*h), T::n(0u8), T::l(vec![])]),
                Some(b) => T::l(vec![T::n(*h), T::n(1u8), T::bytes(b)]),
            })
            .collect()),
        T::bytes(&rel_default),
        T::bytes(&input),
    ]);
    T::l(vec![T::n(4u8), env, T::l(calls.iter().map(call_to_t).collect())])
}
