//! Shared pieces of the correspondence harnesses: the integer-tree exchange format `T`
//! (text syntax `(1 2 (3 -4) ())`), a splitmix64 PRNG from which every random choice is
//! derived, and the line protocol `gen` / `run`.
use std::fmt::Write as _;
use std::io::{BufRead, Write};

#[derive(Clone, Debug, PartialEq, Eq, Hash)]
pub enum T {
    I(i128),
    /// integers beyond i128 (u128 upper half) are carried as decimal strings
    Big(String),
    L(Vec<T>),
}

impl T {
    pub fn n<X: Into<u128>>(x: X) -> T {
        let v: u128 = x.into();
        if v <= i128::MAX as u128 {
            T::I(v as i128)
        } else {
            T::Big(v.to_string())
        }
    }
    pub fn i<X: Into<i128>>(x: X) -> T {
        T::I(x.into())
    }
    pub fn b(x: bool) -> T {
        T::I(if x { 1 } else { 0 })
    }
    pub fn l(v: Vec<T>) -> T {
        T::L(v)
    }
    pub fn opt<X: Into<u128>>(x: Option<X>) -> T {
        match x {
            None => T::L(vec![]),
            Some(v) => T::L(vec![T::n(v)]),
        }
    }
    pub fn list_n<X: Into<u128> + Copy>(xs: &[X]) -> T {
        T::L(xs.iter().map(|x| T::n(*x)).collect())
    }
    pub fn bytes(xs: &[u8]) -> T {
        T::L(xs.iter().map(|x| T::I(*x as i128)).collect())
    }
    pub fn as_i(&self) -> i128 {
        match self {
            T::I(v) => *v,
            _ => panic!("T: expected integer, got {self}"),
        }
    }
    pub fn as_u128(&self) -> u128 {
        match self {
            T::I(v) if *v >= 0 => *v as u128,
            T::Big(s) => s.parse().expect("T: bad big integer"),
            _ => panic!("T: expected natural, got {self}"),
        }
    }
    pub fn as_u64(&self) -> u64 {
        u64::try_from(self.as_u128()).expect("T: u64 out of range")
    }
    pub fn as_u32(&self) -> u32 {
        u32::try_from(self.as_u128()).expect("T: u32 out of range")
    }
    pub fn as_u16(&self) -> u16 {
        u16::try_from(self.as_u128()).expect("T: u16 out of range")
    }
    pub fn as_u8(&self) -> u8 {
        u8::try_from(self.as_u128()).expect("T: u8 out of range")
    }
    pub fn as_usize(&self) -> usize {
        usize::try_from(self.as_u128()).expect("T: usize out of range")
    }
    pub fn as_bool(&self) -> bool {
        self.as_i() != 0
    }
    pub fn as_l(&self) -> &[T] {
        match self {
            T::L(v) => v,
            _ => panic!("T: expected list, got {self}"),
        }
    }
    pub fn as_opt_u32(&self) -> Option<u32> {
        self.as_l().first().map(|x| x.as_u32())
    }
    pub fn as_opt_u64(&self) -> Option<u64> {
        self.as_l().first().map(|x| x.as_u64())
    }
    pub fn as_bytes(&self) -> Vec<u8> {
        self.as_l().iter().map(|x| x.as_u8()).collect()
    }
    pub fn parse(s: &str) -> Result<T, String> {
        let b = s.as_bytes();
        let mut pos = 0usize;
        let r = parse_item(b, &mut pos)?;
        skip_ws(b, &mut pos);
        if pos != b.len() {
            return Err(format!("trailing input at {pos}"));
        }
        Ok(r)
    }
}

fn skip_ws(b: &[u8], pos: &mut usize) {
    while *pos < b.len() && (b[*pos] == b' ' || b[*pos] == b'\t' || b[*pos] == b'\r') {
        *pos += 1;
    }
}

fn parse_item(b: &[u8], pos: &mut usize) -> Result<T, String> {
    skip_ws(b, pos);
    if *pos >= b.len() {
        return Err("unexpected end".into());
    }
    if b[*pos] == b'(' {
        *pos += 1;
        let mut items = vec![];
        loop {
            skip_ws(b, pos);
            if *pos >= b.len() {
                return Err("unclosed paren".into());
            }
            if b[*pos] == b')' {
                *pos += 1;
                return Ok(T::L(items));
            }
            items.push(parse_item(b, pos)?);
        }
    }
    let st = *pos;
    while *pos < b.len() && !matches!(b[*pos], b' ' | b'(' | b')' | b'\t') {
        *pos += 1;
    }
    let tok = std::str::from_utf8(&b[st..*pos]).map_err(|e| e.to_string())?;
    match tok.parse::<i128>() {
        Ok(v) => Ok(T::I(v)),
        Err(_) => {
            if !tok.is_empty() && tok.bytes().all(|c| c.is_ascii_digit()) {
                Ok(T::Big(tok.to_string()))
            } else {
                Err(format!("bad token {tok:?}"))
            }
        }
    }
}

impl std::fmt::Display for T {
    fn fmt(&self, f: &mut std::fmt::Formatter<'_>) -> std::fmt::Result {
        match self {
            T::I(v) => write!(f, "{v}"),
            T::Big(s) => write!(f, "{s}"),
            T::L(v) => {
                f.write_char('(')?;
                for (i, x) in v.iter().enumerate() {
                    if i > 0 {
                        f.write_char(' ')?;
                    }
                    write!(f, "{x}")?;
                }
                f.write_char(')')
            }
        }
    }
}

/// splitmix64: the single source of randomness of a harness run.
#[derive(Clone, Debug)]
pub struct Rng(pub u64);

impl Rng {
    pub fn new(seed: u64) -> Self {
        Rng(seed ^ 0x9E37_79B9_7F4A_7C15)
    }
    pub fn next(&mut self) -> u64 {
        self.0 = self.0.wrapping_add(0x9E37_79B9_7F4A_7C15);
        let mut z = self.0;
        z = (z ^ (z >> 30)).wrapping_mul(0xBF58_476D_1CE4_E5B9);
        z = (z ^ (z >> 27)).wrapping_mul(0x94D0_49BB_1331_11EB);
        z ^ (z >> 31)
    }
    /// uniform in 0..n (n > 0)
    pub fn below(&mut self, n: u64) -> u64 {
        self.next() % n
    }
    pub fn range(&mut self, lo: u64, hi_incl: u64) -> u64 {
        lo + self.below(hi_incl - lo + 1)
    }
    pub fn chance(&mut self, num: u64, den: u64) -> bool {
        self.below(den) < num
    }
    pub fn pick<'a, X>(&mut self, xs: &'a [X]) -> &'a X {
        &xs[self.below(xs.len() as u64) as usize]
    }
    pub fn fork(&mut self) -> Rng {
        Rng(self.next())
    }
}

/// Mark used for a panic caught in the implementation.
pub fn t_panic() -> T {
    T::L(vec![T::I(-777)])
}

/// Run `f` catching panics; a panic is an observation `(-777)`.
pub fn catch<F: FnOnce() -> T + std::panic::UnwindSafe>(f: F) -> T {
    match std::panic::catch_unwind(f) {
        Ok(t) => t,
        Err(_) => t_panic(),
    }
}

pub struct Args {
    pub mode: String,
    pub prop: String,
    pub seed: u64,
    pub n: u64,
    pub tier: String,
}

pub fn parse_args() -> Args {
    let a: Vec<String> = std::env::args().collect();
    let mut args = Args {
        mode: a.get(1).cloned().unwrap_or_default(),
        prop: a.get(2).cloned().unwrap_or_default(),
        seed: 1,
        n: 100,
        tier: "quick".into(),
    };
    let mut i = 3;
    while i + 1 < a.len() {
        match a[i].as_str() {
            "--seed" => args.seed = a[i + 1].parse().expect("seed"),
            "--n" => args.n = a[i + 1].parse().expect("n"),
            "--tier" => args.tier = a[i + 1].clone(),
            x => panic!("unknown arg {x}"),
        }
        i += 2;
    }
    args
}

/// The line protocol shared by all harness binaries.
///   `<bin> gen <PROP> --seed S --n N --tier T`  prints one input per line
///   `<bin> run <PROP>`  reads inputs from stdin, prints `input \t observed` per line
/// `gen(prop, rng, n, tier)` returns the inputs; `run(prop, input)` the observation.
pub fn main_protocol(
    gen: impl Fn(&str, &mut Rng, u64, &str) -> Vec<T>,
    run: impl Fn(&str, &T) -> T,
) {
    let args = parse_args();
    if std::env::var_os("VERIF_SHOW_PANIC").is_none() {
        std::panic::set_hook(Box::new(|_| {}));
    }
    let out = std::io::stdout();
    let mut out = std::io::BufWriter::new(out.lock());
    match args.mode.as_str() {
        "gen" => {
            let mut rng = Rng::new(args.seed);
            for t in gen(&args.prop, &mut rng, args.n, &args.tier) {
                writeln!(out, "{t}").unwrap();
            }
        }
        "run" => {
            let stdin = std::io::stdin();
            for line in stdin.lock().lines() {
                let line = line.unwrap();
                let line = line.trim();
                if line.is_empty() {
                    continue;
                }
                match T::parse(line) {
                    Ok(input) => {
                        let obs = run(&args.prop, &input);
                        writeln!(out, "{input}\t{obs}").unwrap();
                    }
                    Err(e) => {
                        writeln!(out, "{line}\t(-776) ; unparsable input: {e}").unwrap();
                    }
                }
            }
        }
        m => panic!("unknown mode {m:?} (gen|run)"),
    }
    out.flush().unwrap();
}
