//! Mock ports: persistent storage (coins, messages, contracts, blobs, committed tx ids) and a
//! status manager that records every call.
use fuel_core_storage::{
    Mappable, PredicateStorageRequirements, Result as StorageResult, StorageInspect, StorageRead,
    StorageReadError, StorageSize,
};
use fuel_core_txpool::ports::{AtomicView, TxPoolPersistentStorage, TxStatusManager};
use fuel_core_types::{
    entities::{coins::coin::CompressedCoin, relayer::message::Message},
    fuel_tx::{BlobId, ContractId, TxId, UtxoId},
    fuel_types::Nonce,
    fuel_vm::BlobData,
    services::transaction_status::{statuses, PreConfirmationStatus, TransactionStatus},
};
use std::{
    borrow::Cow,
    collections::{HashMap, HashSet},
    sync::{Arc, Mutex},
};
use tokio::sync::broadcast;

#[derive(Default)]
pub struct Data {
    pub coins: HashMap<UtxoId, CompressedCoin>,
    pub contracts: HashSet<ContractId>,
    pub blobs: HashSet<BlobId>,
    pub messages: HashMap<Nonce, Message>,
    pub transactions: HashSet<TxId>,
}

#[derive(Clone, Default)]
pub struct MockDb {
    pub data: Arc<Mutex<Data>>,
}

impl TxPoolPersistentStorage for MockDb {
    fn contains_tx(&self, tx_id: &TxId) -> StorageResult<bool> {
        Ok(self.data.lock().unwrap().transactions.contains(tx_id))
    }
    fn utxo(&self, utxo_id: &UtxoId) -> StorageResult<Option<CompressedCoin>> {
        Ok(self.data.lock().unwrap().coins.get(utxo_id).cloned())
    }
    fn contract_exist(&self, contract_id: &ContractId) -> StorageResult<bool> {
        Ok(self.data.lock().unwrap().contracts.contains(contract_id))
    }
    fn blob_exist(&self, blob_id: &BlobId) -> StorageResult<bool> {
        Ok(self.data.lock().unwrap().blobs.contains(blob_id))
    }
    fn message(&self, id: &Nonce) -> StorageResult<Option<Message>> {
        Ok(self.data.lock().unwrap().messages.get(id).cloned())
    }
}

impl StorageRead<BlobData> for MockDb {
    fn read_exact(
        &self,
        _key: &<BlobData as Mappable>::Key,
        _offset: usize,
        _buf: &mut [u8],
    ) -> Result<core::result::Result<usize, StorageReadError>, ()> {
        Ok(Err(StorageReadError::KeyNotFound))
    }
    fn read_zerofill(
        &self,
        _key: &<BlobData as Mappable>::Key,
        _offset: usize,
        _buf: &mut [u8],
    ) -> Result<core::result::Result<usize, StorageReadError>, ()> {
        Ok(Err(StorageReadError::KeyNotFound))
    }
    fn read_alloc(&self, _key: &<BlobData as Mappable>::Key) -> Result<Option<Vec<u8>>, Self::Error> {
        Ok(None)
    }
}

impl StorageInspect<BlobData> for MockDb {
    type Error = ();
    fn get(
        &self,
        _key: &<BlobData as Mappable>::Key,
    ) -> Result<Option<Cow<'_, <BlobData as Mappable>::OwnedValue>>, Self::Error> {
        Ok(None)
    }
    fn contains_key(&self, _key: &<BlobData as Mappable>::Key) -> Result<bool, Self::Error> {
        Ok(false)
    }
}

impl StorageSize<BlobData> for MockDb {
    fn size_of_value(&self, _key: &<BlobData as Mappable>::Key) -> Result<Option<usize>, Self::Error> {
        Ok(None)
    }
}

impl PredicateStorageRequirements for MockDb {
    fn storage_error_to_string(error: Self::Error) -> String {
        format!("{:?}", error)
    }
}

#[derive(Clone)]
pub struct MockDbProvider(pub MockDb);

impl AtomicView for MockDbProvider {
    type LatestView = MockDb;
    fn latest_view(&self) -> StorageResult<Self::LatestView> {
        Ok(self.0.clone())
    }
}

pub enum Event {
    Submitted(TxId),
    Other(TxId),
    /// one `squeezed_out_txs` call: (tx id, reason text)
    Squeezed(Vec<(TxId, String)>),
}

pub struct RecordingStatusManager {
    pub events: Mutex<Vec<Event>>,
    sender: broadcast::Sender<(TxId, PreConfirmationStatus)>,
}

impl Default for RecordingStatusManager {
    fn default() -> Self {
        let (sender, _) = broadcast::channel(16);
        Self {
            events: Mutex::new(vec![]),
            sender,
        }
    }
}

impl RecordingStatusManager {
    pub fn take(&self) -> Vec<Event> {
        std::mem::take(&mut *self.events.lock().unwrap())
    }
}

impl TxStatusManager for RecordingStatusManager {
    fn status_update(&self, tx_id: TxId, tx_status: TransactionStatus) {
        let e = match tx_status {
            TransactionStatus::Submitted(_) => Event::Submitted(tx_id),
            _ => Event::Other(tx_id),
        };
        self.events.lock().unwrap().push(e);
    }

    fn preconfirmations_update_listener(&self) -> broadcast::Receiver<(TxId, PreConfirmationStatus)> {
        self.sender.subscribe()
    }

    fn squeezed_out_txs(&self, statuses: Vec<(TxId, statuses::SqueezedOut)>) {
        let batch = statuses
            .into_iter()
            .map(|(id, s)| (id, s.reason().to_string()))
            .collect();
        self.events.lock().unwrap().push(Event::Squeezed(batch));
    }
}
