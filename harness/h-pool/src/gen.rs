//! Generator of pool histories: a small universe (few coins, messages, contracts, blobs,
//! owners, amounts) so that dependencies, collisions, replacements, limits, LRU overflow,
//! stale heights and rollbacks all occur.
use vcommon::{Rng, T};

struct Tx {
    id: u64,
    ins: Vec<T>,
    outs: Vec<T>,
    blob: Option<u64>,
    tip: u64,
    gas: u64,
    price: u64,
    size: u64,
}

impl Tx {
    fn t(&self) -> T {
        T::l(vec![
            T::n(self.id),
            T::l(self.ins.clone()),
            T::l(self.outs.clone()),
            T::opt(self.blob),
            T::n(self.tip),
            T::n(self.gas),
            T::n(self.price),
            T::n(self.size),
        ])
    }
    /// number of keys the spent-inputs cache records for this transaction
    fn nkeys(&self) -> u64 {
        1 + self.ins.iter().filter(|i| i.as_l()[0].as_i() != 2).count() as u64
    }
    fn created(&self) -> Vec<u64> {
        self.outs
            .iter()
            .filter(|o| o.as_l()[0].as_i() == 4)
            .map(|o| o.as_l()[1].as_u64())
            .collect()
    }
    /// does `self` (statically) spend an output / use a contract created by `p`?
    fn depends_on(&self, p: &Tx) -> bool {
        self.ins.iter().any(|i| {
            let l = i.as_l();
            match l[0].as_i() {
                0 => l[1].as_l()[0].as_u64() == p.id,
                2 => p.created().contains(&l[1].as_u64()),
                _ => false,
            }
        })
    }
}

const DB_COINS: u64 = 10;

fn db_coin(k: u64) -> (u64, u64, u64, u64, u64) {
    // (tx id, index, owner, amount, asset)
    (100 + k, k % 2, 1 + k % 2, 10 * (1 + k % 3), 1)
}

fn coin_input(rng: &mut Rng, txid: u64, idx: u64, owner: u64, amount: u64, asset: u64) -> T {
    // rarely disagree with the spent output
    let (owner, amount, asset) = match rng.below(90) {
        0 => (owner + 1, amount, asset),
        1 => (owner, amount + 1, asset),
        2 => (owner, amount, asset + 1),
        _ => (owner, amount, asset),
    };
    T::l(vec![
        T::i(0),
        T::l(vec![T::n(txid), T::n(idx)]),
        T::n(owner),
        T::n(amount),
        T::n(asset),
    ])
}

fn gen_tx(rng: &mut Rng, id: u64, earlier: &[Tx]) -> Tx {
    // replacement: same inputs as an earlier transaction, usually a better tip
    if !earlier.is_empty() && rng.chance(1, 6) {
        let e = rng.pick(earlier);
        return Tx {
            id,
            ins: e.ins.clone(),
            outs: e.outs.clone(),
            blob: e.blob,
            tip: if rng.chance(3, 4) { e.tip * 3 + rng.range(1, 9) } else { e.tip },
            gas: e.gas.max(1),
            price: rng.below(4),
            size: rng.range(1, 10),
        };
    }
    let mut ins = vec![];
    let n_in = rng.range(1, 3);
    for k in 0..n_in {
        // the first input of every second transaction spends an output of a recent transaction
        let want_parent = !earlier.is_empty() && (rng.below(100) < 38 || (k == 0 && rng.chance(1, 4)));
        if want_parent {
            let lo = earlier.len().saturating_sub(4);
            let e = &earlier[rng.range(lo as u64, earlier.len() as u64 - 1) as usize];
            let coin_outs: Vec<usize> = e
                .outs
                .iter()
                .enumerate()
                .filter(|(_, o)| o.as_l()[0].as_i() == 0)
                .map(|(i, _)| i)
                .collect();
            if e.outs.is_empty() {
                let (t, i, o, a, s) = db_coin(rng.below(DB_COINS));
                ins.push(coin_input(rng, t, i, o, a, s));
            } else {
                // mostly a coin output; sometimes a change / variable / contract output
                let idx = if !coin_outs.is_empty() && !rng.chance(1, 10) {
                    *rng.pick(&coin_outs) as u64
                } else {
                    rng.below(e.outs.len() as u64)
                };
                let out = e.outs[idx as usize].as_l();
                let (o, a, s) = if out.len() == 4 {
                    (out[1].as_u64(), out[2].as_u64(), out[3].as_u64())
                } else {
                    (1, 10, 1)
                };
                ins.push(coin_input(rng, e.id, idx, o, a, s));
            }
            continue;
        }
        match rng.below(100) {
            0..=69 => {
                let (t, i, o, a, s) = db_coin(rng.below(DB_COINS));
                ins.push(coin_input(rng, t, i, o, a, s));
            }
            70..=79 => {
                let nonce = if rng.chance(1, 8) { 3 } else { rng.range(1, 2) };
                let amount: u64 = if rng.chance(1, 12) { 6 } else { 5 };
                ins.push(T::l(vec![T::i(1), T::n(nonce), T::n(amount)]));
            }
            80..=96 => {
                let cid = if rng.chance(1, 3) { rng.range(3, 5) } else { rng.range(1, 2) };
                ins.push(T::l(vec![T::i(2), T::n(cid)]));
            }
            _ => ins.push(coin_input(rng, 999, 0, 1, 10, 1)),
        }
    }
    // fuel-tx validity: no duplicated coin / message / contract input
    let mut uniq: Vec<T> = vec![];
    for i in ins {
        let key = |x: &T| {
            let l = x.as_l();
            T::l(vec![l[0].clone(), l[1].clone()])
        };
        if !uniq.iter().any(|u| key(u) == key(&i)) {
            uniq.push(i);
        }
    }
    let ins = uniq;
    let mut outs: Vec<T> = vec![];
    let n_out = if rng.chance(1, 6) { 0 } else { rng.range(1, 3) };
    for _ in 0..n_out {
        let oas = |rng: &mut Rng, k: i128| {
            T::l(vec![T::i(k), T::n(rng.range(1, 2)), T::n(10 * rng.range(1, 2)), T::n(1u64)])
        };
        outs.push(match rng.below(20) {
            0..=12 => oas(rng, 0),
            13 | 14 => oas(rng, 1),
            15 => oas(rng, 2),
            16 => T::l(vec![T::i(3)]),
            _ => {
                let c = T::l(vec![T::i(4), T::n(rng.range(3, 5))]);
                if outs.contains(&c) { T::l(vec![T::i(3)]) } else { c }
            }
        });
    }
    Tx {
        id,
        ins,
        outs,
        blob: if rng.chance(1, 10) { Some(if rng.chance(1, 8) { 3 } else { rng.range(1, 2) }) } else { None },
        tip: rng.below(21),
        gas: if rng.chance(1, 60) { 0 } else { rng.range(1, 10) },
        price: rng.below(4),
        size: rng.range(1, 10),
    }
}

fn ancestors_closed(table: &[Tx], a: usize, b: usize) -> bool {
    // is table[a] a static ancestor of table[b] ?
    let mut work = vec![b];
    let mut seen = vec![];
    while let Some(x) = work.pop() {
        if seen.contains(&x) {
            continue;
        }
        seen.push(x);
        for (i, p) in table.iter().enumerate() {
            if i != x && table[x].depends_on(p) {
                if i == a {
                    return true;
                }
                work.push(i);
            }
        }
    }
    false
}

fn gen_case(rng: &mut Rng, long: bool) -> T {
    let max_txs = rng.range(3, 8);
    let h0 = rng.below(3);
    let mut canon = h0;
    let cfg = T::l(vec![
        T::n(max_txs),
        T::n(if rng.chance(1, 3) { rng.range(15, 40) } else { rng.range(40, 200) }),
        T::n(if rng.chance(1, 3) { rng.range(15, 40) } else { rng.range(40, 200) }),
        T::n(rng.range(2, 4)),
        T::b(!rng.chance(1, 25)),
        T::n(h0),
    ]);
    let db = T::l(vec![
        T::l((0..DB_COINS)
            .map(|k| {
                let (t, i, o, a, s) = db_coin(k);
                T::l(vec![T::l(vec![T::n(t), T::n(i)]), T::l(vec![T::n(o), T::n(a), T::n(s)])])
            })
            .collect()),
        T::l(vec![T::l(vec![T::n(1u64), T::n(5u64)]), T::l(vec![T::n(2u64), T::n(5u64)])]),
        T::list_n(&[1u64, 2]),
        T::list_n(&[3u64]),
        T::list_n(&[50u64]),
    ]);
    let n_tx = rng.range(5, if long { 18 } else { 13 });
    let mut table: Vec<Tx> = vec![];
    for k in 0..n_tx {
        // id 50 is already committed in the database
        let id = if rng.chance(1, 60) { 50 } else { 1 + k };
        if table.iter().any(|t| t.id == id) {
            continue;
        }
        let t = gen_tx(rng, id, &table);
        table.push(t);
    }
    let n_ops = rng.range(8, if long { 50 } else { 32 });
    let mut ops = vec![];
    let mut height = h0 + 1;
    let mut next_insert = 0usize;
    let mut touched: Vec<u64> = vec![];
    // ids already included in a block or preconfirmed: a transaction is only committed after its parents
    let mut committed: Vec<u64> = vec![];
    // (height, id) of preconfirmations not yet reconciled with a block
    let mut tentative: Vec<(u64, u64)> = vec![];
    for _ in 0..n_ops {
        match rng.below(100) {
            0..=54 => {
                let idx = if next_insert < table.len() && rng.chance(3, 4) {
                    next_insert += 1;
                    next_insert - 1
                } else {
                    rng.below(table.len() as u64) as usize
                };
                touched.push(table[idx].id);
                ops.push(T::l(vec![T::i(0), T::n(idx as u64)]));
            }
            55..=66 => {
                let zero = rng.below(12);
                let ex: Vec<u64> = if rng.chance(1, 4) { vec![rng.range(1, 5)] } else { vec![] };
                ops.push(T::l(vec![
                    T::i(1),
                    T::n(if rng.chance(1, 4) { rng.range(1, 3) } else { 0 }),
                    T::n(if zero == 0 { 0 } else if rng.chance(1, 2) { rng.range(1, 15) } else { 1000 }),
                    T::n(if zero == 1 { 0 } else if rng.chance(1, 2) { rng.range(1, 3) } else { 100 }),
                    T::n(if zero == 2 { 0 } else if rng.chance(1, 3) { rng.range(1, 15) } else { 1000 }),
                    T::list_n(&ex),
                ]));
            }
            67..=79 => {
                // block: ids among the touched transactions (plus an unknown one), never a
                // transaction together with one of its static descendants, and few enough
                // keys for the iteration order to stay visible in the LRU
                let h = match rng.below(6) {
                    0 => height.saturating_sub(1),
                    1 => height + 2,
                    _ => height,
                };
                if h >= height {
                    height = h + 1;
                }
                let mut ids: Vec<u64> = vec![];
                let mut budget = max_txs + 1;
                let want = rng.range(0, 3);
                for _ in 0..want {
                    let id = if touched.is_empty() || rng.chance(1, 8) {
                        900 + rng.below(3)
                    } else {
                        *rng.pick(&touched)
                    };
                    let pos = table.iter().position(|t| t.id == id);
                    let cost = pos.map(|p| table[p].nkeys()).unwrap_or(1);
                    let clash = ids.iter().any(|j| {
                        match (pos, table.iter().position(|t| t.id == *j)) {
                            (Some(a), Some(b)) => {
                                ancestors_closed(&table, a, b) || ancestors_closed(&table, b, a)
                            }
                            _ => false,
                        }
                    });
                    let orphan = pos
                        .map(|a| {
                            table.iter().any(|p| {
                                p.id != id
                                    && table[a].depends_on(p)
                                    && (!committed.contains(&p.id)
                                        // a parent that is only preconfirmed would be rolled back by this block
                                        || tentative.iter().any(|(ph, pid)| *pid == p.id && *ph <= h))
                            })
                        })
                        .unwrap_or(false);
                    if !ids.contains(&id) && !clash && !orphan && cost <= budget {
                        budget -= cost;
                        ids.push(id);
                    }
                }
                // usually the database applies the block's transactions first
                if rng.chance(3, 4) {
                    for id in &ids {
                        if let Some(p) = table.iter().position(|t| t.id == *id) {
                            ops.push(T::l(vec![T::i(5), T::n(p as u64)]));
                        }
                    }
                }
                // preconfirmations up to this height that the block omits are rolled back
                for (ph, pid) in tentative.clone() {
                    if ph <= h && !ids.contains(&pid) {
                        committed.retain(|c| *c != pid);
                    }
                }
                tentative.retain(|(ph, _)| *ph > h);
                committed.extend(ids.iter().copied());
                canon = canon.max(h);
                ops.push(T::l(vec![T::i(2), T::n(h), T::list_n(&ids)]));
            }
            80..=92 => {
                let t = rng.pick(&table);
                let id = if rng.chance(1, 10) { 900 + rng.below(3) } else { t.id };
                let orphan = id == t.id
                    && table.iter().any(|p| p.id != id && t.depends_on(p) && !committed.contains(&p.id));
                let kind = match rng.below(10) {
                    _ if orphan => 2,
                    0..=5 => 0,
                    6 | 7 => 1,
                    _ => 2,
                };
                let h = match rng.below(5) {
                    0 => height.saturating_sub(1),
                    1 => height + 1,
                    _ => height,
                };
                if kind != 2 && h > canon {
                    committed.push(id);
                    tentative.push((h, id));
                }
                let outs = if rng.chance(1, 2) {
                    T::l(vec![])
                } else {
                    T::l(vec![T::l(
                        t.outs
                            .iter()
                            .enumerate()
                            .map(|(i, o)| T::l(vec![T::l(vec![T::n(id), T::n(i as u64)]), o.clone()]))
                            .collect(),
                    )])
                };
                touched.push(id);
                ops.push(T::l(vec![T::i(3), T::n(id), T::i(kind), T::n(h), outs]));
            }
            93..=96 => {
                let n = rng.range(1, 2);
                let ids: Vec<u64> = (0..n).map(|_| rng.pick(&table).id).collect();
                ops.push(T::l(vec![T::i(4), T::list_n(&ids)]));
            }
            _ => {
                ops.push(T::l(vec![T::i(5), T::n(rng.below(table.len() as u64))]));
            }
        }
    }
    T::l(vec![cfg, db, T::l(table.iter().map(|t| t.t()).collect()), T::l(ops)])
}

/// Directed family: one independent transaction colliding with TWO pooled transactions whose
/// subtrees have different gas, for every small (tip, gas) combination: the newcomer must be
/// strictly better (tip per gas) than EACH of them, whatever their absolute tips are.
fn multi_collision_cases() -> Vec<T> {
    let exact = |txid: u64, idx: u64, owner: u64, amount: u64, asset: u64| {
        T::l(vec![T::i(0), T::l(vec![T::n(txid), T::n(idx)]), T::n(owner), T::n(amount), T::n(asset)])
    };
    let db_in = |k: u64| {
        let (t, i, o, a, s) = db_coin(k);
        exact(t, i, o, a, s)
    };
    let cfg = T::l(vec![T::n(8u64), T::n(200u64), T::n(200u64), T::n(3u64), T::b(true), T::n(0u64)]);
    let db = T::l(vec![
        T::l((0..DB_COINS)
            .map(|k| {
                let (t, i, o, a, s) = db_coin(k);
                T::l(vec![T::l(vec![T::n(t), T::n(i)]), T::l(vec![T::n(o), T::n(a), T::n(s)])])
            })
            .collect()),
        T::l(vec![T::l(vec![T::n(1u64), T::n(5u64)]), T::l(vec![T::n(2u64), T::n(5u64)])]),
        T::list_n(&[1u64, 2]),
        T::list_n(&[3u64]),
        T::list_n(&[50u64]),
    ]);
    let mut cases = vec![];
    let shapes: [(u64, u64); 4] = [(20, 10), (10, 1), (3, 2), (9, 9)];
    for (ta, ga) in shapes {
        for (tb, gb) in shapes {
            for (tc, gc) in [(5u64, 1u64), (15, 10), (10, 9), (4, 2), (2, 1), (11, 1)] {
                let mk = |id: u64, ins: Vec<T>, tip: u64, gas: u64| Tx { id, ins, outs: vec![], blob: None, tip, gas, price: 1, size: 1 };
                let table = vec![
                    mk(1, vec![db_in(0)], ta, ga),
                    mk(2, vec![db_in(1)], tb, gb),
                    mk(3, vec![db_in(0), db_in(1)], tc, gc),
                ];
                let ops = vec![
                    T::l(vec![T::i(0), T::n(0u64)]),
                    T::l(vec![T::i(0), T::n(1u64)]),
                    T::l(vec![T::i(0), T::n(2u64)]),
                ];
                cases.push(T::l(vec![cfg.clone(), db.clone(), T::l(table.iter().map(|t| t.t()).collect()), T::l(ops)]));
            }
        }
    }
    cases
}

pub fn gen(_prop: &str, rng: &mut Rng, n: u64, tier: &str) -> Vec<T> {
    let mut cases = multi_collision_cases();
    cases.extend((0..n).map(|_| gen_case(rng, tier == "thorough")));
    cases
}
