//! Correspondence harness for the transaction pool cluster (C16..C21): drives the real
//! `PoolWorker` / `Pool<GraphStorage, _, BasicCollisionManager, RatioTipGasSelection, _>` of
//! fuel-core-txpool (through the `verif` hooks) with generated operation sequences and prints,
//! after every operation, the result, the status-manager calls and a canonical dump of every
//! component of the pool.
mod gen;
mod mock;

use fuel_core_txpool::{
    config::{BlackList, Config, HeavyWorkConfig, PoolLimits, ServiceChannelLimits},
    error::{CollisionReason, DependencyError, Error, InputValidationError},
    verif_hooks::{VerifDump, VerifInputKey, VerifInsertResult, VerifWorker},
    Constraints,
};
use fuel_core_types::{
    blockchain::{block::Block, consensus::Sealed},
    entities::{
        coins::coin::{CompressedCoin, CompressedCoinV1},
        relayer::message::{Message, MessageV1},
    },
    fuel_tx::{
        field::{BlobId as _, Inputs, Outputs, Tip},
        Address, AssetId, BlobBody, BlobId, BlobIdExt, ConsensusParameters, ContractId, Finalizable, GasCosts,
        Input, Output, TransactionBuilder, TxId, TxPointer, UtxoId,
    },
    fuel_types::{BlockHeight, Nonce},
    fuel_vm::checked_transaction::IntoChecked,
    services::{
        block_importer::ImportResult,
        executor::{TransactionExecutionResult, TransactionExecutionStatus},
        transaction_status::{statuses, PreConfirmationStatus},
        txpool::{ArcPoolTx, Metadata, PoolTransaction},
    },
};
use mock::{Event, MockDb, MockDbProvider, RecordingStatusManager};
use std::{cmp::Ordering, sync::Arc, time::Duration, time::SystemTime};
use vcommon::{catch, Rng, T};

// ---------- identifiers: every id of the model is a small integer embedded in 32 bytes ----------

fn b32(n: u64) -> [u8; 32] {
    let mut b = [0u8; 32];
    b[24..].copy_from_slice(&n.to_be_bytes());
    b
}
fn un32(b: &[u8]) -> u64 {
    assert!(b[..24].iter().all(|x| *x == 0), "foreign 32-byte id");
    u64::from_be_bytes(b[24..32].try_into().unwrap())
}
fn txid(n: u64) -> TxId {
    b32(n).into()
}
fn utxo(t: &T) -> UtxoId {
    let l = t.as_l();
    UtxoId::new(txid(l[0].as_u64()), l[1].as_u16())
}
fn utxo_t(u: &UtxoId) -> T {
    T::l(vec![T::n(un32(u.tx_id().as_ref())), T::n(u.output_index())])
}

// ---------- total order on T (same as T_cmp of the model) ----------

fn t_cmp(a: &T, b: &T) -> Ordering {
    match (a, b) {
        (T::L(x), T::L(y)) => {
            for (p, q) in x.iter().zip(y.iter()) {
                let c = t_cmp(p, q);
                if c != Ordering::Equal {
                    return c;
                }
            }
            x.len().cmp(&y.len())
        }
        (T::L(_), _) => Ordering::Greater,
        (_, T::L(_)) => Ordering::Less,
        (x, y) => x.as_u128().cmp(&y.as_u128()),
    }
}
fn sorted(mut v: Vec<T>) -> T {
    v.sort_by(t_cmp);
    T::l(v)
}

// ---------- building the real transactions ----------

fn input_of(t: &T) -> Input {
    let l = t.as_l();
    match l[0].as_i() {
        0 => Input::coin_signed(
            utxo(&l[1]),
            Address::from(b32(l[2].as_u64())),
            l[3].as_u64(),
            AssetId::from(b32(l[4].as_u64())),
            TxPointer::default(),
            0,
        ),
        1 => Input::message_coin_signed(
            Address::default(),
            Address::default(),
            l[2].as_u64(),
            Nonce::from(b32(l[1].as_u64())),
            0,
        ),
        2 => Input::contract(
            UtxoId::new(txid(0), 0),
            Default::default(),
            Default::default(),
            TxPointer::default(),
            ContractId::from(b32(l[1].as_u64())),
        ),
        k => panic!("bad input kind {k}"),
    }
}

fn output_of(t: &T) -> Output {
    let l = t.as_l();
    let oas = |l: &[T]| {
        (
            Address::from(b32(l[1].as_u64())),
            l[2].as_u64(),
            AssetId::from(b32(l[3].as_u64())),
        )
    };
    match l[0].as_i() {
        0 => {
            let (o, a, s) = oas(l);
            Output::coin(o, a, s)
        }
        1 => {
            let (o, a, s) = oas(l);
            Output::change(o, a, s)
        }
        2 => {
            let (o, a, s) = oas(l);
            Output::variable(o, a, s)
        }
        3 => Output::contract(0, Default::default(), Default::default()),
        4 => Output::contract_created(ContractId::from(b32(l[1].as_u64())), Default::default()),
        k => panic!("bad output kind {k}"),
    }
}

fn params() -> ConsensusParameters {
    let mut p = ConsensusParameters::standard();
    p.set_gas_costs(GasCosts::free());
    p
}

/// A real `PoolTransaction` with the inputs, outputs, tip, blob id of the table entry and the
/// id / max gas / max gas price / size given through the pool metadata.  The `Checked`
/// wrapper is obtained from a minimal valid transaction whose inputs and outputs are then
/// replaced (test-helpers `AsMut`), so that the pool logic sees exactly the generated shape.
fn build_tx(t: &T) -> ArcPoolTx {
    let l = t.as_l();
    let id = l[0].as_u64();
    let inputs: Vec<Input> = l[1].as_l().iter().map(input_of).collect();
    let outputs: Vec<Output> = l[2].as_l().iter().map(output_of).collect();
    let blob = l[3].as_opt_u64();
    let tip = l[4].as_u64();
    let gas = l[5].as_u64();
    let price = l[6].as_u64();
    let size = l[7].as_usize();
    let meta = Metadata::new_verif(0, size, price, gas, txid(id));
    let cp = params();
    let dummy = Input::coin_signed(
        UtxoId::new(txid(0), 0),
        Address::default(),
        10_000,
        AssetId::BASE,
        TxPointer::default(),
        0,
    );
    let tx = match blob {
        None => {
            let mut b = TransactionBuilder::script(vec![], vec![]);
            b.with_params(cp.clone());
            b.add_input(dummy);
            b.add_witness(Default::default());
            let mut checked = b
                .finalize()
                .into_checked_basic(0u32.into(), &cp)
                .expect("minimal script is valid");
            let raw = checked.as_mut();
            *raw.inputs_mut() = inputs;
            *raw.outputs_mut() = outputs;
            raw.set_tip(tip);
            PoolTransaction::Script(checked, meta)
        }
        Some(bid) => {
            let data = vec![1u8, 2, 3];
            let mut b = TransactionBuilder::blob(BlobBody {
                id: BlobId::compute(&data),
                witness_index: 0,
            });
            b.with_params(cp.clone());
            b.add_witness(data.into());
            b.add_input(Input::coin_signed(
                UtxoId::new(txid(0), 0),
                Address::default(),
                10_000,
                AssetId::BASE,
                TxPointer::default(),
                1,
            ));
            b.add_witness(Default::default());
            b.max_fee_limit(0);
            let mut checked = b
                .finalize()
                .into_checked_basic(0u32.into(), &cp)
                .expect("minimal blob is valid");
            let raw = checked.as_mut();
            *raw.inputs_mut() = inputs;
            *raw.outputs_mut() = outputs;
            raw.set_tip(tip);
            *raw.blob_id_mut() = BlobId::from(b32(bid));
            PoolTransaction::Blob(checked, meta)
        }
    };
    Arc::new(tx)
}

fn build_db(t: &T) -> MockDb {
    let db = MockDb::default();
    {
        let l = t.as_l();
        let mut d = db.data.lock().unwrap();
        for c in l[0].as_l() {
            let e = c.as_l();
            let v = e[1].as_l();
            d.coins.insert(utxo(&e[0]), coin(v[0].as_u64(), v[1].as_u64(), v[2].as_u64()));
        }
        for m in l[1].as_l() {
            let e = m.as_l();
            d.messages.insert(Nonce::from(b32(e[0].as_u64())), message(e[0].as_u64(), e[1].as_u64()));
        }
        for c in l[2].as_l() {
            d.contracts.insert(ContractId::from(b32(c.as_u64())));
        }
        for b in l[3].as_l() {
            d.blobs.insert(BlobId::from(b32(b.as_u64())));
        }
        for x in l[4].as_l() {
            d.transactions.insert(txid(x.as_u64()));
        }
    }
    db
}

fn coin(owner: u64, amount: u64, asset: u64) -> CompressedCoin {
    CompressedCoin::V1(CompressedCoinV1 {
        owner: Address::from(b32(owner)),
        amount,
        asset_id: AssetId::from(b32(asset)),
        tx_pointer: Default::default(),
    })
}
fn message(nonce: u64, amount: u64) -> Message {
    Message::V1(MessageV1 {
        sender: Address::default(),
        recipient: Address::default(),
        nonce: Nonce::from(b32(nonce)),
        amount,
        data: vec![],
        da_height: Default::default(),
    })
}

/// The mock database applying a transaction of the table (operation 5).
fn db_apply(db: &MockDb, t: &T) {
    let l = t.as_l();
    let id = l[0].as_u64();
    let mut d = db.data.lock().unwrap();
    for i in l[1].as_l() {
        let e = i.as_l();
        match e[0].as_i() {
            0 => {
                d.coins.remove(&utxo(&e[1]));
            }
            1 => {
                d.messages.remove(&Nonce::from(b32(e[1].as_u64())));
            }
            _ => {}
        }
    }
    for (idx, o) in l[2].as_l().iter().enumerate() {
        let e = o.as_l();
        match e[0].as_i() {
            0 => {
                d.coins.insert(
                    UtxoId::new(txid(id), idx as u16),
                    coin(e[1].as_u64(), e[2].as_u64(), e[3].as_u64()),
                );
            }
            4 => {
                d.contracts.insert(ContractId::from(b32(e[1].as_u64())));
            }
            _ => {}
        }
    }
    if let Some(b) = l[3].as_opt_u64() {
        d.blobs.insert(BlobId::from(b32(b)));
    }
    d.transactions.insert(txid(id));
}

// ---------- observation ----------

fn error_code(e: &Error) -> u64 {
    use InputValidationError as V;
    match e {
        Error::InputValidation(v) => match v {
            V::DuplicateTxId(_) => 1,
            V::MaxGasZero => 2,
            V::NotInsertedBlobIdAlreadyTaken(_) => 4,
            V::NotInsertedIoCoinMismatch => 7,
            V::NotInsertedIoMessageMismatch => 8,
            V::NotInsertedInputMessageUnknown(_) => 9,
            V::NotInsertedIoWrongOwner => 10,
            V::NotInsertedIoWrongAmount => 11,
            V::NotInsertedIoWrongAssetId => 12,
            V::NotInsertedIoContractOutput => 13,
            V::NotInsertedInputDependentOnChangeOrVariable => 14,
            V::UtxoNotFound(_) => 20,
            V::NotInsertedInputContractDoesNotExist(_) => 21,
            V::WrongOutputNumber(_) => 90,
        },
        Error::Blacklisted(_) => 3,
        Error::UtxoInputWasAlreadySpent(_) => 5,
        Error::MessageInputWasAlreadySpent(_) => 6,
        Error::Collided(CollisionReason::MultipleCollisions) => 16,
        // which colliding transaction is reported depends on HashMap iteration order
        Error::Collided(_) => 15,
        Error::Dependency(DependencyError::NotInsertedCollisionIsDependency) => 17,
        // which ancestor check fails first depends on HashSet iteration order
        Error::Dependency(_) => 18,
        Error::NotInsertedLimitHit => 19,
        _ => 91,
    }
}

fn key_t(k: &VerifInputKey) -> T {
    match k {
        VerifInputKey::Tx(t) => T::l(vec![T::i(0), T::n(un32(t.as_ref()))]),
        VerifInputKey::Utxo(u) => T::l(vec![
            T::i(1),
            T::n(un32(u.tx_id().as_ref())),
            T::n(u.output_index()),
        ]),
        VerifInputKey::Message(n) => T::l(vec![T::i(2), T::n(un32(n.as_ref()))]),
    }
}

fn dump_t(d: &VerifDump) -> T {
    // node index -> tx id of the node stored there (a dangling index becomes 10^9 + index)
    let idx = |i: usize| -> T {
        match d.nodes.iter().find(|n| n.0 == i) {
            Some(n) => T::n(un32(n.1.as_ref())),
            None => T::n(1_000_000_000u64 + i as u64),
        }
    };
    let id = |t: &TxId| T::n(un32(t.as_ref()));
    let mut instants: Vec<SystemTime> = d.nodes.iter().map(|n| n.6).collect();
    instants.sort();
    for w in instants.windows(2) {
        assert!(w[0] != w[1], "two nodes share a creation instant");
    }
    let rank = |t: &SystemTime| instants.iter().filter(|x| *x < t).count() as u64;
    let pair = |a: T, b: T| T::l(vec![a, b]);
    let c = &d.collisions;
    let s = &d.spent_inputs;
    let e = &d.extracted_outputs;
    T::l(vec![
        sorted(
            d.nodes
                .iter()
                .map(|n| {
                    T::l(vec![
                        id(&n.1),
                        T::n(n.2),
                        T::n(n.3),
                        T::n(n.4 as u64),
                        T::n(n.5 as u64),
                        T::n(rank(&n.6)),
                    ])
                })
                .collect(),
        ),
        sorted(d.edges.iter().map(|(a, b)| pair(idx(*a), idx(*b))).collect()),
        sorted(d.coins_creators.iter().map(|(u, i)| pair(utxo_t(u), idx(*i))).collect()),
        sorted(
            d.contracts_creators
                .iter()
                .map(|(k, i)| pair(T::n(un32(k.as_ref())), idx(*i)))
                .collect(),
        ),
        sorted(
            c.messages_spenders
                .iter()
                .map(|(k, i)| pair(T::n(un32(k.as_ref())), idx(*i)))
                .collect(),
        ),
        sorted(c.coins_spenders.iter().map(|(u, i)| pair(utxo_t(u), idx(*i))).collect()),
        sorted(
            c.contracts_creators
                .iter()
                .map(|(k, i)| pair(T::n(un32(k.as_ref())), idx(*i)))
                .collect(),
        ),
        sorted(
            c.contract_users
                .iter()
                .map(|(k, v)| pair(T::n(un32(k.as_ref())), T::l(v.iter().map(id).collect())))
                .collect(),
        ),
        sorted(
            c.blobs_users
                .iter()
                .map(|(k, i)| pair(T::n(un32(k.as_ref())), idx(*i)))
                .collect(),
        ),
        T::l(d.executable.iter().map(|(t, _, _)| id(t)).collect()),
        sorted(d.tx_id_to_storage_id.iter().map(|(t, i)| pair(id(t), idx(*i))).collect()),
        T::l(vec![T::n(d.current_gas), T::n(d.current_bytes_size as u64)]),
        T::l(vec![T::n(d.stats.tx_count), T::n(d.stats.total_size), T::n(d.stats.total_gas)]),
        T::l(s.lru.iter().map(key_t).collect()),
        T::n(s.capacity as u64),
        sorted(
            s.spender_of_inputs
                .iter()
                .map(|(t, ks)| pair(id(t), T::l(ks.iter().map(key_t).collect())))
                .collect(),
        ),
        sorted(
            s.tentative_spent
                .iter()
                .map(|(t, ks)| pair(id(t), T::l(ks.iter().map(key_t).collect())))
                .collect(),
        ),
        sorted(
            e.contract_created
                .iter()
                .map(|(k, t)| pair(T::n(un32(k.as_ref())), id(t)))
                .collect(),
        ),
        sorted(
            e.contract_created_by_tx
                .iter()
                .map(|(t, ks)| pair(id(t), T::l(ks.iter().map(|k| T::n(un32(k.as_ref()))).collect())))
                .collect(),
        ),
        sorted(
            e.coins_created
                .iter()
                .map(|(t, cs)| {
                    pair(
                        id(t),
                        sorted(
                            cs.iter()
                                .map(|(i, a, am, asid)| {
                                    T::l(vec![
                                        T::n(*i),
                                        T::n(un32(a.as_ref())),
                                        T::n(*am),
                                        T::n(un32(asid.as_ref())),
                                    ])
                                })
                                .collect(),
                        ),
                    )
                })
                .collect(),
        ),
        sorted(
            d.tentative_preconfs
                .iter()
                .map(|(h, ts)| {
                    let mut v: Vec<u64> = ts.iter().map(|t| un32(t.as_ref())).collect();
                    v.sort();
                    pair(T::n(u32::from(*h)), T::list_n(&v))
                })
                .collect(),
        ),
        T::n(u32::from(d.current_canonical_height)),
    ])
}

fn reason_tag(reason: &str) -> u64 {
    if reason.contains("less worth") {
        1
    } else if reason.contains("time to live") {
        2
    } else if reason.contains("Parent transaction with id") {
        4
    } else if reason.contains("Preconfirmed parent transaction") {
        5
    } else if reason.contains("skipped during block insertion") {
        3
    } else {
        9
    }
}

fn log_t(evs: &[Event]) -> T {
    let mut subm = vec![];
    let mut sq = vec![];
    for e in evs {
        match e {
            Event::Submitted(t) => subm.push(T::n(un32(t.as_ref()))),
            Event::Squeezed(batch) => {
                for (t, reason) in batch {
                    sq.push(T::l(vec![T::n(reason_tag(reason)), T::n(un32(t.as_ref()))]));
                }
            }
            Event::Other(t) => subm.push(T::n(2_000_000_000u64 + un32(t.as_ref()))),
        }
    }
    T::l(vec![T::l(subm), sorted(sq)])
}

fn import_result(
    height: u32,
    ids: &[u64],
) -> fuel_core_types::services::block_importer::SharedImportResult {
    let mut block = Block::default();
    block.header_mut().set_block_height(BlockHeight::new(height));
    let sealed = Sealed {
        entity: block,
        consensus: Default::default(),
    };
    let statuses = ids
        .iter()
        .map(|i| TransactionExecutionStatus {
            id: txid(*i),
            result: TransactionExecutionResult::Success {
                result: None,
                receipts: Arc::new(vec![]),
                total_gas: 0,
                total_fee: 0,
            },
        })
        .collect();
    Arc::new(ImportResult::new_from_local(sealed, statuses, vec![]).wrap())
}

fn dedup(ids: &[u64]) -> Vec<u64> {
    let mut out = vec![];
    for i in ids {
        if !out.contains(i) {
            out.push(*i);
        }
    }
    out
}

pub fn run(input: &T) -> T {
    let input = input.clone();
    catch(move || {
        let f = input.as_l();
        let cfg = f[0].as_l();
        let config = Config {
            utxo_validation: cfg[4].as_bool(),
            allow_syscall: true,
            max_txs_chain_count: cfg[3].as_usize(),
            pool_limits: PoolLimits {
                max_txs: cfg[0].as_usize(),
                max_gas: cfg[1].as_u64(),
                max_bytes_size: cfg[2].as_usize(),
            },
            service_channel_limits: ServiceChannelLimits {
                max_pending_write_pool_requests: 1000,
                max_pending_read_pool_requests: 1000,
            },
            ttl_check_interval: Duration::from_secs(60),
            max_txs_ttl: Duration::from_secs(600),
            heavy_work: HeavyWorkConfig {
                number_threads_to_verify_transactions: 0,
                size_of_verification_queue: 100,
                number_threads_p2p_sync: 0,
                size_of_p2p_sync_queue: 100,
            },
            black_list: BlackList::default(),
            pending_pool_tx_ttl: Duration::from_secs(3),
            // pending pool disabled: missing inputs are reported, never parked
            max_pending_pool_size_percentage: 0,
            metrics: false,
        };
        let db = build_db(&f[1]);
        let table: Vec<&T> = f[2].as_l().iter().collect();
        let txs: Vec<ArcPoolTx> = table.iter().map(|t| build_tx(t)).collect();
        let tsm = Arc::new(RecordingStatusManager::default());
        let mut worker = VerifWorker::new(
            config,
            Arc::new(MockDbProvider(db.clone())),
            tsm.clone(),
            BlockHeight::new(cfg[5].as_u32()),
        );
        let mut out = vec![dump_t(&worker.dump())];
        let mut last = SystemTime::now();
        // keys seen in the spent-inputs LRU after some earlier operation / currently there
        let mut ever: Vec<T> = vec![];
        let mut lru_now: Vec<T> = vec![];
        for op in f[3].as_l() {
            let o = op.as_l();
            let res = match o[0].as_i() {
                0 => {
                    // creation instants must be strictly increasing (they break ratio ties)
                    while SystemTime::now() <= last {
                        std::hint::spin_loop();
                    }
                    let r = worker.insert(txs[o[1].as_usize()].clone());
                    last = SystemTime::now();
                    match r {
                        VerifInsertResult::Inserted => T::l(vec![T::i(0)]),
                        VerifInsertResult::Error(e) => T::l(vec![T::i(1), T::n(error_code(&e))]),
                        VerifInsertResult::Parked => T::l(vec![T::i(2)]),
                    }
                }
                1 => {
                    let cs = Constraints {
                        minimal_gas_price: o[1].as_u64(),
                        max_gas: o[2].as_u64(),
                        maximum_txs: o[3].as_u16(),
                        maximum_block_size: o[4].as_u32(),
                        excluded_contracts: o[5]
                            .as_l()
                            .iter()
                            .map(|c| ContractId::from(b32(c.as_u64())))
                            .collect(),
                    };
                    let r = worker.extract(cs);
                    T::l(r.iter().map(|t| T::n(un32(t.id().as_ref()))).collect())
                }
                2 => {
                    let ids: Vec<u64> = o[2].as_l().iter().map(|x| x.as_u64()).collect();
                    worker.process_block(import_result(o[1].as_u32(), &ids));
                    // the order in which the HashSet of confirmed ids was iterated, recovered
                    // from the recency order of the Tx keys in the spent-inputs LRU
                    let d = worker.dump();
                    let ids = dedup(&ids);
                    let pos = |i: u64| {
                        d.spent_inputs
                            .lru
                            .iter()
                            .position(|k| matches!(k, VerifInputKey::Tx(t) if un32(t.as_ref()) == i))
                    };
                    let mut keyed: Vec<(usize, u64)> = vec![];
                    let mut complete = true;
                    for i in &ids {
                        match pos(*i) {
                            Some(p) => keyed.push((p, *i)),
                            None => complete = false,
                        }
                    }
                    if complete {
                        keyed.sort_by(|a, b| b.0.cmp(&a.0));
                        T::l(keyed.iter().map(|(_, i)| T::n(*i)).collect())
                    } else {
                        T::list_n(&ids)
                    }
                }
                3 => {
                    let id = txid(o[1].as_u64());
                    let h = BlockHeight::new(o[3].as_u32());
                    let outs: Option<Vec<(UtxoId, Output)>> = o[4].as_l().first().map(|l| {
                        l.as_l()
                            .iter()
                            .map(|e| {
                                let e = e.as_l();
                                (utxo(&e[0]), output_of(&e[1]))
                            })
                            .collect()
                    });
                    let status = match o[2].as_i() {
                        0 => PreConfirmationStatus::Success(Arc::new(statuses::PreConfirmationSuccess {
                            tx_pointer: TxPointer::new(h, 0),
                            total_gas: 0,
                            total_fee: 0,
                            receipts: None,
                            resolved_outputs: outs,
                        })),
                        1 => PreConfirmationStatus::Failure(Arc::new(statuses::PreConfirmationFailure {
                            tx_pointer: TxPointer::new(h, 0),
                            total_gas: 0,
                            total_fee: 0,
                            receipts: None,
                            resolved_outputs: outs,
                            reason: "failed".to_string(),
                        })),
                        _ => PreConfirmationStatus::SqueezedOut(Arc::new(
                            statuses::PreConfirmationSqueezedOut {
                                reason: "producer skipped".to_string(),
                            },
                        )),
                    };
                    worker.process_preconfirmed_transaction(id, status);
                    T::l(vec![])
                }
                4 => {
                    worker.remove_expired_transactions(
                        o[1].as_l().iter().map(|x| txid(x.as_u64())).collect(),
                    );
                    T::l(vec![])
                }
                5 => {
                    db_apply(&db, table[o[1].as_usize()]);
                    T::l(vec![])
                }
                k => panic!("bad op {k}"),
            };
            let d = worker.dump();
            assert!(d.pending_pool_txs == 0 && d.pending_reinserts == 0, "pending pool used");
            let evs = tsm.take();
            // class flag of the C19 known finding (see stale_accept in the model)
            let mut stale = false;
            if o[0].as_i() == 0 && res == T::l(vec![T::i(0)]) {
                let t = table[o[1].as_usize()].as_l();
                let mut keys = vec![T::l(vec![T::i(0), t[0].clone()])];
                for i in t[1].as_l() {
                    let l = i.as_l();
                    match l[0].as_i() {
                        0 => keys.push(T::l(vec![T::i(1), l[1].as_l()[0].clone(), l[1].as_l()[1].clone()])),
                        1 => keys.push(T::l(vec![T::i(2), l[1].clone()])),
                        _ => {}
                    }
                }
                stale = keys.iter().any(|k| ever.contains(k) && !lru_now.contains(k));
            }
            let dump = dump_t(&d);
            lru_now = dump.as_l()[13].as_l().to_vec();
            let mut seen: Vec<T> = lru_now.clone();
            for m in [15usize, 16] {
                for e in dump.as_l()[m].as_l() {
                    let e = e.as_l();
                    seen.push(T::l(vec![T::i(0), e[0].clone()]));
                    seen.extend(e[1].as_l().iter().cloned());
                }
            }
            for k in &seen {
                if !ever.contains(k) {
                    ever.push(k.clone());
                }
            }
            out.push(T::l(vec![res, log_t(&evs), dump, T::b(stale)]));
        }
        T::l(out)
    })
}

fn main() {
    vcommon::main_protocol(
        |prop, rng: &mut Rng, n, tier| gen::gen(prop, rng, n, tier),
        |_prop, input| run(input),
    );
}
