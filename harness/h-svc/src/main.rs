//! Correspondence harness for the Svc cluster: fuel-core-services' SeqLock (C42) and
//! ServiceRunner (C41) driven through generated schedules.
mod c41;
mod c42;

use vcommon::{Rng, T};

fn gen(prop: &str, rng: &mut Rng, n: u64, tier: &str) -> Vec<T> {
    match prop {
        "C41" => c41::gen(rng, n, tier),
        "C42" => c42::gen(rng, n, tier),
        p => panic!("unknown property {p}"),
    }
}

fn run(prop: &str, input: &T) -> T {
    match prop {
        "C41" => c41::run(input),
        "C42" => c42::run(input),
        p => panic!("unknown property {p}"),
    }
}

fn main() {
    vcommon::main_protocol(gen, run);
}
