//! C41: the real `ServiceRunner` on a current-thread tokio runtime, with a scripted task.
//!
//! Input `(io (run outcomes) so (ops))`: io 0 ok / 1 err / 2 panic (into_task); run outcomes
//! 0 continue / 1 stop / 2 error-continue / 3 panic / 4 wait-while-started (default once the
//! list is exhausted); so 0 ok / 1 err / 2 panic (shutdown).  Every scripted call first
//! acquires a permit of one semaphore (the "gate").  ops: 0 start(), 1 stop(), 2 one permit,
//! 3 spawn `await_stop()`, 4 spawn `await_start_or_stop()`, 5 nothing, 6 spawn
//! `StateWatcher::while_started()`, 7 spawn `StateWatcher::wait_stopping_or_stopped()`.  After every op the
//! harness yields until everything runnable has run.  Observation per op:
//! `(ret state into_calls run_calls shutdown_calls (awaiter results))`.
use fuel_core_services::{
    EmptyShared, RunnableService, RunnableTask, Service, ServiceRunner, State, StateWatcher,
    TaskNextAction,
};
use std::sync::atomic::{AtomicU64, Ordering};
use std::sync::{Arc, Mutex};
use tokio::sync::Semaphore;
use vcommon::{catch, Rng, T};

#[derive(Default)]
struct Counts {
    into: AtomicU64,
    run: AtomicU64,
    shut: AtomicU64,
}

struct Scripted {
    gate: Arc<Semaphore>,
    counts: Arc<Counts>,
    io: i128,
    rs: Vec<i128>,
    so: i128,
}

struct ScriptedTask {
    gate: Arc<Semaphore>,
    counts: Arc<Counts>,
    rs: std::collections::VecDeque<i128>,
    so: i128,
}

async fn pass(gate: &Semaphore) {
    gate.acquire().await.expect("gate closed").forget();
}

#[async_trait::async_trait]
impl RunnableService for Scripted {
    const NAME: &'static str = "VerifScripted";
    type SharedData = EmptyShared;
    type Task = ScriptedTask;
    type TaskParams = ();

    fn shared_data(&self) -> EmptyShared {
        EmptyShared
    }

    async fn into_task(self, _: &StateWatcher, _: ()) -> anyhow::Result<ScriptedTask> {
        pass(&self.gate).await;
        self.counts.into.fetch_add(1, Ordering::SeqCst);
        match self.io {
            0 => Ok(ScriptedTask {
                gate: self.gate.clone(),
                counts: self.counts.clone(),
                rs: self.rs.iter().copied().collect(),
                so: self.so,
            }),
            1 => Err(anyhow::anyhow!("scripted into_task error")),
            _ => panic!("scripted into_task panic"),
        }
    }
}

impl RunnableTask for ScriptedTask {
    async fn run(&mut self, watcher: &mut StateWatcher) -> TaskNextAction {
        pass(&self.gate).await;
        self.counts.run.fetch_add(1, Ordering::SeqCst);
        match self.rs.pop_front().unwrap_or(4) {
            0 => TaskNextAction::Continue,
            1 => TaskNextAction::Stop,
            2 => TaskNextAction::ErrorContinue(anyhow::anyhow!("scripted run error")),
            3 => panic!("scripted run panic"),
            _ => {
                let _ = watcher.while_started().await;
                TaskNextAction::Continue
            }
        }
    }

    async fn shutdown(self) -> anyhow::Result<()> {
        pass(&self.gate).await;
        self.counts.shut.fetch_add(1, Ordering::SeqCst);
        match self.so {
            0 => Ok(()),
            1 => Err(anyhow::anyhow!("scripted shutdown error")),
            _ => panic!("scripted shutdown panic"),
        }
    }
}

fn state_t(s: &State) -> T {
    T::i(match s {
        State::NotStarted => 0,
        State::Starting => 1,
        State::Started => 2,
        State::Stopping => 3,
        State::Stopped => 4,
        State::StoppedWithError(_) => 5,
    })
}

async fn settle() {
    // current-thread runtime: every yield lets all runnable tasks be polled once; chains
    // (client op -> B -> awaiters) are at most a few links long
    for _ in 0..16 {
        tokio::task::yield_now().await;
    }
}

pub fn run(input: &T) -> T {
    let input = input.clone();
    catch(move || {
        let f = input.as_l();
        let io = f[0].as_i();
        let rs: Vec<i128> = f[1].as_l().iter().map(|x| x.as_i()).collect();
        let so = f[2].as_i();
        let ops: Vec<i128> = f[3].as_l().iter().map(|x| x.as_i()).collect();
        let rt = tokio::runtime::Builder::new_current_thread().enable_time().build().expect("runtime");
        let out = rt.block_on(async move {
            let gate = Arc::new(Semaphore::new(0));
            let counts = Arc::new(Counts::default());
            let runner = Arc::new(ServiceRunner::new(Scripted {
                gate: gate.clone(),
                counts: counts.clone(),
                io,
                rs,
                so,
            }));
            let results: Arc<Mutex<Vec<Option<State>>>> = Arc::new(Mutex::new(vec![]));
            settle().await;
            let mut out = vec![];
            for op in ops {
                let mut ret = T::i(-1);
                match op {
                    0 => ret = T::b(runner.start().is_ok()),
                    1 => ret = T::b(runner.stop()),
                    2 => gate.add_permits(1),
                    3 | 4 => {
                        let idx = {
                            let mut r = results.lock().unwrap();
                            r.push(None);
                            r.len() - 1
                        };
                        let (runner, results) = (runner.clone(), results.clone());
                        // the await_* futures subscribe when first polled: poll them now by
                        // spawning and settling (the model subscribes at the spawn op)
                        tokio::spawn(async move {
                            let r = if op == 3 {
                                runner.await_stop().await
                            } else {
                                runner.await_start_or_stop().await
                            };
                            results.lock().unwrap()[idx] = Some(r.expect("watch closed"));
                        });
                    }
                    5 => {}
                    6 | 7 => {
                        // the real StateWatcher helpers on a watcher of this runner; the
                        // watcher subscribes here (the model subscribes at the spawn op)
                        let idx = {
                            let mut r = results.lock().unwrap();
                            r.push(None);
                            r.len() - 1
                        };
                        let mut watcher = runner.state_watcher();
                        let (runner, results) = (runner.clone(), results.clone());
                        tokio::spawn(async move {
                            let st = if op == 6 {
                                watcher.while_started().await.expect("watch closed")
                            } else {
                                watcher.wait_stopping_or_stopped().await.expect("watch closed");
                                // returns (): the state at the moment of the return
                                runner.state()
                            };
                            // whether this task or the background task is polled first after
                            // a stop is not fixed by tokio: Stopping / Stopped /
                            // StoppedWithError are one observation class here
                            let st = match st {
                                State::Stopped | State::StoppedWithError(_) => State::Stopping,
                                s => s,
                            };
                            results.lock().unwrap()[idx] = Some(st);
                        });
                    }
                    k => panic!("bad op {k}"),
                }
                settle().await;
                let aw: Vec<T> = results
                    .lock()
                    .unwrap()
                    .iter()
                    .map(|r| match r {
                        None => T::l(vec![]),
                        Some(s) => T::l(vec![state_t(s)]),
                    })
                    .collect();
                out.push(T::l(vec![
                    ret,
                    state_t(&runner.state()),
                    T::n(counts.into.load(Ordering::SeqCst)),
                    T::n(counts.run.load(Ordering::SeqCst)),
                    T::n(counts.shut.load(Ordering::SeqCst)),
                    T::l(aw),
                ]));
            }
            T::l(out)
        });
        drop(rt);
        out
    })
}

// ------------------------------------------------------------------------------------

fn case(io: u64, rs: &[u64], so: u64, ops: &[u64]) -> T {
    T::l(vec![T::n(io), T::list_n(rs), T::n(so), T::list_n(ops)])
}

pub fn gen(rng: &mut Rng, n: u64, tier: &str) -> Vec<T> {
    let thorough = tier == "thorough";
    let mut cases = vec![];
    // (a) every op sequence of length <= L over {start, stop, grant, await_stop} for every
    //     (into_task, first run, shutdown) outcome
    let l = if thorough { 6 } else { 4 };
    for io in 0..3u64 {
        for ro in 0..5u64 {
            for so in 0..3u64 {
                let mut seqs: Vec<Vec<u64>> = vec![vec![]];
                for _ in 0..l {
                    let mut next = vec![];
                    for s in &seqs {
                        for o in 0..4u64 {
                            let mut s2 = s.clone();
                            s2.push(o);
                            next.push(s2);
                        }
                    }
                    for s in &next {
                        cases.push(case(io, &[ro], so, s));
                    }
                    seqs = next;
                }
            }
        }
    }
    // (b) the life cycles of the unit tests, stop twice, start after stop, stop before start
    for io in 0..3u64 {
        for ro in 0..5u64 {
            for so in 0..3u64 {
                cases.push(case(io, &[ro], so, &[3, 0, 2, 2, 1, 2, 2, 1, 0, 5]));
                cases.push(case(io, &[0, 2, ro], so, &[0, 4, 2, 2, 2, 2, 3, 1, 2, 2, 0, 1]));
                cases.push(case(io, &[ro], so, &[1, 0, 3, 2, 2]));
                cases.push(case(io, &[ro, ro], so, &[2, 2, 2, 2, 0, 3, 1, 1]));
                // StateWatcher waits called while Started / NotStarted / Starting / Stopping
                cases.push(case(io, &[ro], so, &[0, 2, 7, 6, 1, 2, 2]));
                cases.push(case(io, &[ro], so, &[7, 6, 0, 2, 1, 2, 2]));
                cases.push(case(io, &[ro], so, &[0, 7, 6, 2, 2, 1, 2]));
                cases.push(case(io, &[ro], so, &[0, 2, 1, 7, 6, 2, 2]));
            }
        }
    }
    // (c) random
    for _ in 0..n {
        let io = if rng.chance(3, 4) { 0 } else { rng.range(1, 2) };
        let nrs = rng.below(5);
        let rs: Vec<u64> = (0..nrs).map(|_| rng.below(5)).collect();
        let so = rng.below(3);
        let len = rng.range(3, if thorough { 24 } else { 14 });
        let ops: Vec<u64> = (0..len)
            .map(|_| match rng.below(10) {
                0 | 1 => 0,
                2 | 3 => 1,
                4..=6 => 2,
                7 => 3,
                8 => *rng.pick(&[4u64, 6, 7, 7]),
                _ => 5,
            })
            .collect();
        cases.push(case(io, &rs, so, &ops));
    }
    cases
}
