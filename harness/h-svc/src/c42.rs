//! C42: the real `SeqLock` of fuel-core-services.
//!
//! Form 0 `(0 k (init) ((writes of writer 0) (writes of writer 1) ..) nreaders (sched))`:
//!   deterministic run.  Every thread (writers sharing one `&SeqLockWriter`, readers with cloned
//!   reader handles) blocks at each `verif_hooks::point`; the schedule is a list of thread
//!   ids, each entry lets that thread run to its next point.  The writer closure stores the k
//!   words one by one with a point between two stores.  Observation:
//!   `((rid c0 done (words))* done (position of every thread))`.
//! A call of write is `((words) ())` or `((words) (j))` = its closure panics after storing j words
//! (the writer thread catches the panic that `write` re-raises and goes on).
//! Form 1 `(1 nwrites nreaders nreads panic_first)`: free-running stress (optionally after a first
//! write whose closure panics), one writer storing 8 equal words,
//!   readers count torn / stale / non-monotone results.  Observation `(torn stale nonmono total)`.
use fuel_core_services::seqlock::{verif_hooks, SeqLock};
use std::cell::Cell;
use std::rc::Rc;
use std::sync::atomic::{AtomicU64, Ordering};
use std::sync::mpsc;
use std::sync::{Arc, Mutex};
use vcommon::{catch, Rng, T};

const WORDS: usize = 8;
type Data = [u64; WORDS];

enum Msg {
    At(u8),
    Finished,
}

/// panic payload used to unwind a parked reader out of `read()` at the end of a run
struct Released;

/// panic payload of a scripted panicking write closure
struct ScriptedPanic;

/// observation of a run that did not finish in time (only possible with a broken lock)
fn t_hang() -> T {
    T::l(vec![T::i(-778)])
}

fn run_sched(input: &T) -> T {
    let f = input.as_l();
    let k = f[1].as_usize();
    assert!((1..=WORDS).contains(&k), "k out of range");
    let mut init: Data = [0; WORDS];
    for (i, w) in f[2].as_l().iter().enumerate() {
        init[i] = w.as_u64();
    }
    // a call of write: ((words) ()) returns, ((words) (j)) its closure panics after j words
    let wqs: Vec<Vec<(Vec<u64>, Option<usize>)>> = f[3]
        .as_l()
        .iter()
        .map(|q| {
            q.as_l()
                .iter()
                .map(|c| {
                    let c = c.as_l();
                    let words = c[0].as_l().iter().map(|w| w.as_u64()).collect();
                    let outcome = c[1].as_l().first().map(|j| j.as_usize().min(k));
                    (words, outcome)
                })
                .collect()
        })
        .collect();
    let nw = wqs.len();
    let nr = f[4].as_usize();
    let sched: Vec<usize> = f[5].as_l().iter().map(|t| t.as_usize()).collect();
    let nthreads = nw + nr;

    // safety contract of `new`: the data is Copy
    let (writer, reader) = unsafe { SeqLock::new(init) };
    let done = Arc::new(AtomicU64::new(0));
    let events: Arc<Mutex<Vec<T>>> = Arc::new(Mutex::new(vec![]));
    let (arrive_tx, arrive_rx) = mpsc::channel::<(usize, Msg)>();
    let mut grant_txs: Vec<Option<mpsc::Sender<()>>> = vec![];
    let mut result = T::l(vec![]);

    std::thread::scope(|scope| {
        for (t, q) in wqs.iter().enumerate() {
            let (gtx, grx) = mpsc::channel::<()>();
            grant_txs.push(Some(gtx));
            let arrive = arrive_tx.clone();
            let writer = &writer; // several threads share ONE writer handle (it is Sync)
            let done = done.clone();
            scope.spawn(move || {
                let free = Rc::new(Cell::new(false));
                let free_h = free.clone();
                let arrive_h = arrive.clone();
                verif_hooks::set_hook(Some(Box::new(move |id| {
                    if free_h.get() {
                        return;
                    }
                    let _ = arrive_h.send((t, Msg::At(id)));
                    if grx.recv().is_err() {
                        free_h.set(true);
                    }
                })));
                for (v, outcome) in q {
                    let lim = outcome.unwrap_or(k);
                    // the caller survives the panic that write re-raises
                    let _ = std::panic::catch_unwind(std::panic::AssertUnwindSafe(|| {
                        writer.write(|d: &mut Data| {
                            for i in 0..lim {
                                if i > 0 {
                                    verif_hooks::point(1);
                                }
                                d[i] = v[i];
                            }
                            if outcome.is_some() {
                                std::panic::panic_any(ScriptedPanic);
                            }
                        })
                    }));
                    done.fetch_add(1, Ordering::SeqCst);
                }
                if !free.get() {
                    let _ = arrive.send((t, Msg::Finished));
                }
                verif_hooks::set_hook(None);
            });
        }
        for r in 0..nr {
            let t = nw + r;
            let (gtx, grx) = mpsc::channel::<()>();
            grant_txs.push(Some(gtx));
            let arrive = arrive_tx.clone();
            let reader = reader.clone();
            let done = done.clone();
            let events = events.clone();
            scope.spawn(move || {
                let free = Rc::new(Cell::new(false));
                let begun = Rc::new(Cell::new(false));
                let c0 = Rc::new(Cell::new(0u64));
                let (free_h, begun_h, c0_h, done_h) = (free.clone(), begun.clone(), c0.clone(), done.clone());
                verif_hooks::set_hook(Some(Box::new(move |id| {
                    if free_h.get() {
                        return;
                    }
                    let _ = arrive.send((t, Msg::At(id)));
                    if grx.recv().is_err() {
                        // released: unwind out of read() (a free-running read could spin
                        // for ever if a mutated write leaves the counter odd)
                        free_h.set(true);
                        std::panic::panic_any(Released);
                    }
                    // ghost c0: completed writes at the first sequence load of this call of read
                    if id == 3 && !begun_h.get() {
                        begun_h.set(true);
                        c0_h.set(done_h.load(Ordering::SeqCst));
                    }
                })));
                let _ = std::panic::catch_unwind(std::panic::AssertUnwindSafe(|| loop {
                    begun.set(false);
                    let v = reader.read();
                    if free.get() {
                        break;
                    }
                    events.lock().unwrap().push(T::l(vec![
                        T::n(r as u64),
                        T::n(c0.get()),
                        T::n(done.load(Ordering::SeqCst)),
                        T::list_n(&v[..k]),
                    ]));
                }));
                verif_hooks::set_hook(None);
            });
        }
        drop(arrive_tx);

        // every thread runs to its first point
        let mut pos: Vec<Option<u8>> = vec![None; nthreads];
        let mut finished = vec![false; nthreads];
        let wait = |pos: &mut Vec<Option<u8>>, finished: &mut Vec<bool>| -> bool {
            match arrive_rx.recv_timeout(std::time::Duration::from_secs(30)) {
                Ok((t, Msg::At(id))) => pos[t] = Some(id),
                Ok((t, Msg::Finished)) => {
                    pos[t] = Some(0);
                    finished[t] = true;
                }
                Err(_) => return false,
            }
            true
        };
        let mut ok = true;
        for _ in 0..nthreads {
            ok = ok && wait(&mut pos, &mut finished);
        }
        for &t in &sched {
            if !ok {
                break;
            }
            if t >= nthreads || finished[t] {
                continue;
            }
            ok = grant_txs[t].as_ref().unwrap().send(()).is_ok() && wait(&mut pos, &mut finished);
        }
        if !ok {
            result = t_hang();
            for g in grant_txs.iter_mut() {
                *g = None;
            }
            return;
        }
        let evs = events.lock().unwrap().clone();
        result = T::l(vec![
            T::l(evs),
            T::n(done.load(Ordering::SeqCst)),
            T::l(pos.iter().map(|p| T::n(p.unwrap() as u64)).collect()),
        ]);
        // release everybody: dropped grant channels switch the threads to free running
        for g in grant_txs.iter_mut() {
            *g = None;
        }
    });
    result
}

fn run_stress(input: &T) -> T {
    let f = input.as_l();
    let nwrites = f[1].as_u64();
    let nreaders = f[2].as_usize();
    let nreads = f[3].as_u64();
    let panic_first = f[4].as_bool();
    let (writer, reader) = unsafe { SeqLock::new([0u64; WORDS]) };
    if panic_first {
        // a first write whose closure panics before storing anything (the cell is unchanged)
        let _ = std::panic::catch_unwind(std::panic::AssertUnwindSafe(|| {
            writer.write(|_d: &mut Data| std::panic::panic_any(ScriptedPanic))
        }));
    }
    let published = Arc::new(AtomicU64::new(0));
    let torn = Arc::new(AtomicU64::new(0));
    let stale = Arc::new(AtomicU64::new(0));
    let nonmono = Arc::new(AtomicU64::new(0));
    let total = Arc::new(AtomicU64::new(0));
    let (fin_tx, fin_rx) = mpsc::channel::<()>();
    {
        let p = published.clone();
        let fin = fin_tx.clone();
        std::thread::spawn(move || {
            for i in 1..=nwrites {
                writer.write(|d: &mut Data| {
                    for w in d.iter_mut() {
                        *w = i;
                    }
                });
                p.store(i, Ordering::SeqCst);
                if i % 64 == 0 {
                    std::thread::yield_now();
                }
            }
            let _ = fin.send(());
        });
    }
    for _ in 0..nreaders {
        let reader = reader.clone();
        let (p, torn, stale, nonmono, total) =
            (published.clone(), torn.clone(), stale.clone(), nonmono.clone(), total.clone());
        let fin = fin_tx.clone();
        std::thread::spawn(move || {
            let mut last = 0u64;
            for _ in 0..nreads {
                let floor = p.load(Ordering::SeqCst);
                let v = reader.read();
                if v.iter().any(|w| *w != v[0]) {
                    torn.fetch_add(1, Ordering::Relaxed);
                } else {
                    if v[0] < floor {
                        stale.fetch_add(1, Ordering::Relaxed);
                    }
                    if v[0] < last {
                        nonmono.fetch_add(1, Ordering::Relaxed);
                    }
                    last = v[0];
                }
                total.fetch_add(1, Ordering::Relaxed);
            }
            let _ = fin.send(());
        });
    }
    // watchdog: with the unmodified lock a run takes well under a second
    let deadline = std::time::Instant::now() + std::time::Duration::from_secs(30);
    for _ in 0..nreaders + 1 {
        let left = deadline.saturating_duration_since(std::time::Instant::now());
        if fin_rx.recv_timeout(left).is_err() {
            return t_hang();
        }
    }
    T::l(vec![
        T::n(torn.load(Ordering::SeqCst)),
        T::n(stale.load(Ordering::SeqCst)),
        T::n(nonmono.load(Ordering::SeqCst)),
        T::n(total.load(Ordering::SeqCst)),
    ])
}

pub fn run(input: &T) -> T {
    let input = input.clone();
    catch(move || match input.as_l()[0].as_i() {
        0 => run_sched(&input),
        1 => run_stress(&input),
        k => panic!("bad form {k}"),
    })
}

// ------------------------------------------------------------------------------------
// generators

fn value(k: usize, id: u64) -> T {
    // all words of a value differ from the words of every other value
    T::l((0..k).map(|j| T::n(id * 10 + j as u64)).collect())
}

fn case(k: usize, wqs: &[Vec<u64>], nr: usize, sched: Vec<u64>) -> T {
    let calls: Vec<Vec<(u64, Option<u64>)>> = wqs.iter().map(|q| q.iter().map(|id| (*id, None)).collect()).collect();
    case_p(k, &calls, nr, sched)
}

/// calls: (value id, None = returns / Some(j) = the closure panics after j words)
fn case_p(k: usize, wqs: &[Vec<(u64, Option<u64>)>], nr: usize, sched: Vec<u64>) -> T {
    T::l(vec![
        T::i(0),
        T::n(k as u64),
        value(k, 0),
        T::l(wqs
            .iter()
            .map(|q| T::l(q.iter().map(|(id, o)| T::l(vec![value(k, *id), T::opt(*o)])).collect()))
            .collect()),
        T::n(nr as u64),
        T::list_n(&sched),
    ])
}

/// every interleaving of `w` writer grants (thread 0) with `r` reader grants (thread 1)
fn interleavings(w: usize, r: usize) -> Vec<Vec<u64>> {
    let mut out = vec![];
    let mut stack: Vec<(Vec<u64>, usize, usize)> = vec![(vec![], w, r)];
    while let Some((pre, w, r)) = stack.pop() {
        if w == 0 && r == 0 {
            out.push(pre);
            continue;
        }
        if r > 0 {
            let mut p = pre.clone();
            p.push(1);
            stack.push((p, w, r - 1));
        }
        if w > 0 {
            let mut p = pre;
            p.push(0);
            stack.push((p, w - 1, r));
        }
    }
    out
}

/// Is the two-writer finding listed?  Its witnesses (which fail Pcheck) are generated only
/// then, so that an unlisted tree does not turn red because of a finding that the
/// integrator has not recorded yet.
fn two_writer_finding_listed() -> bool {
    let p = concat!(env!("CARGO_MANIFEST_DIR"), "/../../known_findings.json");
    std::fs::read_to_string(p).map(|s| s.contains("\"K-C42-two-writers\"")).unwrap_or(false)
}

pub fn gen(rng: &mut Rng, n: u64, tier: &str) -> Vec<T> {
    let thorough = tier == "thorough";
    let mut cases = vec![];
    // (a) bounded-exhaustive: 1 writer (2 writes of 2 words = 8 grants), 1 reader (6 grants = two
    //     uninterrupted reads; 9 in thorough): EVERY interleaving of the two grant sequences
    for sched in interleavings(8, if thorough { 9 } else { 6 }) {
        cases.push(case(2, &[vec![1, 2]], 1, sched));
    }
    // (a') the same with a PANICKING first closure (after 1 of 2 words: 3 grants) followed by a
    //      normal write (4 grants): a reader must never return the second write's
    //      intermediate state, whatever the first call's panic did to the counter
    for sched in interleavings(7, if thorough { 8 } else { 6 }) {
        cases.push(case_p(2, &[vec![(1, Some(1)), (2, None)]], 1, sched));
    }
    // directed: panicked write (j = 0, 1, 2 of 2 words), then a later write held between its two
    // increments (after its first word) while the reader runs a whole read, then finished
    for j in 0..=2u64 {
        let first = if j == 2 { 4 } else { 3 }; // grants of the panicking call
        let mut sched = vec![0u64; first];
        sched.extend([1, 1, 1]); // a read between the calls: must return the value left behind
        sched.extend([0, 0]); // second write: opening increment, first word
        sched.extend([1, 1, 1, 1, 1, 1]); // reader while the write is in progress
        sched.extend([0, 0, 1, 1, 1]);
        cases.push(case_p(2, &[vec![(1, Some(j)), (2, None)]], 1, sched));
    }
    // (b) directed: reader overlaps a whole write and must retry; reader between writes
    cases.push(case(2, &[vec![1, 2]], 1, vec![1, 1, 0, 0, 0, 0, 1, 1, 1, 1, 1, 1, 1]));
    cases.push(case(3, &[vec![1]], 2, vec![1, 0, 2, 0, 1, 0, 2, 0, 0, 1, 2, 1, 2, 1, 2, 1, 2]));
    // (c) random: k 1..=8, 0..=5 writes, 1..=3 readers, long schedules biased per case
    for _ in 0..n {
        let kmax = if rng.chance(1, 4) { 8 } else { 3 };
        let k = rng.range(1, kmax) as usize;
        let nwrites = rng.range(0, 5);
        let nr = rng.range(1, 3) as usize;
        let len = { let m = if thorough { 120 } else { 60 }; rng.range(5, m) };
        let wbias = rng.range(1, 4);
        let sched: Vec<u64> = (0..len)
            .map(|_| if rng.chance(wbias, 5) { 0 } else { rng.range(1, nr as u64 + 1) })
            .collect(); // thread id nr+1 does not exist: a no-op grant
        let calls: Vec<(u64, Option<u64>)> = (1..=nwrites)
            .map(|id| (id, if rng.chance(1, 5) { Some(rng.below(k as u64 + 1)) } else { None }))
            .collect();
        cases.push(case_p(k, &[calls], nr, sched));
    }
    // (d) two writer threads on the one handle, writes NOT overlapping (whole writes = k+2
    //     consecutive grants): the several-writer model agrees and nothing is torn
    for _ in 0..(n / 10).max(3) {
        let k = rng.range(1, 3) as usize;
        let nr = rng.range(1, 2) as usize;
        let mut left = [rng.range(0, 2), rng.range(0, 2)];
        let mut ids = [vec![], vec![]];
        let mut next = 1u64;
        let mut sched = vec![];
        while left[0] + left[1] > 0 || rng.chance(2, 3) {
            if left[0] + left[1] > 0 && rng.chance(1, 3) {
                let w = if left[0] > 0 && (left[1] == 0 || rng.chance(1, 2)) { 0 } else { 1 };
                left[w] -= 1;
                ids[w].push(next);
                next += 1;
                for _ in 0..k + 2 {
                    sched.push(w as u64);
                }
            } else {
                let r = rng.range(2, 1 + nr as u64);
                sched.push(r);
            }
            if sched.len() > 80 {
                break;
            }
        }
        if left[0] + left[1] == 0 {
            cases.push(case(k, &[ids[0].clone(), ids[1].clone()], nr, sched));
        }
    }
    // (e) two OVERLAPPING writers: the torn read of the `_refuted` theorem and random ones
    if two_writer_finding_listed() {
        cases.push(case(2, &[vec![1], vec![2]], 1, vec![0, 0, 1, 2, 2, 2, 2]));
        for _ in 0..(n / 20).max(3) {
            let k = rng.range(2, 3) as usize;
            let len = rng.range(6, 40);
            let sched: Vec<u64> = (0..len).map(|_| rng.below(3)).collect();
            cases.push(case(k, &[vec![1, 3], vec![2, 4]], 1, sched));
        }
    }
    // (f) free-running stress
    let stress = if thorough { 12 } else { 3 };
    for i in 0..stress {
        let nreaders = 1 + (i % 3);
        cases.push(T::l(vec![T::i(1), T::n(20_000u64), T::n(nreaders as u64), T::n(20_000u64), T::b(i % 2 == 1)]));
    }
    cases
}
