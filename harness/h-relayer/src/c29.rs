//! C29: relayer pagination, log download / write, sync state.
//!
//! Input `(deploy db_init page_size max_logs grow logs rounds)`:
//!   deploy      config.da_deploy_height
//!   db_init     `()` or `(h)`: an (empty) entry already stored at DA height h (restart)
//!   page_size   config.log_page_size, max_logs = config.max_logs_per_rpc, grow = grow threshold
//!   logs        `((height log_index kind nonce contract) ...)` in the order the provider
//!               returns them; kind 0 message, 1 forced transaction, 2 unknown event;
//!               contract 0 is listened to, 1 is not
//!   rounds      `((finalized (outcome ...)) ...)`: one `run::run` iteration each; outcomes are
//!               consumed by the get_logs calls in order: 0 ok, 1 RPC error response,
//!               2 transport error; ok once exhausted
//! Observation `((result ((from to) ...) db_height (synced height) (page_size successes)) ...
//!               stored)` with `stored = ((height ((kind nonce) ...)) ...)` sorted by height.
use alloy_primitives::{Address, IntoLogData, U256};
use alloy_provider::{
    network::Ethereum,
    transport::{TransportError, TransportErrorKind, TransportResult},
    EthGetBlock, Provider, ProviderCall, RootProvider,
};
use alloy_rpc_client::NoParams;
use alloy_rpc_types_eth::{Block, BlockId, Filter, Log, SyncStatus};
use async_trait::async_trait;
use fuel_core_relayer::{
    bridge::{MessageSent, Transaction},
    ports::Transactional,
    storage::{Column, EventsHistory},
    verif_hooks::VerifTask,
    Config,
};
use fuel_core_storage::{
    structured_storage::test::InMemoryStorage,
    transactional::{IntoTransaction, StorageTransaction, WriteTransaction},
    StorageAsMut, StorageAsRef,
};
use fuel_core_types::{blockchain::primitives::DaBlockHeight, services::relayer::Event};
use std::collections::VecDeque;
use std::sync::{Arc, Mutex};
use vcommon::{catch, Rng, T};

// ---------------------------------------------------------------------------------------
// scripted DA provider

struct PState {
    logs: Vec<Log>,
    finalized: u64,
    script: VecDeque<u64>,
    pages: Vec<(u64, u64)>,
}

#[derive(Clone)]
struct ScriptProvider(Arc<Mutex<PState>>);

#[async_trait]
impl Provider for ScriptProvider {
    fn root(&self) -> &RootProvider<Ethereum> {
        unreachable!()
    }

    fn get_block(&self, block: BlockId) -> EthGetBlock<Block> {
        let this = self.clone();
        EthGetBlock::new_provider(
            block,
            Box::new(move |_| {
                let this = this.clone();
                ProviderCall::BoxedFuture(Box::pin(async move {
                    let mut b: Block = Block::default();
                    b.header.inner.number = this.0.lock().unwrap().finalized;
                    Ok(Some(b))
                }))
            }),
        )
    }

    async fn get_logs(&self, filter: &Filter) -> TransportResult<Vec<Log>> {
        let mut st = self.0.lock().unwrap();
        let from = filter.get_from_block().expect("from_block");
        let to = filter.get_to_block().expect("to_block");
        st.pages.push((from, to));
        match st.script.pop_front().unwrap_or(0) {
            0 => Ok(st
                .logs
                .iter()
                .filter(|log| {
                    filter.matches_address(log.address()) && filter.matches_block_range(log.block_number.unwrap())
                })
                .cloned()
                .collect()),
            1 => Err(TransportError::NullResp),
            _ => Err(TransportErrorKind::custom_str("scripted transport failure")),
        }
    }

    fn syncing(&self) -> ProviderCall<NoParams, SyncStatus> {
        ProviderCall::BoxedFuture(Box::pin(async move { Ok(SyncStatus::None) }))
    }
}

// ---------------------------------------------------------------------------------------
// the relayer storage: the crate's blanket `RelayerDb` (storage.rs) needs `Transactional`

struct MemDb(StorageTransaction<InMemoryStorage<Column>>);

impl MemDb {
    /// every stored DA height, read back from the committed changes of the History column
    fn heights(&self) -> Vec<u64> {
        let mut hs = vec![];
        if let Some(col) = self.0.changes().get(&Column::History.as_u32()) {
            for (k, _) in col.iter() {
                let kb: &[u8] = std::borrow::Borrow::<[u8]>::borrow(k);
                let b: [u8; 8] = kb.try_into().expect("8 byte key");
                hs.push(u64::from_be_bytes(b));
            }
        }
        hs.sort();
        hs
    }
}

impl Transactional for MemDb {
    type Transaction<'a> = StorageTransaction<&'a mut StorageTransaction<InMemoryStorage<Column>>>;

    fn transaction(&mut self) -> Self::Transaction<'_> {
        self.0.write_transaction()
    }

    fn latest_da_height(&self) -> Option<DaBlockHeight> {
        self.heights().last().map(|h| DaBlockHeight(*h))
    }
}

// ---------------------------------------------------------------------------------------

const LISTENED: [u8; 20] = [7u8; 20];
const OTHER: [u8; 20] = [9u8; 20];

fn make_log(height: u64, log_index: u64, kind: u64, nonce: u64, contract: u64) -> Log {
    let address = Address::from(if contract == 0 { LISTENED } else { OTHER });
    let data = match kind {
        0 => MessageSent {
            sender: Default::default(),
            recipient: Default::default(),
            nonce: U256::from(nonce),
            amount: 0,
            data: Default::default(),
        }
        .to_log_data(),
        1 => Transaction {
            nonce: U256::from(nonce),
            max_gas: Default::default(),
            canonically_serialized_tx: Default::default(),
        }
        .to_log_data(),
        _ => alloy_primitives::LogData::new_unchecked(vec![alloy_primitives::B256::from([0xabu8; 32])], Default::default()),
    };
    Log {
        inner: alloy_primitives::Log { address, data },
        block_hash: None,
        block_number: Some(height),
        block_timestamp: None,
        transaction_hash: None,
        transaction_index: None,
        log_index: Some(log_index),
        removed: false,
    }
}

fn nonce_u64(b: &[u8]) -> u64 {
    u64::from_be_bytes(b[b.len() - 8..].try_into().unwrap())
}

fn event_t(e: &Event) -> T {
    match e {
        Event::Message(m) => T::l(vec![T::i(0), T::n(nonce_u64(m.nonce().as_ref()))]),
        Event::Transaction(t) => T::l(vec![T::i(1), T::n(nonce_u64(t.nonce().as_ref()))]),
    }
}

pub fn run(input: &T) -> T {
    let input = input.clone();
    catch(move || {
        let f = input.as_l();
        let deploy = f[0].as_u64();
        let db_init = f[1].as_opt_u64();
        let page_size = f[2].as_u64();
        let max_logs = f[3].as_u64();
        let grow = f[4].as_u64();
        let logs: Vec<Log> = f[5]
            .as_l()
            .iter()
            .map(|l| {
                let l = l.as_l();
                make_log(l[0].as_u64(), l[1].as_u64(), l[2].as_u64(), l[3].as_u64(), l[4].as_u64())
            })
            .collect();
        let mut db = MemDb(InMemoryStorage::default().into_transaction());
        if let Some(h) = db_init {
            let mut tx = db.0.write_transaction();
            tx.storage_as_mut::<EventsHistory>().insert(&DaBlockHeight(h), &[]).unwrap();
            tx.commit().unwrap();
        }
        let provider = ScriptProvider(Arc::new(Mutex::new(PState {
            logs,
            finalized: 0,
            script: VecDeque::new(),
            pages: vec![],
        })));
        let config = Config {
            da_deploy_height: DaBlockHeight(deploy),
            relayer: None,
            eth_v2_listening_contracts: vec![Address::from(LISTENED)],
            log_page_size: page_size,
            max_logs_per_rpc: max_logs,
            sync_minimum_duration: std::time::Duration::ZERO,
            syncing_call_frequency: std::time::Duration::ZERO,
            syncing_log_frequency: std::time::Duration::ZERO,
            metrics: false,
        };
        let mut task = VerifTask::new(provider.clone(), db, config, grow);
        let rt = tokio::runtime::Builder::new_current_thread().enable_time().build().unwrap();
        let mut out = vec![];
        let sync_t = |s: (bool, u64)| T::l(vec![T::b(s.0), T::n(s.1)]);
        // the state published before the first iteration
        out.push(T::l(vec![sync_t(task.sync_state())]));
        for round in f[6].as_l() {
            let r = round.as_l();
            {
                let mut st = provider.0.lock().unwrap();
                st.finalized = r[0].as_u64();
                st.script = r[1].as_l().iter().map(|x| x.as_u64()).collect();
                st.pages.clear();
            }
            let res = rt.block_on(task.run_once());
            let pages: Vec<T> = provider.0.lock().unwrap().pages.iter().map(|(a, b)| T::l(vec![T::n(*a), T::n(*b)])).collect();
            let (ps, succ) = task.page_sizer_state();
            out.push(T::l(vec![
                T::i(if res.is_ok() { 0 } else { 1 }),
                T::l(pages),
                T::opt(task.database().latest_da_height().map(|h| h.0)),
                sync_t(task.sync_state()),
                T::l(vec![T::n(ps), T::n(succ)]),
            ]));
        }
        let db = task.database();
        let stored: Vec<T> = db
            .heights()
            .into_iter()
            .map(|h| {
                let evs = db.0.storage_as_ref::<EventsHistory>().get(&DaBlockHeight(h)).unwrap().expect("listed height");
                T::l(vec![T::n(h), T::l(evs.iter().map(event_t).collect())])
            })
            .collect();
        out.push(T::l(stored));
        T::l(out)
    })
}

// ---------------------------------------------------------------------------------------
// generator

fn case(deploy: u64, db_init: Option<u64>, page: u64, max_logs: u64, grow: u64, logs: &[(u64, u64, u64, u64, u64)], rounds: &[(u64, Vec<u64>)]) -> T {
    T::l(vec![
        T::n(deploy),
        T::opt(db_init),
        T::n(page),
        T::n(max_logs),
        T::n(grow),
        T::l(logs.iter().map(|(h, i, k, n, c)| T::l(vec![T::n(*h), T::n(*i), T::n(*k), T::n(*n), T::n(*c)])).collect()),
        T::l(rounds.iter().map(|(fin, sc)| T::l(vec![T::n(*fin), T::list_n(sc)])).collect()),
    ])
}

fn random_case(rng: &mut Rng, tier: &str) -> T {
    let span = if tier == "thorough" { 40 } else { 16 };
    let base = match rng.below(5) {
        0 => 0,
        1 => 1,
        2 => rng.range(2, 50),
        3 => u64::MAX - 2 - span - rng.range(0, 5),
        _ => rng.next() >> rng.range(8, 60),
    };
    let deploy = base;
    let db_init = match rng.below(4) {
        0 => Some(base.saturating_add(rng.range(0, 3))),
        1 => Some(base.saturating_sub(rng.range(0, 2))),
        _ => None,
    };
    let page = match rng.below(8) {
        0 => 0,
        1 => 1,
        2 => 2,
        3 => span + 5,
        4 => u64::MAX,
        _ => rng.range(1, 8),
    };
    let max_logs = match rng.below(4) {
        0 => 0,
        1 => rng.range(1, 3),
        _ => 10_000,
    };
    let grow = rng.range(1, 4);
    // log set over base .. base+span
    let n_logs = rng.range(0, if tier == "thorough" { 40 } else { 14 });
    let mut logs = vec![];
    let mut nonce = 0u64;
    for _ in 0..n_logs {
        nonce += 1;
        let h = base.saturating_add(rng.range(0, span + 2)).saturating_sub(rng.below(2));
        let idx = rng.range(0, 5);
        let kind = if rng.chance(1, 10) { 2 } else { rng.below(2) };
        let contract = if rng.chance(1, 8) { 1 } else { 0 };
        logs.push((h, idx, kind, nonce, contract));
    }
    // rounds: the finalized height mostly advances, sometimes stalls or goes back
    let n_rounds = rng.range(1, 4);
    let mut fin = base.saturating_add(rng.range(0, span / 2));
    let mut rounds = vec![];
    for _ in 0..n_rounds {
        let len = rng.below(6);
        let script: Vec<u64> = (0..len)
            .map(|_| match rng.below(8) {
                0 => 1,
                1 => 2,
                _ => 0,
            })
            .collect();
        rounds.push((fin, script));
        fin = match rng.below(5) {
            0 => fin,
            1 => fin.saturating_sub(rng.range(1, 3)),
            _ => fin.saturating_add(rng.range(1, span / 2)).min(u64::MAX - 1),
        };
    }
    case(deploy, db_init, page, max_logs, grow, &logs, &rounds)
}

pub fn gen(rng: &mut Rng, n: u64, tier: &str) -> Vec<T> {
    let mut cases = vec![];
    // bounded-exhaustive pagination: gap 1..=7 blocks, page sizes 0..=8, an RPC error at every position
    for gap in 1..=7u64 {
        for page in 0..=8u64 {
            for err_at in 0..=gap {
                for kind in [1u64, 2] {
                    let mut script = vec![0u64; err_at as usize];
                    if err_at < gap {
                        script.push(kind);
                    } else if kind == 2 {
                        continue;
                    }
                    let logs: Vec<(u64, u64, u64, u64, u64)> = (0..gap).map(|i| (10 + i, (gap - i) % 3, i % 2, 100 + i, 0)).collect();
                    cases.push(case(10, None, page, 10_000, 2, &logs, &[(9 + gap, script.clone()), (9 + gap, vec![])]));
                }
            }
        }
    }
    // shrink on too many logs, regrow after `grow` successes
    for max_logs in 0..=3u64 {
        for page in [1u64, 2, 4, 8] {
            let logs: Vec<(u64, u64, u64, u64, u64)> = (0..12u64).map(|i| (5 + i / 2, 7 - (i % 4), i % 3, i, (i % 5 == 4) as u64)).collect();
            cases.push(case(5, None, page, max_logs, 2, &logs, &[(12, vec![]), (20, vec![0, 1, 0, 0, 0, 2]), (20, vec![])]));
        }
    }
    // restart from a stored height, already synced, finalized behind the stored height
    for (db, fin) in [(Some(7u64), 7u64), (Some(7), 6), (Some(7), 8), (Some(0), 0), (None, 0), (None, 4), (None, 5), (None, 3)] {
        cases.push(case(5, db, 3, 10_000, 2, &[(5, 0, 0, 1, 0), (8, 1, 1, 2, 0), (8, 0, 0, 3, 0)], &[(fin, vec![]), (fin + 2, vec![])]));
    }
    for _ in 0..n {
        cases.push(random_case(rng, tier));
    }
    cases
}
