//! Correspondence harness for the Relayer cluster (C29): the real relayer `Task` (hook
//! `fuel_core_relayer::verif_hooks::VerifTask`) is driven one `run::run` iteration at a time
//! against a scripted DA provider (finalized height, log set, per-call RPC outcomes) and the
//! crate's own `RelayerDb` implementation (storage.rs) over an in-memory storage transaction.
mod c29;

use vcommon::{Rng, T};

fn gen(prop: &str, rng: &mut Rng, n: u64, tier: &str) -> Vec<T> {
    match prop {
        "C29" => c29::gen(rng, n, tier),
        p => panic!("unknown property {p}"),
    }
}

fn run(prop: &str, input: &T) -> T {
    match prop {
        "C29" => c29::run(input),
        p => panic!("unknown property {p}"),
    }
}

fn main() {
    vcommon::main_protocol(gen, run);
}
