//! C43: the block aggregator's real fuel <-> protobuf conversions and StorageDB::store_block.
//!
//! (0 (heights))                      store sequence on an empty in-memory database:
//!                                    per store `(accepted current_height?)`
//! (1 policies inputs outputs)        a Script transaction with these parts: real to_proto, the
//!                                    proto message read back field by field through a visitor,
//!                                    and the flag "real from_proto(to_proto(tx)) == tx"
//! (2 policies inputs outputs (ovr))  real to_proto, then the listed proto fields are overwritten
//!                                    (kind 0 input / 1 output: (kind idx pos value) on a narrow
//!                                    integer field, kind 2: policy bits), then real from_proto:
//!                                    `(1 tx)` / `(0)` error / `(-777)` panic
//! (3 height ((receipts of tx 0) ..))  a whole block (one script transaction per receipt list, outbox
//!                                    message ids derived per transaction as the producer does): real
//!                                    convert_block -> decode -> fuel_block_from_protobuf, compared with
//!                                    the original block: `(ok block_eq receipts_eq count count' root_eq id_eq)`
use fuel_core_block_aggregator_api::{
    blocks::old_block_source::{
        convertor_adapter::{
            fuel_to_proto_conversions::proto_tx_from_tx,
            proto_to_fuel_conversions::{fuel_block_from_protobuf, tx_from_proto_tx},
            ProtobufBlockConverter,
        },
        BlockConverter,
    },
    db::{storage_db::StorageDB, table::Column, BlocksStorage},
    protobuf_types::{
        input::Variant as PIn, output::Variant as POut, transaction::Variant as PTx,
        Block as ProtoBlock, Input as ProtoInput, Output as ProtoOutput, Transaction as ProtoTransaction,
    },
};
use fuel_core_storage::{structured_storage::test::InMemoryStorage, transactional::IntoTransaction};
use fuel_core_types::{
    blockchain::{block::Block as FuelBlock, header::PartialBlockHeader},
    fuel_asm::{PanicInstruction, PanicReason},
    fuel_tx::{
        field::{Inputs, Outputs, Policies as PoliciesField},
        policies::{Policies, PolicyType},
        Input, MessageId, Output, Receipt, ScriptExecutionResult, Transaction, TxPointer, UtxoId,
    },
    fuel_types::{Address, AssetId, BlockHeight, Bytes32, ContractId, Nonce},
};
use std::sync::Arc;
use vcommon::{catch, Rng, T};

// ---------------------------------------------------------------- T -> fuel

fn arr32(t: &T) -> [u8; 32] {
    let v = t.as_bytes();
    let mut a = [0u8; 32];
    a.copy_from_slice(&v);
    a
}

const POLICY_TYPES: [PolicyType; 6] = [
    PolicyType::Tip,
    PolicyType::WitnessLimit,
    PolicyType::Maturity,
    PolicyType::MaxFee,
    PolicyType::Expiration,
    PolicyType::Owner,
];

fn policies_of(t: &T) -> Policies {
    let mut p = Policies::default();
    for (i, o) in t.as_l().iter().enumerate() {
        p.set(POLICY_TYPES[i], o.as_opt_u64());
    }
    p
}

fn input_of(t: &T) -> Input {
    let m = t.as_l();
    let f = m[1].as_l();
    let utxo = |i: usize| UtxoId::new(Bytes32::from(arr32(&f[i])), f[i + 1].as_u16());
    let txp = |i: usize| TxPointer::new(BlockHeight::from(f[i].as_u32()), f[i + 1].as_u16());
    match m[0].as_i() {
        0 => Input::coin_signed(
            utxo(0),
            Address::from(arr32(&f[2])),
            f[3].as_u64(),
            AssetId::from(arr32(&f[4])),
            txp(5),
            f[7].as_u16(),
        ),
        1 => Input::coin_predicate(
            utxo(0),
            Address::from(arr32(&f[2])),
            f[3].as_u64(),
            AssetId::from(arr32(&f[4])),
            txp(5),
            f[7].as_u64(),
            f[8].as_bytes(),
            f[9].as_bytes(),
        ),
        2 => Input::contract(
            utxo(0),
            Bytes32::from(arr32(&f[2])),
            Bytes32::from(arr32(&f[3])),
            txp(4),
            ContractId::from(arr32(&f[6])),
        ),
        3 => Input::message_coin_signed(
            Address::from(arr32(&f[0])),
            Address::from(arr32(&f[1])),
            f[2].as_u64(),
            Nonce::from(arr32(&f[3])),
            f[4].as_u16(),
        ),
        4 => Input::message_coin_predicate(
            Address::from(arr32(&f[0])),
            Address::from(arr32(&f[1])),
            f[2].as_u64(),
            Nonce::from(arr32(&f[3])),
            f[4].as_u64(),
            f[5].as_bytes(),
            f[6].as_bytes(),
        ),
        5 => Input::message_data_signed(
            Address::from(arr32(&f[0])),
            Address::from(arr32(&f[1])),
            f[2].as_u64(),
            Nonce::from(arr32(&f[3])),
            f[4].as_u16(),
            f[5].as_bytes(),
        ),
        6 => Input::message_data_predicate(
            Address::from(arr32(&f[0])),
            Address::from(arr32(&f[1])),
            f[2].as_u64(),
            Nonce::from(arr32(&f[3])),
            f[4].as_u64(),
            f[5].as_bytes(),
            f[6].as_bytes(),
            f[7].as_bytes(),
        ),
        k => panic!("bad input tag {k}"),
    }
}

fn output_of(t: &T) -> Output {
    let m = t.as_l();
    let f = m[1].as_l();
    match m[0].as_i() {
        0 => Output::coin(Address::from(arr32(&f[0])), f[1].as_u64(), AssetId::from(arr32(&f[2]))),
        1 => Output::contract(f[0].as_u16(), Bytes32::from(arr32(&f[1])), Bytes32::from(arr32(&f[2]))),
        2 => Output::change(Address::from(arr32(&f[0])), f[1].as_u64(), AssetId::from(arr32(&f[2]))),
        3 => Output::variable(Address::from(arr32(&f[0])), f[1].as_u64(), AssetId::from(arr32(&f[2]))),
        4 => Output::contract_created(ContractId::from(arr32(&f[0])), Bytes32::from(arr32(&f[1]))),
        k => panic!("bad output tag {k}"),
    }
}

fn tx_of(pol: &T, ins: &T, outs: &T) -> Transaction {
    let script = Transaction::script(
        1000,
        vec![1, 2, 3],
        vec![4, 5],
        policies_of(pol),
        ins.as_l().iter().map(input_of).collect(),
        outs.as_l().iter().map(output_of).collect(),
        vec![],
    );
    Transaction::Script(script)
}

// ---------------------------------------------------------------- fuel -> T (result of from_proto)

fn b(x: &[u8]) -> T {
    T::bytes(x)
}

fn fuel_input_t(i: &Input) -> T {
    let utxo = |u: &UtxoId| vec![b(u.tx_id().as_ref()), T::n(u.output_index())];
    let txp = |p: &TxPointer| vec![T::n(u32::from(p.block_height())), T::n(p.tx_index())];
    let (tag, f): (i128, Vec<T>) = match i {
        Input::CoinSigned(c) => {
            let mut f = utxo(&c.utxo_id);
            f.extend([b(c.owner.as_ref()), T::n(c.amount), b(c.asset_id.as_ref())]);
            f.extend(txp(&c.tx_pointer));
            f.push(T::n(c.witness_index));
            (0, f)
        }
        Input::CoinPredicate(c) => {
            let mut f = utxo(&c.utxo_id);
            f.extend([b(c.owner.as_ref()), T::n(c.amount), b(c.asset_id.as_ref())]);
            f.extend(txp(&c.tx_pointer));
            f.extend([T::n(c.predicate_gas_used), b(c.predicate.as_ref()), b(c.predicate_data.as_ref())]);
            (1, f)
        }
        Input::Contract(c) => {
            let mut f = utxo(&c.utxo_id);
            f.extend([b(c.balance_root.as_ref()), b(c.state_root.as_ref())]);
            f.extend(txp(&c.tx_pointer));
            f.push(b(c.contract_id.as_ref()));
            (2, f)
        }
        Input::MessageCoinSigned(m) => (
            3,
            vec![b(m.sender.as_ref()), b(m.recipient.as_ref()), T::n(m.amount), b(m.nonce.as_ref()), T::n(m.witness_index)],
        ),
        Input::MessageCoinPredicate(m) => (
            4,
            vec![
                b(m.sender.as_ref()), b(m.recipient.as_ref()), T::n(m.amount), b(m.nonce.as_ref()),
                T::n(m.predicate_gas_used), b(m.predicate.as_ref()), b(m.predicate_data.as_ref()),
            ],
        ),
        Input::MessageDataSigned(m) => (
            5,
            vec![
                b(m.sender.as_ref()), b(m.recipient.as_ref()), T::n(m.amount), b(m.nonce.as_ref()),
                T::n(m.witness_index), b(m.data.as_ref()),
            ],
        ),
        Input::MessageDataPredicate(m) => (
            6,
            vec![
                b(m.sender.as_ref()), b(m.recipient.as_ref()), T::n(m.amount), b(m.nonce.as_ref()),
                T::n(m.predicate_gas_used), b(m.data.as_ref()), b(m.predicate.as_ref()), b(m.predicate_data.as_ref()),
            ],
        ),
    };
    T::l(vec![T::i(tag), T::l(f)])
}

fn fuel_output_t(o: &Output) -> T {
    let (tag, f): (i128, Vec<T>) = match o {
        Output::Coin { to, amount, asset_id } => (0, vec![b(to.as_ref()), T::n(*amount), b(asset_id.as_ref())]),
        Output::Contract(c) => (1, vec![T::n(c.input_index), b(c.balance_root.as_ref()), b(c.state_root.as_ref())]),
        Output::Change { to, amount, asset_id } => (2, vec![b(to.as_ref()), T::n(*amount), b(asset_id.as_ref())]),
        Output::Variable { to, amount, asset_id } => (3, vec![b(to.as_ref()), T::n(*amount), b(asset_id.as_ref())]),
        Output::ContractCreated { contract_id, state_root } => (4, vec![b(contract_id.as_ref()), b(state_root.as_ref())]),
    };
    T::l(vec![T::i(tag), T::l(f)])
}

fn fuel_tx_t(tx: &Transaction) -> T {
    let Transaction::Script(s) = tx else { panic!("not a script") };
    let pol = s.policies();
    T::l(vec![
        T::l(POLICY_TYPES.iter().map(|t| T::opt(pol.get(*t))).collect()),
        T::l(s.inputs().iter().map(fuel_input_t).collect()),
        T::l(s.outputs().iter().map(fuel_output_t).collect()),
    ])
}

// ---------------------------------------------------------------- proto visitor

fn proto_input_t(i: &ProtoInput) -> T {
    let utxo = |u: &Option<fuel_core_block_aggregator_api::protobuf_types::UtxoId>| {
        let u = u.as_ref().expect("utxo");
        vec![b(&u.tx_id), T::n(u.output_index)]
    };
    let txp = |p: &Option<fuel_core_block_aggregator_api::protobuf_types::TxPointer>| {
        let p = p.as_ref().expect("tx pointer");
        vec![T::n(p.block_height), T::n(p.tx_index)]
    };
    let (tag, f): (i128, Vec<T>) = match i.variant.as_ref().expect("variant") {
        PIn::CoinSigned(c) => {
            let mut f = utxo(&c.utxo_id);
            f.extend([b(&c.owner), T::n(c.amount), b(&c.asset_id)]);
            f.extend(txp(&c.tx_pointer));
            f.extend([T::n(c.witness_index), T::n(c.predicate_gas_used), b(&c.predicate), b(&c.predicate_data)]);
            (0, f)
        }
        PIn::CoinPredicate(c) => {
            let mut f = utxo(&c.utxo_id);
            f.extend([b(&c.owner), T::n(c.amount), b(&c.asset_id)]);
            f.extend(txp(&c.tx_pointer));
            f.extend([T::n(c.witness_index), T::n(c.predicate_gas_used), b(&c.predicate), b(&c.predicate_data)]);
            (1, f)
        }
        PIn::Contract(c) => {
            let mut f = utxo(&c.utxo_id);
            f.extend([b(&c.balance_root), b(&c.state_root)]);
            f.extend(txp(&c.tx_pointer));
            f.push(b(&c.contract_id));
            (2, f)
        }
        PIn::MessageCoinSigned(m) => (3, vec![
            b(&m.sender), b(&m.recipient), T::n(m.amount), b(&m.nonce), T::n(m.witness_index),
            T::n(m.predicate_gas_used), b(&m.data), b(&m.predicate), b(&m.predicate_data)]),
        PIn::MessageCoinPredicate(m) => (4, vec![
            b(&m.sender), b(&m.recipient), T::n(m.amount), b(&m.nonce), T::n(m.witness_index),
            T::n(m.predicate_gas_used), b(&m.data), b(&m.predicate), b(&m.predicate_data)]),
        PIn::MessageDataSigned(m) => (5, vec![
            b(&m.sender), b(&m.recipient), T::n(m.amount), b(&m.nonce), T::n(m.witness_index),
            T::n(m.predicate_gas_used), b(&m.data), b(&m.predicate), b(&m.predicate_data)]),
        PIn::MessageDataPredicate(m) => (6, vec![
            b(&m.sender), b(&m.recipient), T::n(m.amount), b(&m.nonce), T::n(m.witness_index),
            T::n(m.predicate_gas_used), b(&m.data), b(&m.predicate), b(&m.predicate_data)]),
    };
    T::l(vec![T::i(tag), T::l(f)])
}

fn proto_output_t(o: &ProtoOutput) -> T {
    let (tag, f): (i128, Vec<T>) = match o.variant.as_ref().expect("variant") {
        POut::Coin(c) => (0, vec![b(&c.to), T::n(c.amount), b(&c.asset_id)]),
        POut::Contract(c) => (1, vec![T::n(c.input_index), b(&c.balance_root), b(&c.state_root)]),
        POut::Change(c) => (2, vec![b(&c.to), T::n(c.amount), b(&c.asset_id)]),
        POut::Variable(c) => (3, vec![b(&c.to), T::n(c.amount), b(&c.asset_id)]),
        POut::ContractCreated(c) => (4, vec![b(&c.contract_id), b(&c.state_root)]),
    };
    T::l(vec![T::i(tag), T::l(f)])
}

fn proto_tx_t(p: &ProtoTransaction) -> T {
    let Some(PTx::Script(s)) = p.variant.as_ref() else { panic!("not a script") };
    let pol = s.policies.as_ref().expect("policies");
    T::l(vec![
        T::n(pol.bits),
        T::list_n(&pol.values),
        T::l(s.inputs.iter().map(proto_input_t).collect()),
        T::l(s.outputs.iter().map(proto_output_t).collect()),
    ])
}

/// overwrite the integer field at schema position `pos` of a proto input / output
fn override_input(i: &mut ProtoInput, pos: usize, v: u64) {
    let v32 = v as u32;
    match i.variant.as_mut().expect("variant") {
        PIn::CoinSigned(c) => match pos {
            1 => c.utxo_id.as_mut().unwrap().output_index = v32,
            5 => c.tx_pointer.as_mut().unwrap().block_height = v32,
            6 => c.tx_pointer.as_mut().unwrap().tx_index = v32,
            7 => c.witness_index = v32,
            3 => c.amount = v,
            _ => panic!("no integer field at {pos}"),
        },
        PIn::CoinPredicate(c) => match pos {
            1 => c.utxo_id.as_mut().unwrap().output_index = v32,
            5 => c.tx_pointer.as_mut().unwrap().block_height = v32,
            6 => c.tx_pointer.as_mut().unwrap().tx_index = v32,
            7 => c.witness_index = v32,
            8 => c.predicate_gas_used = v,
            _ => panic!("no integer field at {pos}"),
        },
        PIn::Contract(c) => match pos {
            1 => c.utxo_id.as_mut().unwrap().output_index = v32,
            4 => c.tx_pointer.as_mut().unwrap().block_height = v32,
            5 => c.tx_pointer.as_mut().unwrap().tx_index = v32,
            _ => panic!("no integer field at {pos}"),
        },
        PIn::MessageCoinSigned(m) => match pos {
            4 => m.witness_index = v32,
            5 => m.predicate_gas_used = v,
            _ => panic!("no integer field at {pos}"),
        },
        PIn::MessageCoinPredicate(m) => match pos {
            4 => m.witness_index = v32,
            5 => m.predicate_gas_used = v,
            _ => panic!("no integer field at {pos}"),
        },
        PIn::MessageDataSigned(m) => match pos {
            4 => m.witness_index = v32,
            5 => m.predicate_gas_used = v,
            _ => panic!("no integer field at {pos}"),
        },
        PIn::MessageDataPredicate(m) => match pos {
            4 => m.witness_index = v32,
            5 => m.predicate_gas_used = v,
            _ => panic!("no integer field at {pos}"),
        },
    }
}

fn override_output(o: &mut ProtoOutput, pos: usize, v: u64) {
    match o.variant.as_mut().expect("variant") {
        POut::Contract(c) if pos == 0 => c.input_index = v as u32,
        POut::Coin(c) if pos == 1 => c.amount = v,
        POut::Change(c) if pos == 1 => c.amount = v,
        POut::Variable(c) if pos == 1 => c.amount = v,
        _ => panic!("no integer field at {pos}"),
    }
}

// ---------------------------------------------------------------- run

fn run_store(input: &T) -> T {
    let heights: Vec<u32> = input.as_l()[1].as_l().iter().map(|h| h.as_u32()).collect();
    let rt = tokio_lite::block_on(async move {
        let db = InMemoryStorage::<Column>::default().into_transaction();
        let mut adapter = StorageDB::new(db);
        let block: Arc<[u8]> = Arc::from(vec![1u8, 2, 3].into_boxed_slice());
        let mut out = vec![];
        for h in heights {
            let ok = adapter.store_block(BlockHeight::from(h), &block).await.is_ok();
            let cur = adapter.get_current_height().expect("height").map(u32::from);
            out.push(T::l(vec![T::b(ok), T::opt(cur)]));
        }
        T::l(out)
    });
    rt
}

/// store_block is an async fn that never actually suspends: a minimal executor is enough
mod tokio_lite {
    use std::future::Future;
    use std::pin::pin;
    use std::task::{Context, Poll, RawWaker, RawWakerVTable, Waker};
    fn noop_raw() -> RawWaker {
        fn no(_: *const ()) {}
        fn clone(_: *const ()) -> RawWaker {
            noop_raw()
        }
        static VT: RawWakerVTable = RawWakerVTable::new(clone, no, no, no);
        RawWaker::new(std::ptr::null(), &VT)
    }
    pub fn block_on<F: Future>(f: F) -> F::Output {
        let waker = unsafe { Waker::from_raw(noop_raw()) };
        let mut cx = Context::from_waker(&waker);
        let mut f = pin!(f);
        for _ in 0..1_000_000 {
            if let Poll::Ready(v) = f.as_mut().poll(&mut cx) {
                return v;
            }
        }
        panic!("future did not complete")
    }
}

fn run_roundtrip(input: &T) -> T {
    let f = input.as_l();
    let tx = tx_of(&f[1], &f[2], &f[3]);
    let proto = proto_tx_from_tx(&tx);
    let back = tx_from_proto_tx(&proto);
    let same = matches!(&back, Ok(t) if *t == tx);
    T::l(vec![proto_tx_t(&proto), T::b(same)])
}

fn run_override(input: &T) -> T {
    let f = input.as_l();
    let tx = tx_of(&f[1], &f[2], &f[3]);
    let mut proto = proto_tx_from_tx(&tx);
    {
        let Some(PTx::Script(s)) = proto.variant.as_mut() else { panic!("not a script") };
        for o in f[4].as_l() {
            let o = o.as_l();
            let (kind, idx, pos, v) = (o[0].as_i(), o[1].as_usize(), o[2].as_usize(), o[3].as_u64());
            match kind {
                0 => {
                    if let Some(i) = s.inputs.get_mut(idx) {
                        override_input(i, pos, v)
                    }
                }
                1 => {
                    if let Some(x) = s.outputs.get_mut(idx) {
                        override_output(x, pos, v)
                    }
                }
                _ => s.policies.as_mut().unwrap().bits = v as u32,
            }
        }
    }
    match std::panic::catch_unwind(std::panic::AssertUnwindSafe(|| tx_from_proto_tx(&proto))) {
        Err(_) => T::l(vec![T::i(-777)]),
        Ok(Err(_)) => T::l(vec![T::i(0)]),
        Ok(Ok(t)) => T::l(vec![T::i(1), fuel_tx_t(&t)]),
    }
}

fn run(prop: &str, input: &T) -> T {
    assert_eq!(prop, "C43");
    let input = input.clone();
    catch(move || match input.as_l()[0].as_i() {
        0 => run_store(&input),
        1 => run_roundtrip(&input),
        2 => run_override(&input),
        3 => run_block(&input),
        k => panic!("bad form {k}"),
    })
}

// ---------------------------------------------------------------- whole blocks

fn receipt_of(t: &T, tx: usize, pos: usize) -> Receipt {
    let r = t.as_l();
    let cid = ContractId::from([(tx as u8).wrapping_mul(16).wrapping_add(pos as u8); 32]);
    match r[0].as_i() {
        0 => Receipt::ret(cid, 7, 4, 8),
        1 => Receipt::revert(cid, 42, 4, 8),
        2 => Receipt::panic(cid, PanicInstruction::error(PanicReason::OutOfGas, 0), 4, 8),
        3 => {
            let seed = r[1].as_u64() as u8;
            let data = vec![seed; 8];
            let digest = Output::message_digest(&data);
            Receipt::message_out_with_len(
                Address::from([seed; 32]),
                Address::from([seed.wrapping_add(1); 32]),
                u64::from(seed),
                Nonce::from([seed.wrapping_add(2); 32]),
                data.len() as u64,
                digest,
                Some(data),
            )
        }
        4 => Receipt::script_result(ScriptExecutionResult::Success, 10 + pos as u64),
        k => panic!("bad receipt kind {k}"),
    }
}

/// the outbox message ids as the block producer derives them: per transaction, the ids of
/// its MessageOut receipts unless that very transaction reverted or panicked
fn producer_message_ids(receipts: &[Vec<Receipt>]) -> Vec<MessageId> {
    let mut ids = vec![];
    for rs in receipts {
        let reverted = rs.iter().any(|r| matches!(r, Receipt::Revert { .. } | Receipt::Panic { .. }));
        if !reverted {
            ids.extend(rs.iter().filter_map(|r| r.message_id()));
        }
    }
    ids
}

fn run_block(input: &T) -> T {
    let f = input.as_l();
    let height = f[1].as_u32();
    let receipts: Vec<Vec<Receipt>> = f[2]
        .as_l()
        .iter()
        .enumerate()
        .map(|(tx, rs)| rs.as_l().iter().enumerate().map(|(pos, r)| receipt_of(r, tx, pos)).collect())
        .collect();
    let txs: Vec<Transaction> = (0..receipts.len())
        .map(|i| {
            Transaction::Script(Transaction::script(
                1000 + i as u64,
                vec![0x24, 0x00, 0x00, 0x00],
                vec![i as u8],
                Policies::new().with_max_fee(1000 + i as u64),
                vec![],
                vec![],
                vec![],
            ))
        })
        .collect();
    let mut header = PartialBlockHeader::default();
    header.consensus.height = BlockHeight::from(height);
    let ids = producer_message_ids(&receipts);
    let block = FuelBlock::new(header, txs, &ids, Bytes32::from([7u8; 32])).expect("block");
    let bytes = ProtobufBlockConverter.convert_block(&block, &receipts).expect("convert_block");
    let proto = <ProtoBlock as prost::Message>::decode(&*bytes).expect("decode");
    match fuel_block_from_protobuf(proto) {
        Err(_) => T::l(vec![T::b(false)]),
        Ok((b2, r2)) => T::l(vec![
            T::b(true),
            T::b(b2 == block),
            T::b(r2 == receipts),
            T::n(block.header().message_receipt_count()),
            T::n(b2.header().message_receipt_count()),
            T::b(b2.header().message_outbox_root() == block.header().message_outbox_root()),
            T::b(b2.header().id() == block.header().id()),
        ]),
    }
}

// ---------------------------------------------------------------- generators

fn bytes32(rng: &mut Rng) -> T {
    let x = rng.below(256);
    if rng.chance(1, 2) {
        T::l((0..32).map(|_| T::n(x)).collect())
    } else {
        T::l((0..32).map(|_| T::n(rng.below(256))).collect())
    }
}
fn varbytes(rng: &mut Rng) -> T {
    let n = *rng.pick(&[0u64, 0, 1, 3, 40]);
    T::l((0..n).map(|_| T::n(rng.below(256))).collect())
}
fn n16(rng: &mut Rng) -> T {
    T::n(*rng.pick(&[0u64, 1, 255, 256, 65534, 65535]))
}
fn n32(rng: &mut Rng) -> T {
    T::n(*rng.pick(&[0u64, 1, 65535, 65536, u32::MAX as u64 - 1, u32::MAX as u64]))
}
fn n64(rng: &mut Rng) -> T {
    T::n(*rng.pick(&[0u64, 1, u32::MAX as u64, u32::MAX as u64 + 1, u64::MAX - 1, u64::MAX]))
}

fn gen_input(rng: &mut Rng, tag: u64) -> T {
    let f = match tag {
        0 => vec![bytes32(rng), n16(rng), bytes32(rng), n64(rng), bytes32(rng), n32(rng), n16(rng), n16(rng)],
        1 => vec![bytes32(rng), n16(rng), bytes32(rng), n64(rng), bytes32(rng), n32(rng), n16(rng), n64(rng), varbytes(rng), varbytes(rng)],
        2 => vec![bytes32(rng), n16(rng), bytes32(rng), bytes32(rng), n32(rng), n16(rng), bytes32(rng)],
        3 => vec![bytes32(rng), bytes32(rng), n64(rng), bytes32(rng), n16(rng)],
        4 => vec![bytes32(rng), bytes32(rng), n64(rng), bytes32(rng), n64(rng), varbytes(rng), varbytes(rng)],
        5 => vec![bytes32(rng), bytes32(rng), n64(rng), bytes32(rng), n16(rng), varbytes(rng)],
        _ => vec![bytes32(rng), bytes32(rng), n64(rng), bytes32(rng), n64(rng), varbytes(rng), varbytes(rng), varbytes(rng)],
    };
    T::l(vec![T::n(tag), T::l(f)])
}
fn gen_output(rng: &mut Rng, tag: u64) -> T {
    let f = match tag {
        0 | 2 | 3 => vec![bytes32(rng), n64(rng), bytes32(rng)],
        1 => vec![n16(rng), bytes32(rng), bytes32(rng)],
        _ => vec![bytes32(rng), bytes32(rng)],
    };
    T::l(vec![T::n(tag), T::l(f)])
}
fn gen_policies(rng: &mut Rng) -> T {
    T::l((0..6)
        .map(|i| {
            if rng.chance(1, 2) {
                T::l(vec![])
            } else if i == 2 || i == 4 {
                T::l(vec![n32(rng)]) // maturity / expiration are block heights
            } else {
                T::l(vec![n64(rng)])
            }
        })
        .collect())
}

/// integer positions (schema order) of the proto message that are narrower in fuel
const NARROW_IN: [&[usize]; 7] = [&[1, 6, 7], &[1, 6], &[1, 5], &[4], &[], &[4], &[]];
/// proto-only integer fields (ignored by from_proto) and same-width fields
const OTHER_IN: [&[usize]; 7] = [&[5, 3], &[5, 7, 8], &[4], &[5], &[4, 5], &[5], &[4, 5]];

fn gen(prop: &str, rng: &mut Rng, n: u64, tier: &str) -> Vec<T> {
    assert_eq!(prop, "C43");
    let thorough = tier == "thorough";
    let mut cases = vec![];
    // (0) store sequences: every sequence of <= 3 heights over a small universe + random
    let hs: [u64; 6] = [0, 1, 2, 3, u32::MAX as u64 - 1, u32::MAX as u64];
    for a in hs {
        cases.push(T::l(vec![T::i(0), T::list_n(&[a])]));
        for b in hs {
            cases.push(T::l(vec![T::i(0), T::list_n(&[a, b])]));
            for c in hs {
                cases.push(T::l(vec![T::i(0), T::list_n(&[a, b, c])]));
            }
        }
    }
    for _ in 0..n / 4 {
        let len = rng.range(1, 10);
        let mut cur = *rng.pick(&hs);
        let mut seq = vec![];
        for _ in 0..len {
            let h = match rng.below(6) {
                0 => *rng.pick(&hs),
                1 => cur,
                2 => cur.saturating_sub(1),
                3 => (cur + 2).min(u32::MAX as u64),
                _ => (cur + 1).min(u32::MAX as u64),
            };
            seq.push(h);
            cur = h;
        }
        cases.push(T::l(vec![T::i(0), T::list_n(&seq)]));
    }
    // (1) round trips: every input / output variant alone, then random transactions
    for tag in 0..7 {
        for _ in 0..(if thorough { 40 } else { 8 }) {
            let i = gen_input(rng, tag);
            cases.push(T::l(vec![T::i(1), gen_policies(rng), T::l(vec![i]), T::l(vec![])]));
        }
    }
    for tag in 0..5 {
        for _ in 0..(if thorough { 40 } else { 8 }) {
            let o = gen_output(rng, tag);
            cases.push(T::l(vec![T::i(1), gen_policies(rng), T::l(vec![]), T::l(vec![o])]));
        }
    }
    for _ in 0..n {
        let ni = rng.below(4);
        let no = rng.below(4);
        let ins: Vec<T> = (0..ni).map(|_| { let t = rng.below(7); gen_input(rng, t) }).collect();
        let outs: Vec<T> = (0..no).map(|_| { let t = rng.below(5); gen_output(rng, t) }).collect();
        cases.push(T::l(vec![T::i(1), gen_policies(rng), T::l(ins), T::l(outs)]));
    }
    // (2) overridden proto messages: every narrow field at 65535 / 65536 / u32::MAX, the ignored
    //     fields, the policy bits (valid / unknown bit => the `expect` panics)
    for tag in 0..7usize {
        for (set, vals) in [(NARROW_IN[tag], [65535u64, 65536, u32::MAX as u64]), (OTHER_IN[tag], [0, 7, u32::MAX as u64])] {
            for &pos in set {
                for v in vals {
                    let i = gen_input(rng, tag as u64);
                    let ovr = T::l(vec![T::l(vec![T::i(0), T::n(0u64), T::n(pos as u64), T::n(v)])]);
                    cases.push(T::l(vec![T::i(2), gen_policies(rng), T::l(vec![i]), T::l(vec![]), ovr]));
                }
            }
        }
    }
    for v in [0u64, 65535, 65536, u32::MAX as u64] {
        let o = gen_output(rng, 1);
        let ovr = T::l(vec![T::l(vec![T::i(1), T::n(0u64), T::n(0u64), T::n(v)])]);
        cases.push(T::l(vec![T::i(2), gen_policies(rng), T::l(vec![]), T::l(vec![o]), ovr]));
    }
    // (3) whole blocks: every assignment of one of 6 receipt shapes to each of 2 (thorough 3)
    //     transactions (none / return / revert / panic / message / message+revert), plus random
    //     blocks of 0..5 transactions with 0..4 receipts each
    let shapes: [&[(u64, u64)]; 6] = [&[], &[(0, 0)], &[(1, 0)], &[(2, 0)], &[(3, 1)], &[(3, 1), (1, 0)]];
    let rc = |k: u64, seed: u64| if k == 3 { T::l(vec![T::i(3), T::n(seed)]) } else { T::l(vec![T::n(k)]) };
    let ntx = if thorough { 3 } else { 2 };
    let mut idx = vec![0usize; ntx];
    loop {
        let txs: Vec<T> = idx
            .iter()
            .enumerate()
            .map(|(t, &sh)| {
                let mut rs: Vec<T> = shapes[sh].iter().map(|&(k, s)| rc(k, s + 10 * t as u64)).collect();
                rs.push(rc(4, 0));
                T::l(rs)
            })
            .collect();
        cases.push(T::l(vec![T::i(3), T::n(5u64), T::l(txs)]));
        let mut i = 0;
        while i < ntx {
            idx[i] += 1;
            if idx[i] < shapes.len() {
                break;
            }
            idx[i] = 0;
            i += 1;
        }
        if i == ntx {
            break;
        }
    }
    for _ in 0..(n / 6).max(20) {
        let ntx = rng.below(6);
        let txs: Vec<T> = (0..ntx)
            .map(|_| {
                let nr = rng.below(5);
                T::l((0..nr)
                    .map(|_| {
                        let k = *rng.pick(&[0u64, 1, 2, 3, 3, 3, 4]);
                        let seed = rng.below(200);
                        rc(k, seed)
                    })
                    .collect())
            })
            .collect();
        let h = *rng.pick(&[0u64, 1, 5, u32::MAX as u64]);
        cases.push(T::l(vec![T::i(3), T::n(h), T::l(txs)]));
    }
    for bits in [0u64, 1, 21, 63, 64, 65, 128, u32::MAX as u64] {
        let ovr = T::l(vec![T::l(vec![T::i(2), T::n(0u64), T::n(0u64), T::n(bits)])]);
        cases.push(T::l(vec![T::i(2), gen_policies(rng), T::l(vec![]), T::l(vec![]), ovr]));
    }
    cases
}

fn main() {
    vcommon::main_protocol(gen, run);
}
