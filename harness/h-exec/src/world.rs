//! Generated chains: genesis tables, transactions, blocks.  Every choice derives from the
//! one `Rng` seeded by the case.
use crate::abs::Interner;
use fuel_core::database::{
    database_description::{on_chain::OnChain, relayer::Relayer},
    Database,
};
use fuel_core_executor::ports::MaybeCheckedTransaction;
use fuel_core_storage::{
    tables::{
        Coins, ConsensusParametersVersions, ContractsLatestUtxo, ContractsRawCode, Messages,
    },
    transactional::WriteTransaction,
    StorageAsMut,
};
use fuel_core_types::{
    entities::{
        coins::coin::{CompressedCoin, CompressedCoinV1},
        contract::ContractUtxoInfo,
        relayer::message::{Message, MessageV1},
    },
    fuel_asm::{op, RegId},
    fuel_crypto::SecretKey,
    fuel_tx::{
        input::Input, Address, AssetId, Bytes32, ConsensusParameters, ContractId, FeeParameters,
        Finalizable, Output, Transaction, TransactionBuilder, TxParameters, TxPointer,
        UniqueIdentifier, UtxoId,
    },
    fuel_types::{BlockHeight, Nonce},
    fuel_vm::{checked_transaction::IntoChecked, script_with_data_offset},
};
use vcommon::Rng;

pub const F_NOFORBID: u64 = 1;
pub const F_COLLIDE: u64 = 2;
pub const F_HUGEFEE: u64 = 4;
pub const F_TINYGAS: u64 = 8;
pub const F_TINYSIZE: u64 = 16;
pub const F_RELAYER: u64 = 32;
pub const F_BADRECIPIENT: u64 = 64;
/// block gas limit = max_gas of the first generated transaction (boundary of the pre-check)
pub const F_EXACTGAS: u64 = 128;

#[derive(Clone)]
pub struct KnownCoin {
    pub utxo: UtxoId,
    pub wallet: usize,
    pub amount: u64,
    pub asset: AssetId,
    pub used: bool,
}

#[derive(Clone)]
pub struct KnownMsg {
    pub msg: Message,
    pub wallet: usize,
    pub used: bool,
}

/// wallet index of the predicate-owned coins and messages
pub const PRED: usize = usize::MAX;

pub struct World {
    /// an always-true predicate and the address it owns
    pub predicate: Vec<u8>,
    pub pred_owner: Address,
    pub flags: u64,
    pub params: ConsensusParameters,
    pub forbid: bool,
    pub wallets: Vec<(SecretKey, Address)>,
    pub assets: Vec<AssetId>,
    pub db: Database<OnChain>,
    pub relayer: Database<Relayer>,
    pub int: Interner,
    pub coins: Vec<KnownCoin>,
    pub msgs: Vec<KnownMsg>,
    pub txs: Vec<Transaction>,
    pub contract: ContractId,
    pub height: u32,
    pub da_height: u64,
    /// max_gas of the last generated huge-fee transaction (flag F_HUGEFEE)
    pub huge_max_gas: Option<u64>,
    /// reverting transactions spending only a retryable message (replayable but for their id)
    pub retry_txs: Vec<Transaction>,
    /// non-mint transactions of the committed blocks, in their executed form
    pub executed: Vec<Transaction>,
    /// validate tampered variants of every produced block
    pub tamper: bool,
    /// dry-run requests before every block
    pub dry: bool,
    /// relayer history (flag F_RELAYER): DA height -> events, ascending
    pub relayed: Vec<(u64, Vec<fuel_core_types::services::relayer::Event>)>,
    /// the block at height 0 exists (flag F_RELAYER; one case in 12 leaves it out)
    pub has_genesis_block: bool,
}

fn bytes32(rng: &mut Rng) -> [u8; 32] {
    let mut b = [0u8; 32];
    for c in b.chunks_mut(8) {
        c.copy_from_slice(&rng.next().to_be_bytes());
    }
    b
}

fn secret(rng: &mut Rng) -> SecretKey {
    loop {
        let b = bytes32(rng);
        if let Ok(s) = SecretKey::try_from(&b[..]) {
            return s;
        }
    }
}

pub fn amount(rng: &mut Rng, flags: u64) -> u64 {
    match rng.below(12) {
        0 => 1,
        1 => 7,
        2..=3 => rng.range(1_000, 5_000),
        4..=10 => rng.range(1_000_000, 9_000_000),
        _ => {
            if flags & F_HUGEFEE != 0 {
                u64::MAX - rng.below(3)
            } else {
                rng.range(10_000_000, 50_000_000)
            }
        }
    }
}

impl World {
    pub fn new(rng: &mut Rng, flags: u64) -> World {
        let mut params = ConsensusParameters::default();
        let factor = *rng.pick(&[1u64, 1, 2, 92]);
        params.set_fee_params(FeeParameters::default().with_gas_price_factor(factor));
        let tx_max_gas = params.tx_params().max_gas_per_tx();
        if flags & F_TINYGAS != 0 {
            // a few transactions fill the block
            params.set_block_gas_limit(rng.range(150_000, 600_000));
        } else {
            params.set_block_gas_limit(tx_max_gas.max(30_000_000));
        }
        if flags & F_TINYSIZE != 0 {
            params.set_block_transaction_size_limit(rng.range(300, 1500)).expect("size limit");
        }
        let wallets: Vec<(SecretKey, Address)> = (0..3)
            .map(|_| {
                let s = secret(rng);
                let a = Input::owner(&s.public_key());
                (s, a)
            })
            .collect();
        let predicate: Vec<u8> = vec![op::ret(RegId::ONE)].into_iter().collect();
        let pred_owner = Input::predicate_owner(&predicate);
        let assets = vec![AssetId::BASE, AssetId::new(bytes32(rng))];
        let mut db = Database::<OnChain>::in_memory();
        let relayer = Database::<Relayer>::in_memory();
        let contract = ContractId::new(bytes32(rng));
        let mut coins = vec![];
        let mut msgs = vec![];
        {
            let mut tx = db.write_transaction();
            tx.storage_as_mut::<ConsensusParametersVersions>()
                .insert(&0, &params)
                .unwrap();
            // coinbase recipient contract
            tx.storage_as_mut::<ContractsRawCode>()
                .insert(&contract, [].as_ref())
                .unwrap();
            tx.storage_as_mut::<ContractsLatestUtxo>()
                .insert(
                    &contract,
                    &ContractUtxoInfo::V1((UtxoId::new(Bytes32::new(bytes32(rng)), 0), TxPointer::default()).into()),
                )
                .unwrap();
            let n_coins = rng.range(5, 10);
            for k in 0..n_coins {
                let wallet = if rng.chance(1, 4) { PRED } else { rng.below(3) as usize };
                let owner_addr = if wallet == PRED { pred_owner } else { wallets[wallet].1 };
                let asset = if rng.chance(1, 5) { assets[1] } else { assets[0] };
                let amt = if flags & F_HUGEFEE != 0 && k < 3 && asset == assets[0] {
                    u64::MAX - rng.below(2)
                } else {
                    amount(rng, flags)
                };
                let utxo = UtxoId::new(Bytes32::new(bytes32(rng)), rng.below(3) as u16);
                let coin: CompressedCoin = CompressedCoinV1 {
                    owner: owner_addr,
                    amount: amt,
                    asset_id: asset,
                    tx_pointer: TxPointer::new(BlockHeight::new(0), k as u16),
                }
                .into();
                tx.storage_as_mut::<Coins>().insert(&utxo, &coin).unwrap();
                coins.push(KnownCoin { utxo, wallet, amount: amt, asset, used: false });
            }
            let n_msgs = rng.range(3, 6);
            for _ in 0..n_msgs {
                let wallet = if rng.chance(1, 3) { PRED } else { rng.below(3) as usize };
                let data = if rng.chance(1, 2) { vec![] } else { vec![0xab; rng.range(1, 6) as usize] };
                let m: Message = MessageV1 {
                    sender: Address::new(bytes32(rng)),
                    recipient: if wallet == PRED { pred_owner } else { wallets[wallet].1 },
                    nonce: Nonce::new(bytes32(rng)),
                    amount: amount(rng, 0),
                    data,
                    da_height: (*rng.pick(&[0u64, 0, 0, 0, 1, 3])).into(),
                }
                .into();
                tx.storage_as_mut::<Messages>().insert(m.nonce(), &m).unwrap();
                msgs.push(KnownMsg { msg: m, wallet, used: false });
            }
            tx.commit().unwrap();
        }
        World {
            predicate,
            pred_owner,
            flags,
            params,
            forbid: flags & F_NOFORBID == 0,
            wallets,
            assets,
            db,
            relayer,
            int: Interner::new(),
            coins,
            msgs,
            txs: vec![],
            contract,
            height: 1,
            da_height: 0,
            huge_max_gas: None,
            retry_txs: vec![],
            executed: vec![],
            tamper: false,
            dry: false,
            relayed: vec![],
            has_genesis_block: false,
        }
    }

    /// Relayer history and the block at height 0 (flag F_RELAYER).  The events go through the
    /// relayer database's own write path (EventsHistory insert + height-checked commit, one
    /// DA height per commit as RelayerDb::insert_events does).
    pub fn init_relayer(&mut self, rng: &mut Rng) {
        use fuel_core_relayer::storage::EventsHistory;
        use fuel_core_storage::tables::FuelBlocks;
        use fuel_core_types::{
            blockchain::block::Block,
            entities::{relayer::transaction::RelayedTransactionV1, RelayedTransaction},
            fuel_types::canonical::Serialize,
            services::relayer::Event,
        };
        let d0: u64 = *rng.pick(&[0u64, 0, 0, 2, 2, u64::MAX - 2, u64::MAX]);
        self.da_height = d0;
        self.has_genesis_block = !rng.chance(1, 12);
        if self.has_genesis_block {
            let mut block = Block::default();
            block.header_mut().set_da_height(d0.into());
            block.header_mut().recalculate_metadata();
            let mut t = self.db.write_transaction();
            t.storage_as_mut::<FuelBlocks>()
                .insert(&BlockHeight::new(0), &block.compress(&self.params.chain_id()))
                .unwrap();
            t.commit().unwrap();
        }
        let bad_da = rng.chance(1, 10);
        let start = d0.saturating_sub(1);
        for off in 0..10u64 {
            let Some(da) = start.checked_add(off) else { break };
            let mut evs: Vec<Event> = vec![];
            for _ in 0..rng.below(4) {
                match rng.below(6) {
                    0..=2 => {
                        let wallet = rng.below(3) as usize;
                        let data = if rng.chance(1, 2) { vec![] } else { vec![0xcd; rng.range(1, 5) as usize] };
                        let nonce = if rng.chance(1, 10) && !self.msgs.is_empty() {
                            // re-delivery of a known nonce
                            *self.msgs[rng.below(self.msgs.len() as u64) as usize].msg.nonce()
                        } else {
                            Nonce::new(bytes32(rng))
                        };
                        let m: Message = MessageV1 {
                            sender: Address::new(bytes32(rng)),
                            recipient: self.wallets[wallet].1,
                            nonce,
                            amount: amount(rng, 0),
                            data,
                            da_height: (if bad_da && rng.chance(1, 3) { da.wrapping_add(1) } else { da }).into(),
                        }
                        .into();
                        self.msgs.push(KnownMsg { msg: m.clone(), wallet, used: true });
                        evs.push(Event::Message(m));
                    }
                    k => {
                        let (bytes, max_gas): (Vec<u8>, u64) = match k {
                            3 => (vec![1, 2, 3, 4, 5], 1_000_000),
                            4 => {
                                let tx = self.gen_tx(rng, 0);
                                let b = tx.to_bytes();
                                // sometimes the claimed gas is too small
                                (b, if rng.chance(1, 3) { 10 } else { 50_000_000 })
                            }
                            _ => {
                                let mint: Transaction = Transaction::mint(
                                    Default::default(),
                                    Default::default(),
                                    Default::default(),
                                    0,
                                    AssetId::BASE,
                                    0,
                                )
                                .into();
                                (mint.to_bytes(), 1_000_000)
                            }
                        };
                        let r: RelayedTransaction = RelayedTransactionV1 {
                            nonce: Nonce::new(bytes32(rng)),
                            max_gas,
                            serialized_transaction: bytes,
                            da_height: da.into(),
                        }
                        .into();
                        evs.push(Event::Transaction(r));
                    }
                }
            }
            let mut rt = self.relayer.write_transaction();
            rt.storage_as_mut::<EventsHistory>().insert(&da.into(), evs.as_slice()).unwrap();
            rt.commit().unwrap();
            self.relayed.push((da, evs));
        }
        // forced transactions were built over the coins: they stay usable by later ones
        for c in self.coins.iter_mut() {
            c.used = false;
        }
    }

    /// Re-reads the spendable coins and messages from the database (coins that disappeared
    /// stay known as `used`, for double-spend attempts).
    pub fn resync(&mut self) {
        use fuel_core_storage::iter::IteratorOverTable;
        let db = self.db.clone();
        let mut fresh: Vec<KnownCoin> = vec![];
        for r in db.iter_all::<Coins>(None) {
            let (utxo, c) = r.unwrap();
            let wi = if c.owner() == &self.pred_owner {
                Some(PRED)
            } else {
                self.wallets.iter().position(|x| &x.1 == c.owner())
            };
            if let Some(w) = wi {
                fresh.push(KnownCoin { utxo, wallet: w, amount: *c.amount(), asset: *c.asset_id(), used: false });
            }
        }
        for old in self.coins.iter() {
            if !fresh.iter().any(|f| f.utxo == old.utxo) && fresh.len() < 40 {
                let mut o = old.clone();
                o.used = true;
                fresh.push(o);
            }
        }
        self.coins = fresh;
        let live: Vec<_> = db.iter_all::<Messages>(None).map(|r| *r.unwrap().1.nonce()).collect();
        for m in self.msgs.iter_mut() {
            m.used = !live.contains(m.msg.nonce());
        }
    }

    /// Sets block_gas_limit to exactly the max_gas of `tx` (flag F_EXACTGAS).
    pub fn exact_gas_limit(&mut self, tx: &Transaction) {
        use fuel_core_types::blockchain::transaction::TransactionExt;
        if let Ok(g) = tx.max_gas(&self.params) {
            self.params.set_block_gas_limit(g);
            let mut t = self.db.write_transaction();
            t.storage_as_mut::<ConsensusParametersVersions>().insert(&0, &self.params).unwrap();
            t.commit().unwrap();
        }
    }

    /// Insert a coin whose utxo id collides with output `idx` of `tx` (class E1).
    pub fn plant_collision(&mut self, rng: &mut Rng, tx: &Transaction, idx: u16) {
        let id = tx.id(&self.params.chain_id());
        let utxo = UtxoId::new(id, idx);
        let coin: CompressedCoin = CompressedCoinV1 {
            owner: self.wallets[0].1,
            amount: rng.range(1, 50),
            asset_id: self.assets[0],
            tx_pointer: TxPointer::new(BlockHeight::new(0), 99),
        }
        .into();
        let mut t = self.db.write_transaction();
        t.storage_as_mut::<Coins>().insert(&utxo, &coin).unwrap();
        t.commit().unwrap();
    }

    /// A minimal transaction paying almost u64::MAX of fee at a suitable gas price.
    fn gen_huge_tx(&mut self, rng: &mut Rng) -> Option<Transaction> {
        use fuel_core_types::fuel_tx::{field::*, Chargeable};
        let ci = (0..self.coins.len()).find(|i| {
            !self.coins[*i].used
                && self.coins[*i].wallet != PRED
                && self.coins[*i].amount > (1u64 << 63)
                && self.coins[*i].asset == self.assets[0]
        })?;
        let kc = self.coins[ci].clone();
        self.coins[ci].used = true;
        let mut b = TransactionBuilder::script(vec![], vec![]);
        b.with_params(self.params.clone());
        b.script_gas_limit(0);
        b.max_fee_limit(kc.amount - rng.below(1000));
        b.add_unsigned_coin_input(self.wallets[kc.wallet].0, kc.utxo, kc.amount, kc.asset, Default::default());
        b.add_output(Output::change(self.wallets[rng.below(3) as usize].1, 0, self.assets[0]));
        let script = b.finalize();
        self.huge_max_gas = Some(script.max_gas(self.params.gas_costs(), self.params.fee_params()));
        let _ = script.inputs();
        let tx: Transaction = script.into();
        self.txs.push(tx.clone());
        Some(tx)
    }

    /// gas price at which a huge-fee transaction pays about 0.75 * 2^64
    pub fn huge_price(&self) -> Option<u64> {
        let mg = self.huge_max_gas?;
        let factor = self.params.fee_params().gas_price_factor() as u128;
        Some(((3u128 << 62) * factor / mg.max(1) as u128).min(u64::MAX as u128) as u64)
    }

    /// A new script transaction over the believed-unspent coins and messages.
    pub fn gen_tx(&mut self, rng: &mut Rng, gas_price_hint: u64) -> Transaction {
        if self.flags & F_HUGEFEE != 0 && rng.chance(2, 3) {
            if let Some(tx) = self.gen_huge_tx(rng) {
                return tx;
            }
        }
        // a reverting script whose only input is a retryable message: it can be executed again
        // and again as far as the inputs are concerned - only ProcessedTransactions stops it
        let retry_only = (0..self.msgs.len())
            .find(|i| !self.msgs[*i].used && self.msgs[*i].wallet != PRED && !self.msgs[*i].msg.data().is_empty());
        if let (Some(mi), true) = (retry_only, rng.chance(1, 8)) {
            let km = self.msgs[mi].clone();
            let mut b = TransactionBuilder::script(vec![op::rvrt(RegId::ONE)].into_iter().collect(), vec![]);
            b.with_params(self.params.clone());
            b.script_gas_limit(10_000);
            b.max_fee_limit(km.msg.amount());
            b.add_unsigned_message_input(
                self.wallets[km.wallet].0,
                *km.msg.sender(),
                *km.msg.nonce(),
                km.msg.amount(),
                km.msg.data().clone(),
            );
            let tx: Transaction = b.finalize().into();
            self.txs.push(tx.clone());
            self.retry_txs.push(tx.clone());
            return tx;
        }
        let kind = match rng.below(12) {
            0 => 0,          // empty script
            1..=3 => 1,      // ret
            4..=5 => 2,      // rvrt
            6..=7 => 3,      // tro; ret
            8 => 4,          // tro; rvrt
            9..=10 => 5,     // smo; ret
            _ => 6,          // smo; rvrt
        };
        let to = Address::new(bytes32(rng));
        let var_amount = rng.range(1, 60) as u32;
        let n_fixed = rng.below(3) as usize;
        let var_index = n_fixed as u32; // variable output follows the fixed coin outputs
        let (script, data): (Vec<u8>, Vec<u8>) = match kind {
            0 => (vec![], vec![]),
            1 => (vec![op::ret(RegId::ONE)].into_iter().collect(), vec![]),
            2 => (vec![op::rvrt(RegId::ONE)].into_iter().collect(), vec![]),
            3 | 4 => {
                let (s, _off) = script_with_data_offset!(
                    data_offset,
                    vec![
                        op::movi(0x10, data_offset),
                        op::movi(0x11, data_offset + 32),
                        op::movi(0x12, var_index),
                        op::movi(0x13, var_amount),
                        op::tro(0x10, 0x12, 0x13, 0x11),
                        if kind == 3 { op::ret(RegId::ONE) } else { op::rvrt(RegId::ONE) },
                    ],
                    TxParameters::DEFAULT.tx_offset()
                );
                let mut d = to.to_vec();
                d.extend_from_slice(self.assets[0].as_ref());
                (s.into_iter().collect(), d)
            }
            _ => {
                let (s, _off) = script_with_data_offset!(
                    data_offset,
                    vec![
                        op::movi(0x10, data_offset),
                        op::movi(0x11, data_offset + 32),
                        op::movi(0x12, 4),
                        op::movi(0x13, var_amount),
                        op::smo(0x10, 0x11, 0x12, 0x13),
                        if kind == 5 { op::ret(RegId::ONE) } else { op::rvrt(RegId::ONE) },
                    ],
                    TxParameters::DEFAULT.tx_offset()
                );
                let mut d = to.to_vec();
                d.extend_from_slice(&[1, 2, 3, 4, 0, 0, 0, 0]);
                (s.into_iter().collect(), d)
            }
        };
        let mut b = TransactionBuilder::script(script, data);
        b.with_params(self.params.clone());
        let gas_limit = *rng.pick(&[0u64, 10_000, 100_000, 100_000, 400_000]);
        b.script_gas_limit(gas_limit);
        if rng.chance(1, 25) {
            b.expiration(BlockHeight::new(rng.below(4) as u32));
        }
        if rng.chance(1, 30) {
            b.maturity(BlockHeight::new(rng.range(1, 4) as u32));
        }
        // inputs
        let mut base_in: u128 = 0;
        let mut other_in: u128 = 0;
        let mut has_pred = false;
        let n_in = rng.range(1, 3);
        let mut used_here: Vec<usize> = vec![];
        for j in 0..n_in {
            let want_msg = !self.msgs.is_empty() && rng.chance(1, 4);
            if want_msg {
                let mut cands: Vec<usize> = vec![];
                for i in 0..self.msgs.len() {
                    if !self.msgs[i].used || rng.chance(1, 8) {
                        cands.push(i);
                    }
                }
                if let Some(&mi) = cands.get(rng.below(cands.len().max(1) as u64) as usize) {
                    let km = self.msgs[mi].clone();
                    self.msgs[mi].used = true;
                    let amt = if rng.chance(1, 15) { km.msg.amount() + 1 } else { km.msg.amount() };
                    if km.wallet == PRED {
                        has_pred = true;
                        let inp = if km.msg.data().is_empty() {
                            Input::message_coin_predicate(
                                *km.msg.sender(),
                                self.pred_owner,
                                amt,
                                *km.msg.nonce(),
                                0,
                                self.predicate.clone(),
                                vec![],
                            )
                        } else {
                            Input::message_data_predicate(
                                *km.msg.sender(),
                                self.pred_owner,
                                amt,
                                *km.msg.nonce(),
                                0,
                                km.msg.data().clone(),
                                self.predicate.clone(),
                                vec![],
                            )
                        };
                        b.add_input(inp);
                    } else {
                        b.add_unsigned_message_input(
                            self.wallets[km.wallet].0,
                            *km.msg.sender(),
                            *km.msg.nonce(),
                            amt,
                            km.msg.data().clone(),
                        );
                    }
                    base_in += amt as u128;
                    continue;
                }
            }
            // the first input prefers a base-asset coin so that the fee can be paid
            let mut cands: Vec<usize> = vec![];
            for i in 0..self.coins.len() {
                if used_here.contains(&i) {
                    continue;
                }
                if self.coins[i].used && !rng.chance(1, 10) {
                    continue;
                }
                if j == 0 && self.coins[i].asset != self.assets[0] && !rng.chance(1, 10) {
                    continue;
                }
                cands.push(i);
            }
            if cands.is_empty() || rng.chance(1, 25) {
                // a coin that does not exist
                let amt = rng.range(1_000, 100_000);
                b.add_unsigned_coin_input(
                    self.wallets[0].0,
                    UtxoId::new(Bytes32::new(bytes32(rng)), 0),
                    amt,
                    self.assets[0],
                    Default::default(),
                );
                base_in += amt as u128;
                continue;
            }
            let ci = cands[rng.below(cands.len() as u64) as usize];
            used_here.push(ci);
            let kc = self.coins[ci].clone();
            self.coins[ci].used = true;
            let amt = if rng.chance(1, 20) { kc.amount.wrapping_add(1).max(1) } else { kc.amount };
            if kc.wallet == PRED {
                has_pred = true;
                b.add_input(Input::coin_predicate(
                    kc.utxo,
                    self.pred_owner,
                    amt,
                    kc.asset,
                    Default::default(),
                    0,
                    self.predicate.clone(),
                    vec![],
                ));
            } else {
                b.add_unsigned_coin_input(
                    self.wallets[kc.wallet].0,
                    kc.utxo,
                    amt,
                    kc.asset,
                    Default::default(),
                );
            }
            if kc.asset == self.assets[0] {
                base_in += amt as u128;
            } else {
                other_in += amt as u128;
            }
        }
        // fee: mostly affordable at the hinted gas price
        let huge = self.flags & F_HUGEFEE != 0 && base_in > (1u128 << 63);
        let max_fee: u64 = if huge {
            (base_in.min(u64::MAX as u128) as u64) - rng.below(1000)
        } else {
            let cap = base_in.min(u64::MAX as u128) as u64;
            let factor = self.params.fee_params().gas_price_factor().max(1);
            let need = ((gas_limit as u128 + 40_000) * gas_price_hint as u128 / factor as u128 + 10)
                .min(u64::MAX as u128) as u64;
            let want = match rng.below(12) {
                0 => 0,
                1 => rng.range(1, 2_000),
                _ => need,
            };
            want.min(cap)
        };
        b.max_fee_limit(max_fee);
        let mut base_left = base_in.saturating_sub(max_fee as u128);
        // fixed coin outputs (the spendable chain between transactions)
        let mut fixed: Vec<(usize, u64, AssetId)> = vec![];
        for _ in 0..n_fixed {
            let w = rng.below(3) as usize;
            let amt = match rng.below(5) {
                0 => 0,
                _ => (rng.range(1, 5_000) as u128).min(base_left) as u64,
            };
            base_left -= amt as u128;
            b.add_output(Output::coin(self.wallets[w].1, amt, self.assets[0]));
            fixed.push((w, amt, self.assets[0]));
        }
        if kind >= 3 {
            b.add_output(Output::variable(Address::zeroed(), 0, AssetId::zeroed()));
        }
        if rng.chance(5, 6) {
            b.add_output(Output::change(self.wallets[rng.below(3) as usize].1, 0, self.assets[0]));
        }
        if other_in > 0 && rng.chance(1, 2) {
            b.add_output(Output::change(self.wallets[rng.below(3) as usize].1, 0, self.assets[1]));
        }
        let mut script = if rng.chance(1, 20) {
            // missing signatures
            b.finalize_without_signature()
        } else {
            b.finalize()
        };
        if has_pred {
            use fuel_core_types::fuel_vm::{
                checked_transaction::{CheckPredicateParams, EstimatePredicates},
                interpreter::MemoryInstance,
                predicate::EmptyStorage,
            };
            let _ = script.estimate_predicates(
                &CheckPredicateParams::from(&self.params),
                MemoryInstance::new(),
                &EmptyStorage,
            );
        }
        let tx: Transaction = script.into();
        let id = tx.id(&self.params.chain_id());
        for (idx, (w, amt, asset)) in fixed.iter().enumerate() {
            if *amt > 0 {
                self.coins.push(KnownCoin {
                    utxo: UtxoId::new(id, idx as u16),
                    wallet: *w,
                    amount: *amt,
                    asset: *asset,
                    used: false,
                });
            }
        }
        self.txs.push(tx.clone());
        tx
    }

    pub fn maybe_checked(&self, rng: &mut Rng, tx: &Transaction, height: u32) -> MaybeCheckedTransaction {
        if rng.chance(1, 3) {
            if let Ok(c) = tx.clone().into_checked_basic(BlockHeight::new(height), &self.params) {
                return MaybeCheckedTransaction::CheckedTransaction(c.into(), 0);
            }
        }
        MaybeCheckedTransaction::Transaction(tx.clone())
    }
}
