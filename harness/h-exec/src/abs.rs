//! Abstraction of the real executor objects into the integer trees understood by
//! coq/Exec/Model.v.  32-byte identifiers are interned to small naturals in order of first
//! use (0 = all zero bytes); everything else is copied.
use fuel_core_types::{
    entities::{coins::coin::Coin, relayer::message::Message},
    fuel_crypto::Hasher,
    fuel_tx::{
        field::{
            InputContract, Inputs, MintAmount, MintGasPrice, OutputContract, Outputs,
            TxPointer as TxPointerField,
        },
        input, output, Chargeable, ConsensusParameters, Input, Output, Transaction,
        TxPointer, UniqueIdentifier, UtxoId,
    },
    fuel_types::{canonical::Serialize, BlockHeight, Bytes32, ChainId},
    services::executor::{
        Error as ExecutorError, Event as ExecutorEvent, TransactionExecutionResult,
        TransactionExecutionStatus, TransactionValidityError,
    },
};
use std::collections::HashMap;
use vcommon::T;

#[derive(Default)]
pub struct Interner {
    map: HashMap<Vec<u8>, u64>,
}

impl Interner {
    pub fn new() -> Self {
        let mut s = Interner { map: HashMap::new() };
        s.map.insert(vec![0u8; 32], 0);
        s
    }
    pub fn id(&mut self, b: &[u8]) -> u64 {
        let n = self.map.len() as u64;
        *self.map.entry(b.to_vec()).or_insert(n)
    }
    /// interned digest of an arbitrary byte string; the empty string is 0
    pub fn digest(&mut self, b: &[u8]) -> u64 {
        if b.is_empty() {
            0
        } else {
            let h = Hasher::hash(b);
            // keep digests apart from raw identifiers
            let mut k = b"digest:".to_vec();
            k.extend_from_slice(h.as_ref());
            self.id(&k)
        }
    }
}

pub fn n(x: u64) -> T {
    T::n(x)
}

pub fn utxo(i: &mut Interner, u: &UtxoId) -> (u64, u64) {
    (i.id(u.tx_id().as_ref()), u.output_index() as u64)
}

fn ptr(p: &TxPointer) -> (u64, u64) {
    (u32::from(p.block_height()) as u64, p.tx_index() as u64)
}

/// row of the Coins table / coin event body: txid idx owner amount asset h i
pub fn coin_row(
    i: &mut Interner,
    u: &UtxoId,
    owner: &[u8],
    amount: u64,
    asset: &[u8],
    p: &TxPointer,
) -> Vec<u64> {
    let (a, b) = utxo(i, u);
    let (h, x) = ptr(p);
    vec![a, b, i.id(owner), amount, i.id(asset), h, x]
}

/// row of the Messages table / message event body: nonce sender recipient amount data da
pub fn msg_row(i: &mut Interner, m: &Message) -> Vec<u64> {
    vec![
        i.id(m.nonce().as_ref()),
        i.id(m.sender().as_ref()),
        i.id(m.recipient().as_ref()),
        m.amount(),
        i.digest(m.data()),
        m.da_height().0,
    ]
}

pub fn row_t(r: &[u64]) -> T {
    T::l(r.iter().map(|x| n(*x)).collect())
}

pub fn abs_input(i: &mut Interner, inp: &Input) -> T {
    match inp {
        Input::CoinSigned(input::coin::CoinSigned {
            utxo_id, owner, amount, asset_id, ..
        })
        | Input::CoinPredicate(input::coin::CoinPredicate {
            utxo_id, owner, amount, asset_id, ..
        }) => {
            let (a, b) = utxo(i, utxo_id);
            T::l(vec![
                T::i(0),
                n(a),
                n(b),
                n(i.id(owner.as_ref())),
                n(*amount),
                n(i.id(asset_id.as_ref())),
                T::b(inp.is_coin_predicate()),
            ])
        }
        Input::Contract(c) => T::l(vec![T::i(2), n(i.id(c.contract_id.as_ref()))]),
        _ => {
            // the four message variants
            let data = inp.input_data().map(|d| d.to_vec()).unwrap_or_default();
            let retry = inp.is_message_data_signed() || inp.is_message_data_predicate();
            T::l(vec![
                T::i(1),
                n(i.id(inp.nonce().expect("message nonce").as_ref())),
                n(i.id(inp.sender().expect("sender").as_ref())),
                n(i.id(inp.recipient().expect("recipient").as_ref())),
                n(inp.amount().expect("amount")),
                n(i.digest(&data)),
                T::b(retry),
                T::b(inp.is_message_coin_predicate() || inp.is_message_data_predicate()),
            ])
        }
    }
}

pub fn abs_output(i: &mut Interner, o: &Output) -> T {
    match o {
        Output::Coin { to, amount, asset_id } => {
            T::l(vec![T::i(0), n(i.id(to.as_ref())), n(*amount), n(i.id(asset_id.as_ref()))])
        }
        Output::Change { to, amount, asset_id } => {
            T::l(vec![T::i(1), n(i.id(to.as_ref())), n(*amount), n(i.id(asset_id.as_ref()))])
        }
        Output::Variable { to, amount, asset_id } => {
            T::l(vec![T::i(2), n(i.id(to.as_ref())), n(*amount), n(i.id(asset_id.as_ref()))])
        }
        Output::Contract(c) => {
            let mut b = c.balance_root.to_vec();
            b.extend_from_slice(c.state_root.as_ref());
            T::l(vec![T::i(3), n(c.input_index as u64), n(i.digest(&b))])
        }
        Output::ContractCreated { contract_id, state_root } => {
            T::l(vec![T::i(4), n(i.id(contract_id.as_ref())), n(i.digest(state_root.as_ref()))])
        }
    }
}

pub fn inputs_digest(i: &mut Interner, ins: &[Input]) -> u64 {
    let mut b = vec![1u8];
    for x in ins {
        b.extend_from_slice(&x.to_bytes());
    }
    i.digest(&b)
}

fn default_mint_io() -> (input::contract::Contract, output::contract::Contract) {
    (
        input::contract::Contract {
            utxo_id: UtxoId::new(Bytes32::zeroed(), 0),
            balance_root: Bytes32::zeroed(),
            state_root: Bytes32::zeroed(),
            tx_pointer: TxPointer::new(BlockHeight::new(0), 0),
            contract_id: Default::default(),
        },
        output::contract::Contract {
            input_index: 0,
            balance_root: Bytes32::zeroed(),
            state_root: Bytes32::zeroed(),
        },
    )
}

pub fn mint_digest(
    i: &mut Interner,
    ic: &input::contract::Contract,
    oc: &output::contract::Contract,
) -> u64 {
    let mut b = vec![2u8];
    b.extend_from_slice(&Input::Contract(ic.clone()).to_bytes());
    b.extend_from_slice(&Output::Contract(*oc).to_bytes());
    i.digest(&b)
}

/// [id; mint; inputs; outputs; mall; max_gas; size; mint_index; mint_price; mint_amount; mint_cid; default_io]
pub fn abs_tx(i: &mut Interner, tx: &Transaction, params: &ConsensusParameters) -> T {
    let chain_id: ChainId = params.chain_id();
    let id = i.id(tx.id(&chain_id).as_ref());
    let charge = |i: &mut Interner, ins: &[Input], outs: &[Output], max_gas: u64, size: usize| {
        T::l(vec![
            n(id),
            T::b(false),
            T::l(ins.iter().map(|x| abs_input(i, x)).collect()),
            T::l(outs.iter().map(|x| abs_output(i, x)).collect()),
            n(inputs_digest(i, ins)),
            n(max_gas),
            T::n(size as u64),
            n(0),
            n(0),
            n(0),
            n(0),
            T::b(true),
        ])
    };
    let gc = params.gas_costs();
    let fp = params.fee_params();
    match tx {
        Transaction::Script(t) => charge(i, t.inputs(), t.outputs(), t.max_gas(gc, fp), t.metered_bytes_size()),
        Transaction::Create(t) => charge(i, t.inputs(), t.outputs(), t.max_gas(gc, fp), t.metered_bytes_size()),
        Transaction::Upgrade(t) => charge(i, t.inputs(), t.outputs(), t.max_gas(gc, fp), t.metered_bytes_size()),
        Transaction::Upload(t) => charge(i, t.inputs(), t.outputs(), t.max_gas(gc, fp), t.metered_bytes_size()),
        Transaction::Blob(t) => charge(i, t.inputs(), t.outputs(), t.max_gas(gc, fp), t.metered_bytes_size()),
        Transaction::Mint(m) => {
            let (di, dout) = default_mint_io();
            let dflt = m.input_contract() == &di && m.output_contract() == &dout;
            T::l(vec![
                n(id),
                T::b(true),
                T::l(vec![]),
                T::l(vec![]),
                n(mint_digest(i, m.input_contract(), m.output_contract())),
                n(0),
                n(0),
                n(m.tx_pointer().tx_index() as u64),
                n(*m.gas_price()),
                n(*m.mint_amount()),
                n(i.id(m.input_contract().contract_id.as_ref())),
                T::b(dflt),
            ])
        }
    }
}

pub fn abs_event(i: &mut Interner, e: &ExecutorEvent) -> T {
    let coin = |i: &mut Interner, tag: i128, c: &Coin| {
        let mut v = vec![T::i(tag)];
        v.extend(
            coin_row(i, &c.utxo_id, c.owner.as_ref(), c.amount, c.asset_id.as_ref(), &c.tx_pointer)
                .iter()
                .map(|x| n(*x)),
        );
        T::l(v)
    };
    let msg = |i: &mut Interner, tag: i128, m: &Message| {
        let mut v = vec![T::i(tag)];
        v.extend(msg_row(i, m).iter().map(|x| n(*x)));
        T::l(v)
    };
    match e {
        ExecutorEvent::CoinCreated(c) => coin(i, 0, c),
        ExecutorEvent::CoinConsumed(c) => coin(i, 1, c),
        ExecutorEvent::MessageImported(m) => msg(i, 2, m),
        ExecutorEvent::MessageConsumed(m) => msg(i, 3, m),
        ExecutorEvent::ForcedTransactionFailed { id, .. } => {
            let b: Bytes32 = id.clone().into();
            T::l(vec![T::i(4), n(i.id(b.as_ref()))])
        }
    }
}

/// [id; failed; has_result; gas; fee]
pub fn abs_status(i: &mut Interner, s: &TransactionExecutionStatus) -> T {
    let (failed, has, gas, fee) = match &s.result {
        TransactionExecutionResult::Success { result, total_gas, total_fee, .. } => {
            (false, result.is_some(), *total_gas, *total_fee)
        }
        TransactionExecutionResult::Failed { result, total_gas, total_fee, .. } => {
            (true, result.is_some(), *total_gas, *total_fee)
        }
    };
    T::l(vec![n(i.id(s.id.as_ref())), T::b(failed), T::b(has), n(gas), n(fee)])
}

/// error variant tags of coq/Exec/Model.v; `begun` = the attempt entered execute_transaction
pub fn err_tag(e: &ExecutorError, after_vm: bool) -> u64 {
    use ExecutorError as E;
    use TransactionValidityError as V;
    match e {
        E::MintIsNotLastTransaction => 1,
        E::TransactionIdCollision(_) => 2,
        E::InvalidTransaction(_) => 3,
        E::TransactionExpired(_, _) => 4,
        E::TransactionValidity(v) => match v {
            V::Validation(_) => 5,
            V::CoinMismatch(_) => 6,
            // raised by spend_input_utxos when the VM phase of this attempt had finished
            V::CoinDoesNotExist(_) => {
                if after_vm {
                    41
                } else {
                    7
                }
            }
            V::ContractDoesNotExist(_) => 8,
            V::MessageSpendTooEarly(_) => 9,
            V::MessageMismatch(_) => 10,
            V::MessageDoesNotExist(_) => 11,
            V::InvalidContractInputIndex(_) => 17,
            _ => 12,
        },
        E::VmExecution { .. } => 13,
        E::MessageDoesNotExist(_) => 14,
        E::OutputAlreadyExists => 15,
        E::TooManyOutputs => 16,
        E::FeeOverflow => 18,
        // process_l2_txs' pre-check reports (max_gas, remaining) which never overflow when
        // added in u64... unless they do; update_execution_data / total_fee_paid report the
        // two addends of an overflowed checked_add
        E::GasOverflow(_, a, b) => {
            if a.checked_add(*b).is_none() {
                19
            } else {
                31
            }
        }
        E::TxSizeOverflow => 20,
        E::TooManyTransactions => 21,
        E::MintHasUnexpectedIndex => 22,
        E::CoinbaseGasPriceMismatch => 23,
        E::CoinbaseAmountMismatch => 24,
        E::MintMismatch => 25,
        E::CoinbaseCannotIncreaseBalance(_) => 26,
        E::MintMissing => 27,
        E::InvalidTransactionOutcome { .. } => 28,
        E::BlockMismatch => 29,
        E::Other(_) => 30,
        E::ExecutingGenesisBlock => 32,
        E::PreviousBlockIsNotFound => 33,
        E::DaHeightExceededItsLimit => 34,
        E::RelayerError(_) => 35,
        E::RelayerGivesIncorrectMessages => 36,
        E::ContractUtxoMissing(_) => 37,
        E::StorageError(_) => 38,
        E::ConsensusParametersNotFound(_) => 39,
        E::BlockHeaderError(_) => 40,
        _ => 99,
    }
}
