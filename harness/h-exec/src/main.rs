//! Correspondence harness of the Exec cluster (C01-C06, C45): generated chains driven
//! through the real fuel-core executor; see run.rs for the observation format.
mod abs;
mod run;
mod world;

use run::{BlockPlan, Policy};
use vcommon::{catch, Rng, T};
use world::World;

/// input: (seed n_blocks max_txs flags)
fn run_history(prop: &str, input: &T) -> T {
    let f = input.as_l();
    let seed = f[0].as_u64();
    let n_blocks = f[1].as_u64();
    let max_txs = f[2].as_u64();
    let flags = f[3].as_u64();
    let mut rng = Rng::new(seed);
    let mut w = World::new(&mut rng, flags);
    w.tamper = matches!(prop, "C03" | "C06");
    w.dry = prop == "C45";
    if flags & world::F_RELAYER != 0 {
        w.init_relayer(&mut rng);
    }

    // plans are generated block by block, but the first block's transactions exist before
    // the genesis dump so that a colliding genesis coin can be planted
    let mut first: Option<Vec<fuel_core_types::fuel_tx::Transaction>>;
    let price0 = pick_price(&mut rng, flags);
    {
        let k = rng.range(1, max_txs);
        let mut txs = vec![];
        for _ in 0..k {
            txs.push(w.gen_tx(&mut rng, price0));
        }
        if flags & world::F_COLLIDE != 0 {
            use fuel_core_types::fuel_tx::field::Outputs;
            for tx in txs.iter() {
                if let fuel_core_types::fuel_tx::Transaction::Script(s) = tx {
                    if let Some(idx) = s.outputs().iter().position(|o| o.amount().unwrap_or(0) > 0 && o.is_coin()) {
                        let t = tx.clone();
                        w.plant_collision(&mut rng, &t, idx as u16);
                        break;
                    }
                }
            }
        }
        if flags & world::F_EXACTGAS != 0 {
            if let Some(t) = txs.first().cloned() {
                w.exact_gas_limit(&t);
            }
        }
        first = Some(txs);
    }
    let params = run::params_t(&w);
    let genesis = run::dump_state(&mut w);
    let mut ins = vec![];
    let mut outs = vec![];
    for b in 0..n_blocks {
        let mut gas_price = if b == 0 { price0 } else { pick_price(&mut rng, flags) };
        if b > 0 {
            w.resync();
        }
        let mut txs = match first.take() {
            Some(t) => t,
            None => {
                let k = rng.range(0, max_txs);
                (0..k).map(|_| w.gen_tx(&mut rng, gas_price)).collect()
            }
        };
        if flags & world::F_HUGEFEE != 0 && rng.chance(3, 4) {
            if let Some(p) = w.huge_price() {
                gas_price = p;
            }
        }
        // resubmissions of earlier transactions (same block or earlier blocks)
        let n_re = if w.txs.is_empty() { 0 } else { rng.below(3) };
        for _ in 0..n_re {
            let t = w.txs[rng.below(w.txs.len() as u64) as usize].clone();
            let pos = rng.below(txs.len() as u64 + 1) as usize;
            txs.insert(pos, t);
        }
        if !w.retry_txs.is_empty() && rng.chance(1, 2) {
            let t = w.retry_txs[rng.below(w.retry_txs.len() as u64) as usize].clone();
            let pos = rng.below(txs.len() as u64 + 1) as usize;
            txs.insert(pos, t);
        }
        let policy = match rng.below(8) {
            0..=2 => Policy::All,
            3 => Policy::Count,
            4..=5 => Policy::Honest,
            _ => Policy::Drip(rng.range(1, 3) as usize),
        };
        let recipient = if rng.chance(1, 2) {
            Default::default()
        } else if flags & world::F_BADRECIPIENT != 0 && rng.chance(1, 2) {
            fuel_core_types::fuel_tx::ContractId::new([7u8; 32])
        } else {
            w.contract
        };
        let da = w.da_height.saturating_add(if flags & world::F_RELAYER != 0 {
            rng.below(6)
        } else if rng.chance(1, 3) {
            rng.range(1, 3)
        } else {
            0
        });
        let (bi, bo) = run::run_block(&mut w, &mut rng, BlockPlan { txs, policy, gas_price, recipient, da_height: da });
        ins.push(bi);
        outs.push(bo);
    }
    T::l(vec![T::l(vec![params, genesis, T::l(ins)]), T::l(outs)])
}

fn pick_price(rng: &mut Rng, flags: u64) -> u64 {
    if flags & world::F_HUGEFEE != 0 && rng.chance(2, 3) {
        // fee of a minimal transaction lands above 2^63
        return *rng.pick(&[300_000_000_000_000u64, 600_000_000_000_000, 1_000_000_000_000_000]);
    }
    *rng.pick(&[0u64, 0, 1, 1, 1, 2, 3, 7, 1000])
}

fn gen(prop: &str, rng: &mut Rng, n: u64, tier: &str) -> Vec<T> {
    let mut cases = vec![];
    let max_blocks = if tier == "thorough" { 6 } else { 4 };
    for k in 0..n {
        let flags = if prop == "C05" {
            world::F_RELAYER | if k % 5 == 4 { world::F_TINYGAS } else { 0 }
        } else {
            match k % 10 {
            // utxo validation off (fake coins): only the processed-ids property is stated for it
            9 => if prop == "C06" { world::F_NOFORBID } else { 0 },
            8 => world::F_EXACTGAS,
            // C03: forced (relayed) transactions use gas before the first request to the source, so the
            // request must carry block_gas_limit - used_gas (seeded change C03-1)
            1 if prop == "C03" => world::F_RELAYER,
            2 if prop == "C03" => world::F_RELAYER | world::F_TINYGAS,
            0 | 1 | 2 => 0,
            3 => world::F_TINYGAS,
            4 => world::F_BADRECIPIENT,
            5 => world::F_TINYSIZE,
            6 => world::F_COLLIDE,
            _ => world::F_HUGEFEE,
        }};
        cases.push(T::l(vec![
            T::n(rng.next() >> 16),
            T::n(rng.range(1, max_blocks)),
            T::n(rng.range(2, if tier == "thorough" { 12 } else { 8 })),
            T::n(flags),
        ]));
    }
    cases
}

fn run(prop: &str, input: &T) -> T {
    let input = input.clone();
    let prop = prop.to_string();
    catch(move || run_history(&prop, &input))
}

fn main() {
    vcommon::main_protocol(gen, run);
}
