//! Drives the real executor (produce -> validate -> commit) over a generated history and
//! prints the observation `((params genesis blocks_in) blocks_out)`.
use crate::{
    abs::{self, n, Interner},
    world::{self, World},
};
use fuel_core::database::{
    database_description::{on_chain::OnChain, relayer::Relayer},
    Database, RelayerIterableKeyValueView,
};
use fuel_core_executor::{
    executor::{max_tx_count, verif_hooks::{self, Record}},
    ports::{MaybeCheckedTransaction, RelayerPort, TransactionsSource},
};
use fuel_core_storage::{
    iter::IteratorOverTable,
    tables::{Coins, ContractsLatestUtxo, FuelBlocks, Messages, ProcessedTransactions},
    transactional::{AtomicView, Changes, Modifiable, WriteTransaction},
    Result as StorageResult, StorageAsMut,
};
use fuel_core_types::{
    blockchain::{
        block::Block,
        header::{ApplicationHeader, ConsensusHeader, PartialBlockHeader},
        primitives::DaBlockHeight,
    },
    fuel_tx::{ConsensusParameters, ContractId, Transaction, TxId, UniqueIdentifier},
    fuel_types::BlockHeight,
    fuel_vm::checked_transaction::IntoChecked,
    services::{
        block_producer::Components,
        executor::{Error as ExecutorError, ExecutionResult, ValidationResult},
        relayer::Event,
    },
    tai64::Tai64,
};
use fuel_core_upgradable_executor::{config::Config, executor::Executor};
use std::sync::{Arc, Mutex};
use vcommon::{Rng, T};

// ---------------------------------------------------------------- relayer view

#[derive(Clone)]
pub struct Rel {
    pub enabled: bool,
    pub db: Database<Relayer>,
}
pub struct RelView {
    enabled: bool,
    view: RelayerIterableKeyValueView,
}
impl AtomicView for Rel {
    type LatestView = RelView;
    fn latest_view(&self) -> StorageResult<RelView> {
        Ok(RelView { enabled: self.enabled, view: self.db.latest_view()? })
    }
}
impl RelayerPort for RelView {
    fn enabled(&self) -> bool {
        self.enabled
    }
    fn get_events(&self, da_height: &DaBlockHeight) -> anyhow::Result<Vec<Event>> {
        self.view.get_events(da_height)
    }
}

// ---------------------------------------------------------------- transaction source

#[derive(Clone, Copy, Debug)]
pub enum Policy {
    /// everything at the first call, whatever the limits say
    All,
    /// respects only the transaction count
    Count,
    /// respects gas, count and size
    Honest,
    /// k transactions per call, whatever the limits say
    Drip(usize),
}

pub struct SourceInner {
    pending: Vec<(usize, MaybeCheckedTransaction)>,
    policy: Policy,
    params: ConsensusParameters,
    /// (arguments, indices of the delivered transactions) per call
    pub calls: Vec<((u64, u16, u32), Vec<usize>)>,
}
#[derive(Clone)]
pub struct Source(pub Arc<Mutex<SourceInner>>);

impl TransactionsSource for Source {
    fn next(&self, gas: u64, count: u16, size: u32) -> Vec<MaybeCheckedTransaction> {
        use fuel_core_types::blockchain::transaction::TransactionExt;
        let mut g = self.0.lock().unwrap();
        let take: usize = match g.policy {
            Policy::All => g.pending.len(),
            Policy::Count => g.pending.len().min(count as usize),
            Policy::Drip(k) => g.pending.len().min(k),
            Policy::Honest => {
                let mut gas_left = gas;
                let mut size_left = size as u64;
                let mut k = 0usize;
                for (_, tx) in g.pending.iter() {
                    if k >= count as usize {
                        break;
                    }
                    let mg = tx.max_gas(&g.params).unwrap_or(u64::MAX);
                    let sz = match tx {
                        MaybeCheckedTransaction::Transaction(t) => tx_size(t) as u64,
                        MaybeCheckedTransaction::CheckedTransaction(c, _) => {
                            let t: Transaction = checked_to_tx(c);
                            tx_size(&t) as u64
                        }
                    };
                    if mg > gas_left || sz > size_left {
                        break;
                    }
                    gas_left -= mg;
                    size_left -= sz;
                    k += 1;
                }
                k
            }
        };
        let batch: Vec<(usize, MaybeCheckedTransaction)> = g.pending.drain(..take).collect();
        g.calls.push(((gas, count, size), batch.iter().map(|x| x.0).collect()));
        batch.into_iter().map(|x| x.1).collect()
    }
}

fn checked_to_tx(c: &fuel_core_types::fuel_vm::checked_transaction::CheckedTransaction) -> Transaction {
    use fuel_core_types::fuel_vm::checked_transaction::CheckedTransaction as C;
    match c {
        C::Script(t) => t.transaction().clone().into(),
        C::Create(t) => t.transaction().clone().into(),
        C::Mint(t) => t.transaction().clone().into(),
        C::Upgrade(t) => t.transaction().clone().into(),
        C::Upload(t) => t.transaction().clone().into(),
        C::Blob(t) => t.transaction().clone().into(),
    }
}

pub fn tx_size(t: &Transaction) -> usize {
    use fuel_core_types::fuel_tx::Chargeable;
    match t {
        Transaction::Script(t) => t.metered_bytes_size(),
        Transaction::Create(t) => t.metered_bytes_size(),
        Transaction::Upgrade(t) => t.metered_bytes_size(),
        Transaction::Upload(t) => t.metered_bytes_size(),
        Transaction::Blob(t) => t.metered_bytes_size(),
        Transaction::Mint(_) => 0,
    }
}

// ---------------------------------------------------------------- hook log -> attempts

#[derive(Default, Clone)]
pub struct AttemptRecs {
    pub id: Option<TxId>,
    /// number of entries of data.tx_status when the attempt began
    pub n_status: usize,
    pub vm: Option<(bool, Vec<fuel_core_types::fuel_tx::Input>, Vec<fuel_core_types::fuel_tx::Output>, Vec<fuel_core_types::fuel_tx::Receipt>)>,
    pub changes: Option<Changes>,
    pub fee: Option<(u64, u64)>,
}

/// splits the log at every `Begin`; returns the attempts and the `Final` scalars
pub fn split_log(log: Vec<Record>) -> (Vec<AttemptRecs>, Option<(u64, u64, u32)>) {
    let mut out: Vec<AttemptRecs> = vec![];
    let mut fin = None;
    for r in log {
        match r {
            Record::Begin { id, data } => {
                out.push(AttemptRecs { id: Some(id), n_status: data.tx_status, ..Default::default() })
            }
            Record::Vm { reverted, inputs, outputs, receipts, .. } => {
                if let Some(a) = out.last_mut() {
                    a.vm = Some((reverted, inputs, outputs, receipts));
                }
            }
            Record::VmChanges { changes, .. } => {
                if let Some(a) = out.last_mut() {
                    a.changes = Some(changes);
                }
            }
            Record::Fee { used_gas, fee, .. } => {
                if let Some(a) = out.last_mut() {
                    a.fee = Some((used_gas, fee));
                }
            }
            Record::Final { coinbase, used_gas, used_size } => fin = Some((coinbase, used_gas, used_size)),
        }
    }
    (out, fin)
}

fn changes_digest(i: &mut Interner, c: &Changes) -> u64 {
    use fuel_core_storage::kv_store::WriteOperation;
    let mut b: Vec<u8> = vec![];
    for (col, m) in c.iter() {
        for (k, op) in m.iter() {
            b.extend_from_slice(&col.to_be_bytes());
            b.extend_from_slice(&(k.len() as u32).to_be_bytes());
            b.extend_from_slice(k);
            match op {
                WriteOperation::Insert(v) => {
                    b.push(1);
                    b.extend_from_slice(v);
                }
                WriteOperation::Remove => b.push(0),
            }
        }
    }
    i.digest(&b)
}

/// one attempt as the model sees it
pub fn abs_att(
    w: &mut World,
    tx: &Transaction,
    checked: bool,
    recs: Option<&AttemptRecs>,
    height: u32,
    gas_price: u64,
) -> T {
    let params = w.params.clone();
    let chain_id = params.chain_id();
    let a_tx = abs::abs_tx(&mut w.int, tx, &params);
    let expiration = u32::from(MaybeCheckedTransaction::Transaction(tx.clone()).expiration()) as u64;
    let basic = tx.clone().into_checked_basic(BlockHeight::new(height), &params);
    let basic_ok = basic.is_ok();
    if std::env::var_os("HEXEC_DEBUG").is_some() {
        if let Err(e) = &basic {
            eprintln!("basic check failed: {e:?}");
        }
    }
    let sig_ok = match tx.clone().into_checked_basic(BlockHeight::new(0), &params) {
        Ok(c) => c.check_signatures(&chain_id).is_ok(),
        // not checkable at height 0 (maturity): judge at the current height
        Err(_) => match basic {
            Ok(c) => c.check_signatures(&chain_id).is_ok(),
            Err(_) => true,
        },
    };
    // into_ready, judged independently of the executor
    let ready_ok = match tx.clone().into_checked_basic(BlockHeight::new(height), &params) {
        Ok(c) => ready(c, gas_price, &params, height),
        Err(_) => match tx.clone().into_checked_basic(BlockHeight::new(0), &params) {
            Ok(c) => ready(c, gas_price, &params, height),
            Err(_) => true,
        },
    };
    let vm_err: u64 = if ready_ok { 13 } else { 3 };
    let vm = match recs.and_then(|r| r.vm.as_ref().map(|v| (r, v))) {
        None => T::l(vec![]),
        Some((r, (reverted, ins, outs, receipts))) => {
            let ids: Vec<T> = receipts
                .iter()
                .filter_map(|x| x.message_id())
                .map(|m| n(w.int.id(m.as_ref())))
                .collect();
            let ch = r.changes.as_ref().map(|c| changes_digest(&mut w.int, c)).unwrap_or(0);
            T::l(vec![
                T::b(*reverted),
                T::l(outs.iter().map(|o| abs::abs_output(&mut w.int, o)).collect()),
                n(abs::inputs_digest(&mut w.int, ins)),
                T::l(ids),
                n(ch),
                match r.fee {
                    Some((g, f)) => T::l(vec![n(g), n(f)]),
                    None => T::l(vec![]),
                },
            ])
        }
    };
    T::l(vec![a_tx, T::b(checked), n(expiration), T::b(basic_ok), T::b(true), T::b(sig_ok), vm, n(vm_err), T::b(true)])
}

fn ready(
    c: fuel_core_types::fuel_vm::checked_transaction::Checked<Transaction>,
    gas_price: u64,
    params: &ConsensusParameters,
    height: u32,
) -> bool {
    use fuel_core_types::fuel_vm::checked_transaction::CheckedTransaction as C;
    let gc = params.gas_costs();
    let fp = params.fee_params();
    let h = Some(BlockHeight::new(height));
    match C::from(c) {
        C::Script(t) => t.into_ready(gas_price, gc, fp, h).is_ok(),
        C::Create(t) => t.into_ready(gas_price, gc, fp, h).is_ok(),
        C::Upgrade(t) => t.into_ready(gas_price, gc, fp, h).is_ok(),
        C::Upload(t) => t.into_ready(gas_price, gc, fp, h).is_ok(),
        C::Blob(t) => t.into_ready(gas_price, gc, fp, h).is_ok(),
        C::Mint(_) => true,
    }
}

// ---------------------------------------------------------------- tables

pub fn dump_state(w: &mut World) -> T {
    let db = w.db.clone();
    let mut coins: Vec<Vec<u64>> = db
        .iter_all::<Coins>(None)
        .map(|r| {
            let (k, c) = r.unwrap();
            abs::coin_row(&mut w.int, &k, c.owner().as_ref(), *c.amount(), c.asset_id().as_ref(), c.tx_pointer())
        })
        .collect();
    coins.sort();
    let mut msgs: Vec<Vec<u64>> = db
        .iter_all::<Messages>(None)
        .map(|r| {
            let (_, m) = r.unwrap();
            abs::msg_row(&mut w.int, &m)
        })
        .collect();
    msgs.sort();
    let mut proc: Vec<u64> = db
        .iter_all_keys::<ProcessedTransactions>(None)
        .map(|r| w.int.id(r.unwrap().as_ref()))
        .collect();
    proc.sort();
    let mut cons: Vec<Vec<u64>> = db
        .iter_all::<ContractsLatestUtxo>(None)
        .map(|r| {
            let (k, v) = r.unwrap();
            let (a, b) = abs::utxo(&mut w.int, v.utxo_id());
            let p = v.tx_pointer();
            vec![w.int.id(k.as_ref()), a, b, u32::from(p.block_height()) as u64, p.tx_index() as u64]
        })
        .collect();
    cons.sort();
    T::l(vec![
        T::l(coins.iter().map(|r| abs::row_t(r)).collect()),
        T::l(msgs.iter().map(|r| abs::row_t(r)).collect()),
        T::l(proc.iter().map(|x| n(*x)).collect()),
        T::l(cons.iter().map(|r| abs::row_t(r)).collect()),
    ])
}

// ---------------------------------------------------------------- digests of whole databases

pub fn digest_db<D>(db: &Database<D>) -> [u8; 32]
where
    D: fuel_core::database::database_description::DatabaseDescription,
{
    use fuel_core_storage::{iter::{IterDirection, IterableStore}, kv_store::StorageColumn};
    use fuel_core_types::fuel_crypto::Hasher;
    let mut h = Hasher::default();
    for col in enum_iterator::all::<D::Column>() {
        h.input(col.id().to_be_bytes());
        for kv in db.iter_store(col, None, None, IterDirection::Forward) {
            let (k, v) = kv.expect("iteration");
            h.input((k.len() as u32).to_be_bytes());
            h.input(&k);
            h.input((v.len() as u32).to_be_bytes());
            h.input(&v[..]);
        }
    }
    *h.digest()
}

// ---------------------------------------------------------------- tampered blocks

fn tamper(w: &World, rng: &mut Rng, block: &Block, kind: u64) -> Option<Block> {
    use fuel_core_types::fuel_tx::field::{InputContract, MintAmount, MintAssetId, MintGasPrice, OutputContract, TxPointer as TP};
    use fuel_core_types::fuel_tx::TxPointer;
    let mut txs: Vec<Transaction> = block.transactions().to_vec();
    let n = txs.len();
    let mint = match txs.last() {
        Some(Transaction::Mint(m)) => m.clone(),
        _ => return None,
    };
    let rebuild = |amount: u64, price: u64, index: u16| -> Transaction {
        Transaction::mint(
            TxPointer::new(mint.tx_pointer().block_height(), index),
            mint.input_contract().clone(),
            *mint.output_contract(),
            amount,
            *mint.mint_asset_id(),
            price,
        )
        .into()
    };
    let idx = mint.tx_pointer().tx_index();
    match kind {
        0 => {}
        1 => txs[n - 1] = rebuild(mint.mint_amount().wrapping_add(1), *mint.gas_price(), idx),
        2 => txs[n - 1] = rebuild(*mint.mint_amount(), mint.gas_price().wrapping_add(1), idx),
        3 => txs[n - 1] = rebuild(*mint.mint_amount(), *mint.gas_price(), idx.wrapping_add(1)),
        4 => {
            txs.pop();
        }
        5 => {
            if n < 2 {
                return None;
            }
            let m = txs.pop().unwrap();
            txs.insert(0, m);
        }
        6 => {
            if n < 2 {
                return None;
            }
            let k = rng.below(n as u64 - 1) as usize;
            let t = txs[k].clone();
            txs.insert(n - 1, t);
        }
        7 => {
            if w.executed.is_empty() {
                return None;
            }
            let t = w.executed[rng.below(w.executed.len() as u64) as usize].clone();
            txs.insert(n - 1, t);
        }
        8 => {
            let m = txs[n - 1].clone();
            txs.push(m);
        }
        _ => return None,
    }
    let mut b = block.clone();
    *b.transactions_mut() = txs;
    Some(b)
}

// ---------------------------------------------------------------- dry runs

/// (request for the model, observed answer, databases untouched, repeated answer identical)
fn dry_run(w: &mut World, rng: &mut Rng, ex: &Exec, plan: &BlockPlan, height: u32) -> (T, T, bool, bool) {
    let mut txs: Vec<Transaction> = vec![];
    for t in plan.txs.iter() {
        if rng.chance(1, 2) {
            txs.push(t.clone());
        }
    }
    if txs.is_empty() {
        if let Some(t) = plan.txs.first() {
            txs.push(t.clone());
        }
    }
    let forbid = *rng.pick(&[None, Some(true), Some(false)]);
    let eff_forbid = forbid.unwrap_or(w.forbid);
    let before = (digest_db(&w.db), digest_db(&w.relayer));
    let comps = |txs: &Vec<Transaction>| Components {
        header_to_produce: header(height, plan.da_height),
        transactions_source: txs.clone(),
        coinbase_recipient: Default::default(),
        gas_price: plan.gas_price,
    };
    let _ = verif_hooks::take();
    let r1 = ex.dry_run(comps(&txs), forbid, None, rng.chance(1, 2));
    let (atts, _) = split_log(verif_hooks::take());
    let r2 = ex.dry_run(comps(&txs), forbid, None, false);
    let _ = verif_hooks::take();
    let after = (digest_db(&w.db), digest_db(&w.relayer));
    let same = match (&r1, &r2) {
        (Ok(a), Ok(b)) => format!("{:?}", a.transactions) == format!("{:?}", b.transactions),
        (Err(a), Err(b)) => format!("{a:?}") == format!("{b:?}"),
        _ => false,
    };
    // oracles per delivered transaction
    let chain_id = w.params.chain_id();
    let mut p = 0usize;
    let mut req = vec![];
    let mut first_skipped_after_vm = false;
    let mut found_first = false;
    for tx in txs.iter() {
        let id = tx.id(&chain_id);
        let recs = if atts.get(p).map(|a| a.id == Some(id)).unwrap_or(false) {
            p += 1;
            Some(&atts[p - 1])
        } else {
            None
        };
        if !found_first {
            match recs {
                None => found_first = true,
                Some(r) => {
                    let included = match atts.get(p) {
                        Some(nx) => nx.n_status == r.n_status + 1,
                        None => r1.is_ok(),
                    };
                    if !included {
                        found_first = true;
                        first_skipped_after_vm = r.vm.is_some();
                    }
                }
            }
        }
        req.push(abs_att(w, tx, false, recs, height, plan.gas_price));
    }
    let ans = match r1 {
        Ok(r) => T::l(vec![
            n(0),
            T::l(r.transactions.iter().map(|(_, s)| abs::abs_status(&mut w.int, s)).collect()),
        ]),
        Err(e) => T::l(vec![n(abs::err_tag(&e, first_skipped_after_vm)), T::l(vec![])]),
    };
    (T::l(vec![T::b(eff_forbid), T::l(req)]), ans, before == after, same)
}

// ---------------------------------------------------------------- one block

pub struct BlockPlan {
    pub txs: Vec<Transaction>,
    pub policy: Policy,
    pub gas_price: u64,
    pub recipient: ContractId,
    pub da_height: u64,
}

fn header(height: u32, da: u64) -> PartialBlockHeader {
    let mut application: ApplicationHeader<_> = Default::default();
    application.da_height = da.into();
    let mut consensus: ConsensusHeader<_> = Default::default();
    consensus.height = height.into();
    consensus.time = Tai64(4611686018427387914 + height as u64);
    PartialBlockHeader { application, consensus }
}

fn run_out_ok(
    w: &mut World,
    ids: &[TxId],
    skipped: &[(TxId, u64)],
    status: &[fuel_core_types::services::executor::TransactionExecutionStatus],
    events: &[fuel_core_types::services::executor::Event],
    fin: Option<(u64, u64, u32)>,
    n_msg: u32,
    inbox: &[u8],
) -> T {
    let (cb, ug, us) = fin.unwrap_or((u64::MAX, u64::MAX, u32::MAX));
    T::l(vec![
        n(0),
        T::l(ids.iter().map(|x| n(w.int.id(x.as_ref()))).collect()),
        T::l(skipped.iter().map(|(id, e)| T::l(vec![n(w.int.id(id.as_ref())), n(*e)])).collect()),
        T::l(status.iter().map(|s| abs::abs_status(&mut w.int, s)).collect()),
        T::l(events.iter().map(|e| abs::abs_event(&mut w.int, e)).collect()),
        T::l(vec![n(cb), n(ug), n(us as u64), n(n_msg as u64)]),
        T::bytes(inbox),
    ])
}

fn run_out_err(e: &ExecutorError) -> T {
    T::l(vec![n(abs::err_tag(e, true))])
}

type Exec = Executor<Database<OnChain>, Rel>;

fn executor(w: &World) -> Exec {
    Executor::new(
        w.db.clone(),
        Rel { enabled: w.flags & world::F_RELAYER != 0, db: w.relayer.clone() },
        Config {
            forbid_fake_coins_default: w.forbid,
            allow_syscall: true,
            native_executor_version: None,
            allow_historical_execution: true,
        },
    )
}

/// validate `block`; returns (attempt list for the model, result)
fn validate(
    w: &mut World,
    ex: &Exec,
    block: &Block,
    height: u32,
    n_forced: usize,
    n_l1: usize,
) -> (T, T, Option<Changes>) {
    let gas_price = match block.transactions().last() {
        Some(Transaction::Mint(m)) => {
            use fuel_core_types::fuel_tx::field::MintGasPrice;
            *m.gas_price()
        }
        _ => 0,
    };
    let _ = verif_hooks::take();
    let res = ex.validate(block);
    let (mut atts, fin) = split_log(verif_hooks::take());
    // validation re-executes the forced transactions from the relayer, then the block's
    // transactions after the first n_l1 ones
    let n_forced = n_forced.min(atts.len());
    atts.drain(..n_forced);
    let chain_id = w.params.chain_id();
    let vatts: Vec<T> = block
        .transactions()
        .iter()
        .enumerate()
        .map(|(k, tx)| {
            let recs = if k >= n_l1 { atts.get(k - n_l1) } else { None };
            let mut a = abs_att(w, tx, false, recs, height, gas_price);
            if let (Transaction::Mint(_), T::L(v)) = (tx, &mut a) {
                // the recomputed mint is opaque: its digest is the block's own
                let mall = match &v[0] {
                    T::L(t) => t[4].clone(),
                    _ => unreachable!(),
                };
                v[6] = T::l(vec![T::b(false), T::l(vec![]), mall, T::l(vec![]), n(0), T::l(vec![])]);
            }
            a
        })
        .collect();
    let ids: Vec<TxId> = block.transactions().iter().map(|t| t.id(&chain_id)).collect();
    match res {
        Ok(u) => {
            let (ValidationResult { tx_status, events }, changes) = u.into();
            let h = block.header();
            let out = run_out_ok(
                w,
                &ids,
                &[],
                &tx_status,
                &events,
                fin,
                h.message_receipt_count(),
                h.event_inbox_root().as_ref(),
            );
            (T::l(vatts), out, Some(changes))
        }
        Err(e) => (T::l(vatts), run_out_err(&e), None),
    }
}

fn changes_equal(a: &Changes, b: &Changes) -> bool {
    a == b
}

/// parsed transaction and validity (parse, variant, claimed gas, checks) of a relayed one
fn forced_flags(
    w: &World,
    r: &fuel_core_types::entities::RelayedTransaction,
    height: u32,
) -> Option<(Transaction, bool)> {
    use fuel_core_types::{blockchain::transaction::TransactionExt, fuel_types::canonical::Deserialize};
    let tx = Transaction::from_bytes(r.serialized_transaction()).ok()?;
    if matches!(tx, Transaction::Mint(_)) {
        return Some((tx, false));
    }
    let actual = tx.max_gas(&w.params).unwrap_or(u64::MAX);
    let check_ok = tx.clone().into_checked(BlockHeight::new(height), &w.params).is_ok();
    let ok = actual <= r.max_gas() && check_ok;
    Some((tx, ok))
}

fn da_in_range(prev_da: Option<u64>, da: u64, height: u32, h: u64) -> bool {
    match prev_da {
        Some(p) => height != 0 && p != u64::MAX && h > p && h <= da,
        None => false,
    }
}

/// number of valid forced transactions of the DA range of this block
fn forced_in_range(w: &World, prev_da: Option<u64>, da: u64, height: u32) -> usize {
    use fuel_core_types::services::relayer::Event;
    let mut out = 0usize;
    for (h, evs) in w.relayed.iter() {
        if da_in_range(prev_da, da, height, *h) {
            for e in evs {
                if let Event::Transaction(r) = e {
                    if let Some((_, true)) = forced_flags(w, r, height) {
                        out += 1;
                    }
                }
            }
        }
    }
    out
}

#[allow(clippy::too_many_arguments)]
fn abs_l1(
    w: &mut World,
    enabled: bool,
    prev_da: Option<u64>,
    height: u32,
    forced_recs: &[AttemptRecs],
    da: u64,
) -> T {
    use fuel_core_types::{blockchain::transaction::TransactionExt, services::relayer::Event};
    let mut entries = vec![];
    let relayed = w.relayed.clone();
    let mut k = 0usize;
    for (h, evs) in relayed.iter() {
        let mut es = vec![];
        for e in evs {
            let hash = T::bytes(e.hash().as_ref());
            match e {
                Event::Message(m) => {
                    es.push(T::l(vec![T::i(0), hash, abs::row_t(&abs::msg_row(&mut w.int, m))]));
                }
                Event::Transaction(r) => {
                    let rid: fuel_core_types::fuel_tx::Bytes32 = r.id().into();
                    let id = w.int.id(rid.as_ref());
                    let parsed = forced_flags(w, r, height);
                    let (parse_ok, is_mint, actual, check_ok, att) = match &parsed {
                        None => (false, false, 0u64, true, None),
                        Some((tx, ok)) => {
                            let is_mint = matches!(tx, Transaction::Mint(_));
                            let actual = tx.max_gas(&w.params).unwrap_or(0);
                            let check_ok = if is_mint {
                                true
                            } else {
                                tx.clone().into_checked(BlockHeight::new(height), &w.params).is_ok()
                            };
                            let recs = if *ok && da_in_range(prev_da, da, height, *h) {
                                k += 1;
                                forced_recs.get(k - 1)
                            } else {
                                None
                            };
                            (true, is_mint, actual, check_ok, Some(abs_att(w, tx, true, recs, height, 0)))
                        }
                    };
                    let att = att.unwrap_or_else(|| {
                        T::l(vec![
                            T::l(vec![n(0), T::b(false), T::l(vec![]), T::l(vec![]), n(0), n(0), n(0), n(0), n(0), n(0), n(0), T::b(true)]),
                            T::b(true),
                            n(u32::MAX as u64),
                            T::b(true),
                            T::b(true),
                            T::b(true),
                            T::l(vec![]),
                            n(13),
                            T::b(true),
                        ])
                    });
                    es.push(T::l(vec![
                        T::i(1),
                        hash,
                        n(id),
                        T::b(parse_ok),
                        T::b(is_mint),
                        n(r.max_gas()),
                        n(actual),
                        T::b(check_ok),
                        att,
                    ]));
                }
            }
        }
        entries.push(T::l(vec![n(*h), T::l(es)]));
    }
    T::l(vec![T::b(enabled), T::opt(prev_da), T::l(entries)])
}

pub fn run_block(w: &mut World, rng: &mut Rng, plan: BlockPlan) -> (T, T) {
    let height = w.height;
    let ex = executor(w);
    let relayer_on = w.flags & world::F_RELAYER != 0;
    let prev_da: Option<u64> =
        if relayer_on && (w.has_genesis_block || height > 1) { Some(w.da_height) } else { None };
    let n_forced = if relayer_on { forced_in_range(w, prev_da, plan.da_height, height) } else { 0 };
    let pending: Vec<(usize, MaybeCheckedTransaction)> = plan
        .txs
        .iter()
        .enumerate()
        .map(|(k, tx)| {
            let at = rng.range(0, height as u64) as u32;
            (k, w.maybe_checked(rng, tx, at))
        })
        .collect();
    let checked: Vec<bool> = pending
        .iter()
        .map(|(_, m)| matches!(m, MaybeCheckedTransaction::CheckedTransaction(..)))
        .collect();
    let src = Source(Arc::new(Mutex::new(SourceInner {
        pending,
        policy: plan.policy,
        params: w.params.clone(),
        calls: vec![],
    })));
    let comps = Components {
        header_to_produce: header(height, plan.da_height),
        transactions_source: src.clone(),
        coinbase_recipient: plan.recipient,
        gas_price: plan.gas_price,
    };
    let _ = verif_hooks::take();
    let res = ex.produce_without_commit_with_source_direct_resolve(comps);
    let (mut atts, fin) = split_log(verif_hooks::take());
    // the forced transactions are attempted first
    let n_forced = n_forced.min(atts.len());
    let forced_recs: Vec<AttemptRecs> = atts.drain(..n_forced).collect();
    let calls = src.0.lock().unwrap().calls.clone();
    let chain_id = w.params.chain_id();

    // attach the hook records to the delivered transactions (greedy, in order)
    let mut p = 0usize;
    // per delivery: (id, index of its attempt in `atts` if execute_transaction was entered)
    let mut deliveries: Vec<(TxId, Option<usize>)> = vec![];
    let mut batches: Vec<T> = vec![];
    let mut hints: Vec<T> = vec![];
    for ((g, c, s), idxs) in calls.iter() {
        hints.push(T::l(vec![n(*g), n(*c as u64), n(*s as u64)]));
        let mut b = vec![];
        for k in idxs {
            let tx = &plan.txs[*k];
            let id = tx.id(&chain_id);
            let recs = if atts.get(p).map(|a| a.id == Some(id)).unwrap_or(false) {
                p += 1;
                deliveries.push((id, Some(p - 1)));
                Some(&atts[p - 1])
            } else {
                deliveries.push((id, None));
                None
            };
            b.push(abs_att(w, tx, checked[*k], recs, height, plan.gas_price));
        }
        batches.push(T::l(b));
    }
    // the mint attempt (if production got that far)
    let mint_recs = atts.get(p).cloned();
    let mint_id = mint_recs.as_ref().and_then(|a| a.id);

    let l1 = abs_l1(w, relayer_on, prev_da, height, &forced_recs, plan.da_height);
    // forced transactions that made it into the block
    let n_l1 = {
        let mut c = 0usize;
        for (k, r) in forced_recs.iter().enumerate() {
            let next_status = forced_recs.get(k + 1).map(|x| x.n_status).or(atts.first().map(|x| x.n_status));
            if next_status == Some(r.n_status + 1) {
                c += 1;
            }
        }
        c
    };
    let mut vatts = T::l(vec![]);
    let mut val_out = T::l(vec![]);
    let mut same_changes = false;
    let mut tam_in: Vec<T> = vec![];
    let mut tam_out: Vec<T> = vec![];
    // dry runs on the state before the block
    let mut dry_in: Vec<T> = vec![];
    let mut dry_out: Vec<T> = vec![];
    let mut dry_pure = true;
    let mut dry_same = true;
    if w.dry {
        for _ in 0..rng.range(1, 2) {
            let (rq, ans, pure, same) = dry_run(w, rng, &ex, &plan, height);
            dry_in.push(rq);
            dry_out.push(ans);
            dry_pure &= pure;
            dry_same &= same;
        }
    }
    let prod_out;
    let mint_att;
    match res {
        Ok(u) => {
            let (ExecutionResult { block, skipped_transactions, tx_status, events }, changes) = u.into();
            let ids: Vec<TxId> = block.transactions().iter().map(|t| t.id(&chain_id)).collect();
            // the skipped list follows the deliveries that were not included; an attempt was
            // included iff the next attempt saw one more status
            let mut skipped: Vec<(TxId, u64)> = vec![];
            if std::env::var_os("HEXEC_DEBUG").is_some() {
                for (_, e) in skipped_transactions.iter() {
                    eprintln!("skipped: {e:?}");
                }
            }
            let mut sk = skipped_transactions.iter();
            let mut next = sk.next();
            for (id, att) in deliveries.iter() {
                let Some((sid, e)) = next else { break };
                let (not_included, after_vm) = match att {
                    None => (sid == id && matches!(e, ExecutorError::GasOverflow(..)), false),
                    Some(k) => {
                        let included = atts
                            .get(k + 1)
                            .map(|nx| nx.n_status == atts[*k].n_status + 1)
                            .unwrap_or(false);
                        (!included, atts[*k].vm.is_some())
                    }
                };
                if not_included && sid == id {
                    skipped.push((*sid, abs::err_tag(e, after_vm)));
                    next = sk.next();
                }
            }
            while let Some((sid, e)) = next {
                // should not happen: keep the entry visible
                skipped.push((*sid, 1000 + abs::err_tag(e, false)));
                next = sk.next();
            }
            let h = block.header();
            prod_out = run_out_ok(
                w,
                &ids,
                &skipped,
                &tx_status,
                &events,
                fin,
                h.message_receipt_count(),
                h.event_inbox_root().as_ref(),
            );
            let mint_tx = block.transactions().last().expect("mint").clone();
            mint_att = {
                let mut a = abs_att(w, &mint_tx, false, None, height, plan.gas_price);
                if let T::L(v) = &mut a {
                    let mall = match &v[0] {
                        T::L(t) => t[4].clone(),
                        _ => unreachable!(),
                    };
                    v[6] = T::l(vec![T::b(false), T::l(vec![]), mall, T::l(vec![]), n(0), T::l(vec![])]);
                }
                a
            };
            let (va, vo, vchanges) = validate(w, &ex, &block, height, n_forced, n_l1);
            vatts = va;
            val_out = vo;
            same_changes = vchanges.as_ref().map(|c| changes_equal(c, &changes)).unwrap_or(false);
            if w.tamper {
                for kind in 0..=8u64 {
                    if kind != 0 && !rng.chance(1, 2) {
                        continue;
                    }
                    if let Some(tb) = tamper(w, rng, &block, kind) {
                        let (ta, to, _) = validate(w, &ex, &tb, height, n_forced, n_l1);
                        tam_in.push(T::l(vec![n(kind), T::b(kind == 0), ta]));
                        let tag = match &to {
                            T::L(v) => v[0].clone(),
                            x => x.clone(),
                        };
                        tam_out.push(tag);
                    }
                }
            }
            if vchanges.is_some() {
                for t in block.transactions().iter() {
                    if !matches!(t, Transaction::Mint(_)) {
                        w.executed.push(t.clone());
                    }
                }
                // commit the production changes together with the block, as the importer does
                let mut t = w.db.write_transaction();
                t.commit_changes(changes).expect("merge changes");
                t.storage_as_mut::<FuelBlocks>()
                    .insert(&BlockHeight::new(height), &block.compress(&chain_id))
                    .expect("insert block");
                t.commit().expect("commit block");
                w.height += 1;
                w.da_height = plan.da_height;
            }
        }
        Err(e) => {
            prod_out = run_out_err(&e);
            // the id of the mint is known if production reached it
            let id = mint_id.map(|i| w.int.id(i.as_ref())).unwrap_or(0);
            mint_att = T::l(vec![
                T::l(vec![n(id), T::b(true), T::l(vec![]), T::l(vec![]), n(0), n(0), n(0), n(0), n(0), n(0), n(0), T::b(true)]),
                T::b(false),
                n(u32::MAX as u64),
                T::b(true),
                T::b(true),
                T::b(true),
                T::l(vec![]),
                n(13),
                T::b(!matches!(e, ExecutorError::CoinbaseCannotIncreaseBalance(_))),
            ]);
        }
    }
    let rec = w.int.id(plan.recipient.as_ref());
    let block_in = T::l(vec![
        T::l(vec![n(height as u64), n(plan.da_height)]),
        T::l(vec![n(rec), n(plan.gas_price)]),
        l1,
        T::l(batches),
        mint_att,
        vatts,
        T::l(tam_in),
        T::l(dry_in),
        T::l(vec![T::b(same_changes), T::b(true), T::b(dry_pure), T::b(dry_same)]),
    ]);
    let post = dump_state(w);
    let block_out = T::l(vec![
        T::l(vec![prod_out, T::l(hints)]),
        val_out,
        T::l(tam_out),
        T::l(dry_out),
        post,
    ]);
    (block_in, block_out)
}

pub fn params_t(w: &World) -> T {
    T::l(vec![
        n(w.params.block_gas_limit()),
        n(w.params.block_transaction_size_limit()),
        n(max_tx_count() as u64),
        T::b(w.forbid),
    ])
}
