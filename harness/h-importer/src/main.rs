//! Correspondence harness for the block importer (C08): the real `Importer` over an in-memory
//! key-value store with scripted verifier / validator / reconciliation write port.
mod c08;

use vcommon::{Rng, T};

fn gen(prop: &str, rng: &mut Rng, n: u64, tier: &str) -> Vec<T> {
    match prop {
        "C08" => c08::gen(rng, n, tier),
        p => panic!("unknown property {p}"),
    }
}

fn run(prop: &str, input: &T) -> T {
    match prop {
        "C08" => c08::run(input),
        p => panic!("unknown property {p}"),
    }
}

fn main() {
    vcommon::main_protocol(gen, run);
}
