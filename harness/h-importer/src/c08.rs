//! C08: the real `fuel_core_importer::Importer` driven with sequences of `commit_result` /
//! `execute_and_commit` calls (correct, duplicate, skipped, stale, tampered-root blocks, injected
//! verifier / executor / write-port / storage failures, back-pressure, a second call while one is
//! in flight).
//!
//! Database: `InMemoryStorage<Column>` behind the `ImporterDatabase` port, mirroring the adapter in
//! `crates/fuel-core/src/service/adapters/block_importer.rs` (latest height = last `FuelBlocks` key,
//! latest root = `FuelBlockMerkleMetadata[Latest]`, commit = apply the change list). The block,
//! consensus and transaction rows are written by the real `DatabaseTransaction::store_new_block`
//! through the real table blueprints.
//!
//! input  = (cap pre_cons pre_txs ops)
//!   op   = (0 call) | (1 callA callB) | (2) | (3 callA (callB ..))
//!          (1 ..): callB is attempted while callA is in flight inside a port
//!          (3 ..): callA parks on back-pressure (notification buffer full), the calls B are attempted meanwhile,
//!                  then the subscriber releases its results and callA proceeds; if callA returns without parking
//!                  the calls B are not made and the subscriber releases afterwards
//!   call = (0 block local mroot mark wp_ok dbc_ok) | (1 block verify_ok exec dbc_ok)
//!   exec = () | (mroot mark)          block = (height consensus txs)   consensus 0 = Genesis, 1 = PoA
//! observation = list over ops of lists of phases; phase = (result db events)
//!   result = () | (tag args..)     db = (latest blocks cons txs root marks held)
//!   event  = (0 h) publish | (1 h..) commit of FuelBlocks rows | (2 h source present) announcement
use fuel_core_importer::{
    error::Error,
    ports::{BlockReconciliationWritePort, BlockVerifier, ImporterDatabase, Validator},
    Config, Importer, ImporterResult,
};
use fuel_core_storage::{
    column::Column,
    kv_store::{KeyValueInspect, StorageColumn, Value, WriteOperation},
    structured_storage::test::InMemoryStorage,
    tables::{
        merkle::{DenseMerkleMetadata, DenseMetadataKey, FuelBlockMerkleMetadata},
        FuelBlocks, ProcessedTransactions, SealedBlockConsensus, Transactions,
    },
    transactional::{Changes, Modifiable, ReadTransaction, StorageChanges, WriteTransaction},
    Error as StorageError, MerkleRoot, Result as StorageResult, StorageAsMut, StorageAsRef,
};
use fuel_core_types::{
    blockchain::{
        block::{Block, PartialFuelBlock},
        consensus::Consensus,
        header::{ApplicationHeader, ConsensusHeader, PartialBlockHeader},
        primitives::{DaBlockHeight, Empty},
        SealedBlock,
    },
    fuel_tx::{policies::Policies, Transaction, UniqueIdentifier},
    fuel_types::{BlockHeight, Bytes32, ChainId},
    services::{
        block_importer::{ImportResult, Source, UncommittedResult},
        executor::{Error as ExecutorError, Result as ExecutorResult, UncommittedValidationResult, ValidationResult},
        Uncommitted,
    },
};
use std::{
    collections::HashMap,
    future::Future,
    pin::Pin,
    sync::{
        atomic::{AtomicBool, Ordering},
        Arc, Condvar, Mutex,
    },
};
use tokio::sync::broadcast::{self, error::TryRecvError};
use vcommon::{Rng, T};

const TX_UNIVERSE: u32 = 40;

// ---------------------------------------------------------------------------------------------
// a one-shot gate: the first port call after `arm` blocks until `release`

#[derive(Default)]
struct GateSt {
    armed: bool,
    reached: bool,
    open: bool,
}
#[derive(Default)]
struct Gate {
    m: Mutex<GateSt>,
    cv: Condvar,
}
impl Gate {
    fn arm(&self) {
        let mut g = self.m.lock().unwrap();
        g.armed = true;
        g.reached = false;
        g.open = false;
    }
    fn pass(&self) {
        let mut g = self.m.lock().unwrap();
        if g.armed {
            g.armed = false;
            g.reached = true;
            self.cv.notify_all();
            while !g.open {
                g = self.cv.wait(g).unwrap();
            }
            g.open = false;
            g.reached = false;
        }
    }
    fn wait_reached(&self) {
        let mut g = self.m.lock().unwrap();
        while !g.reached {
            g = self.cv.wait(g).unwrap();
        }
    }
    fn release(&self) {
        let mut g = self.m.lock().unwrap();
        g.armed = false;
        g.open = true;
        self.cv.notify_all();
    }
}

#[derive(Clone, Default)]
struct Script {
    verify_ok: bool,
    exec: Option<(u32, u32)>,
    wp_ok: bool,
}

struct Shared {
    store: Mutex<InMemoryStorage<Column>>,
    scripts: Mutex<HashMap<u64, Script>>,
    fail_commit: AtomicBool,
    db_gate: Gate,
    ver_gate: Gate,
    log: Mutex<Vec<T>>,
    rx: Mutex<Option<broadcast::Receiver<ImporterResult>>>,
    held: Mutex<Vec<ImporterResult>>,
}

fn raw(st: &InMemoryStorage<Column>) -> &HashMap<(u32, Vec<u8>), Value> {
    InMemoryStorage::<Column>::storage(st)
}

fn col(c: Column) -> u32 {
    c.id()
}

fn block_present(sh: &Shared, h: u32) -> bool {
    let st = sh.store.lock().unwrap();
    raw(&st).contains_key(&(col(Column::FuelBlocks), h.to_be_bytes().to_vec()))
}

/// move everything the subscriber has received so far into the event log (and keep the results,
/// i.e. their back-pressure permits, until a release op)
fn drain(sh: &Shared) {
    let mut rxg = sh.rx.lock().unwrap();
    if let Some(rx) = rxg.as_mut() {
        loop {
            match rx.try_recv() {
                Ok(res) => {
                    let h: u32 = **res.sealed_block.entity.header().height();
                    let src = match res.source {
                        Source::Network => 0,
                        Source::Local => 1,
                    };
                    let present = block_present(sh, h);
                    sh.log.lock().unwrap().push(T::l(vec![T::i(2), T::n(h), T::i(src), T::b(present)]));
                    sh.held.lock().unwrap().push(res);
                }
                Err(TryRecvError::Lagged(n)) => {
                    sh.log.lock().unwrap().push(T::l(vec![T::i(3), T::n(n)]));
                }
                Err(_) => break,
            }
        }
    }
}

#[derive(Clone)]
struct Db(Arc<Shared>);

impl KeyValueInspect for Db {
    type Column = Column;
    fn get(&self, key: &[u8], column: Column) -> StorageResult<Option<Value>> {
        self.0.store.lock().unwrap().get(key, column)
    }
}

impl ImporterDatabase for Db {
    fn latest_block_height(&self) -> StorageResult<Option<BlockHeight>> {
        self.0.db_gate.pass();
        let st = self.0.store.lock().unwrap();
        let c = col(Column::FuelBlocks);
        // FuelBlocks keys are big-endian heights: the last key in key order
        let max = raw(&st)
            .keys()
            .filter(|(cc, _)| *cc == c)
            .map(|(_, k)| u32::from_be_bytes([k[0], k[1], k[2], k[3]]))
            .max();
        Ok(max.map(Into::into))
    }

    fn latest_block_root(&self) -> StorageResult<Option<MerkleRoot>> {
        Ok(self
            .read_transaction()
            .storage_as_ref::<FuelBlockMerkleMetadata>()
            .get(&DenseMetadataKey::Latest)?
            .map(|cow| *cow.root()))
    }

    fn commit_changes(&mut self, changes: StorageChanges) -> StorageResult<()> {
        // anything announced before its data is committed shows up before the commit event
        drain(&self.0);
        if self.0.fail_commit.load(Ordering::SeqCst) {
            return Err(StorageError::Other(anyhow::anyhow!("injected commit failure")));
        }
        let list = match changes {
            StorageChanges::Changes(c) => vec![c],
            StorageChanges::ChangesList(v) => v,
        };
        let mut heights = vec![];
        for c in &list {
            if let Some(rows) = c.get(&col(Column::FuelBlocks)) {
                for (k, op) in rows {
                    if let WriteOperation::Insert(_) = op {
                        let k: &[u8] = k.as_ref();
                        heights.push(u32::from_be_bytes([k[0], k[1], k[2], k[3]]));
                    }
                }
            }
        }
        {
            let mut st = self.0.store.lock().unwrap();
            for c in list {
                st.commit_changes(c)?;
            }
        }
        let mut ev = vec![T::i(1)];
        ev.extend(heights.into_iter().map(T::n));
        self.0.log.lock().unwrap().push(T::l(ev));
        Ok(())
    }
}

fn serial_of(block: &Block) -> u64 {
    block.header().da_height().0
}

struct Verifier(Arc<Shared>);
impl BlockVerifier for Verifier {
    fn verify_block_fields(&self, _consensus: &Consensus, block: &Block) -> anyhow::Result<()> {
        self.0.ver_gate.pass();
        let s = self.0.scripts.lock().unwrap().get(&serial_of(block)).cloned().unwrap_or_default();
        if s.verify_ok {
            Ok(())
        } else {
            Err(anyhow::anyhow!("not verified"))
        }
    }
}

struct Exec(Arc<Shared>);
impl Validator for Exec {
    fn validate(&self, block: &Block) -> ExecutorResult<UncommittedValidationResult<Changes>> {
        let s = self.0.scripts.lock().unwrap().get(&serial_of(block)).cloned().unwrap_or_default();
        match s.exec {
            None => Err(ExecutorError::BlockMismatch),
            Some((mroot, mark)) => Ok(Uncommitted::new(
                ValidationResult { tx_status: vec![], events: vec![] },
                make_changes(&self.0, mroot, mark),
            )),
        }
    }
}

struct Wp(Arc<Shared>);
impl BlockReconciliationWritePort for Wp {
    fn publish_produced_block(&self, block: &SealedBlock) -> anyhow::Result<()> {
        let h: u32 = **block.entity.header().height();
        self.0.log.lock().unwrap().push(T::l(vec![T::i(0), T::n(h)]));
        let s = self.0.scripts.lock().unwrap().get(&serial_of(&block.entity)).cloned().unwrap_or_default();
        if s.wp_ok {
            Ok(())
        } else {
            Err(anyhow::anyhow!("write port failure"))
        }
    }
}

fn mark_key(mark: u32) -> Bytes32 {
    let mut b = [0u8; 32];
    b[0..4].copy_from_slice(&mark.to_be_bytes());
    b[31] = 0x5a;
    b.into()
}

/// the "execution result" change set: one marker row; mroot 1 additionally overwrites the Latest
/// row of the block Merkle metadata, mroot >= 2 inserts a foreign block row through the real table
fn make_changes(sh: &Arc<Shared>, mroot: u32, mark: u32) -> Changes {
    let db = Db(sh.clone());
    let mut tx = db.read_transaction();
    tx.storage_as_mut::<ProcessedTransactions>()
        .insert(&mark_key(mark), &())
        .expect("marker row");
    match mroot {
        0 => {}
        1 => {
            tx.storage_as_mut::<FuelBlockMerkleMetadata>()
                .insert(&DenseMetadataKey::Latest, &DenseMerkleMetadata::new([0xEE; 32], 77))
                .expect("metadata row");
        }
        _ => {
            let h = 3_000_000_000u32 + (mark % 1000);
            let b = build_block(h, &[], 0);
            tx.storage_as_mut::<FuelBlocks>()
                .insert(&h.into(), &b.compress(&ChainId::default()))
                .expect("foreign block row");
        }
    }
    tx.into_changes()
}

fn tx_of(k: u32) -> Transaction {
    Transaction::script(0, vec![], k.to_be_bytes().to_vec(), Policies::new(), vec![], vec![], vec![]).into()
}

fn build_block(h: u32, txs: &[u32], serial: u64) -> Block {
    let header = PartialBlockHeader {
        application: ApplicationHeader::<Empty> { da_height: DaBlockHeight(serial), ..Default::default() },
        consensus: ConsensusHeader::<Empty> { height: BlockHeight::new(h), ..Default::default() },
    };
    let txs: Vec<Transaction> = txs.iter().map(|k| tx_of(*k)).collect();
    PartialFuelBlock::new(header, txs).generate(&[], Default::default()).expect("block")
}

#[derive(Clone)]
struct Blk {
    h: u32,
    genesis: bool,
    txs: Vec<u32>,
}

#[derive(Clone)]
enum Call {
    Commit { b: Blk, local: bool, mroot: u32, mark: u32, wp_ok: bool, dbc_ok: bool },
    Exec { b: Blk, verify_ok: bool, exec: Option<(u32, u32)>, dbc_ok: bool },
}

fn parse_block(t: &T) -> Blk {
    let v = t.as_l();
    Blk { h: v[0].as_u32(), genesis: v[1].as_i() == 0, txs: v[2].as_l().iter().map(|x| x.as_u32()).collect() }
}

fn parse_call(t: &T) -> Call {
    let v = t.as_l();
    match v[0].as_i() {
        0 => Call::Commit {
            b: parse_block(&v[1]),
            local: v[2].as_bool(),
            mroot: v[3].as_u32(),
            mark: v[4].as_u32(),
            wp_ok: v[5].as_bool(),
            dbc_ok: v[6].as_bool(),
        },
        1 => {
            let e = v[3].as_l();
            Call::Exec {
                b: parse_block(&v[1]),
                verify_ok: v[2].as_bool(),
                exec: if e.is_empty() { None } else { Some((e[0].as_u32(), e[1].as_u32())) },
                dbc_ok: v[4].as_bool(),
            }
        }
        k => panic!("bad call {k}"),
    }
}

fn sealed(b: &Blk, serial: u64) -> SealedBlock {
    SealedBlock {
        entity: build_block(b.h, &b.txs, serial),
        consensus: if b.genesis { Consensus::Genesis(Default::default()) } else { Consensus::PoA(Default::default()) },
    }
}

type CallFut<'a> = Pin<Box<dyn Future<Output = Result<(), Error>> + 'a>>;

fn start<'a>(imp: &'a Importer, sh: &Arc<Shared>, c: &Call, serial: u64) -> CallFut<'a> {
    match c {
        Call::Commit { b, local, mroot, mark, wp_ok, dbc_ok } => {
            sh.scripts.lock().unwrap().insert(serial, Script { verify_ok: true, exec: None, wp_ok: *wp_ok });
            sh.fail_commit.store(!*dbc_ok, Ordering::SeqCst);
            let sb = sealed(b, serial);
            let changes = make_changes(sh, *mroot, *mark);
            let ir = if *local {
                ImportResult::new_from_local(sb, vec![], vec![])
            } else {
                ImportResult::new_from_network(sb, vec![], vec![])
            };
            Box::pin(imp.commit_result(UncommittedResult::new(ir, changes)))
        }
        Call::Exec { b, verify_ok, exec, dbc_ok } => {
            sh.scripts.lock().unwrap().insert(serial, Script { verify_ok: *verify_ok, exec: *exec, wp_ok: true });
            sh.fail_commit.store(!*dbc_ok, Ordering::SeqCst);
            Box::pin(imp.execute_and_commit(sealed(b, serial)))
        }
    }
}

fn res_t(r: &Result<(), Error>) -> T {
    let tag = |k: i128| T::l(vec![T::i(k)]);
    match r {
        Ok(()) => tag(0),
        Err(e) => match e {
            Error::Semaphore(_) => tag(1),
            Error::InvalidUnderlyingDatabaseGenesisState => tag(2),
            Error::InvalidDatabaseStateAfterExecution(_, _) => tag(3),
            Error::Overflow => tag(4),
            Error::ZeroNonGenericHeight => tag(5),
            Error::IncorrectBlockHeight(e, a) => T::l(vec![T::i(6), T::n(**e), T::n(**a)]),
            Error::BlockIdMismatch(_, _) => tag(7),
            Error::FailedVerification(_) => tag(8),
            Error::FailedExecution(_) => tag(9),
            Error::ExecuteGenesis => tag(10),
            Error::NotUnique(h) => T::l(vec![T::i(11), T::n(**h)]),
            Error::PreviousBlockProcessingNotFinished => tag(12),
            Error::FailedBlockReconciliationWrite(_) => tag(13),
            Error::SendCommandToInnerTaskFailed => tag(14),
            Error::InnerTaskIsNotRunning => tag(15),
            Error::Storage(StorageError::NotFound(_, _)) => tag(16),
            Error::Storage(_) => tag(17),
            Error::UnsupportedConsensusVariant(_) => tag(18),
            Error::ActiveBlockResultsSemaphoreClosed(_) => tag(19),
            Error::RayonTaskWasCanceled => tag(20),
        },
    }
}

struct Observer {
    roots: Vec<MerkleRoot>,
    txids: HashMap<Vec<u8>, u32>,
}

impl Observer {
    fn db_t(&mut self, sh: &Arc<Shared>) -> T {
        let db = Db(sh.clone());
        let root = db.latest_block_root().expect("root");
        let root_t = match root {
            None => T::l(vec![]),
            Some(r) => {
                let idx = match self.roots.iter().position(|x| *x == r) {
                    Some(i) => i,
                    None => {
                        self.roots.push(r);
                        self.roots.len() - 1
                    }
                };
                T::l(vec![T::n(idx as u64 + 1)])
            }
        };
        let st = sh.store.lock().unwrap();
        let (mut blocks, mut cons, mut txs, mut marks) = (vec![], vec![], vec![], vec![]);
        for (c, k) in raw(&st).keys() {
            if *c == col(Column::FuelBlocks) {
                blocks.push(u32::from_be_bytes([k[0], k[1], k[2], k[3]]));
            } else if *c == col(Column::FuelBlockConsensus) {
                cons.push(u32::from_be_bytes([k[0], k[1], k[2], k[3]]));
            } else if *c == col(Column::Transactions) {
                txs.push(*self.txids.get(k).unwrap_or(&999_999));
            } else if *c == col(Column::ProcessedTransactions) {
                marks.push(u32::from_be_bytes([k[0], k[1], k[2], k[3]]));
            }
        }
        blocks.sort();
        cons.sort();
        txs.sort();
        marks.sort();
        let latest = blocks.last().copied();
        let held = sh.held.lock().unwrap().len() as u64;
        T::l(vec![T::opt(latest), T::list_n(&blocks), T::list_n(&cons), T::list_n(&txs), root_t, T::list_n(&marks), T::n(held)])
    }
}

fn take_log(sh: &Shared) -> T {
    T::l(std::mem::take(&mut *sh.log.lock().unwrap()))
}

/// a waker that records that it was woken, so that a call can be driven step by step: it is polled
/// again only after the event it waits for (answer of the importer thread, a freed permit) happened
#[derive(Default)]
struct WakeFlag {
    m: Mutex<bool>,
    cv: Condvar,
}
impl std::task::Wake for WakeFlag {
    fn wake(self: Arc<Self>) {
        *self.m.lock().unwrap() = true;
        self.cv.notify_all();
    }
}

fn poll_manual(f: &mut CallFut<'_>, wf: &Arc<WakeFlag>) -> std::task::Poll<Result<(), Error>> {
    *wf.m.lock().unwrap() = false;
    let waker = std::task::Waker::from(wf.clone());
    let mut cx = std::task::Context::from_waker(&waker);
    f.as_mut().poll(&mut cx)
}

/// wait (real time) until the waker was woken; false if that does not happen
fn wait_wake(wf: &Arc<WakeFlag>) -> bool {
    let g = wf.m.lock().unwrap();
    let (g, res) = wf
        .cv
        .wait_timeout_while(g, std::time::Duration::from_secs(30), |woken| !*woken)
        .unwrap();
    drop(g);
    !res.timed_out()
}

/// drive a call to its end, polling only after wake-ups
fn drive(f: &mut CallFut<'_>, wf: &Arc<WakeFlag>) -> Result<(), Error> {
    loop {
        if let std::task::Poll::Ready(r) = poll_manual(f, wf) {
            return r;
        }
        assert!(wait_wake(wf), "a call neither returned nor was woken");
    }
}

/// poll a future once
async fn poll_once<'a>(f: &mut CallFut<'a>) -> Option<Result<(), Error>> {
    tokio::select! {
        biased;
        r = f => Some(r),
        _ = std::future::ready(()) => None,
    }
}

pub fn run(input: &T) -> T {
    let input = input.clone();
    // the importer owns threads: run on a plain thread; a panic is `(-777)`, a case that does not
    // finish within the watchdog time is `(-778)` (its threads are abandoned)
    if let Ok(path) = std::env::var("VERIF_PANIC_LOG") {
        std::panic::set_hook(Box::new(move |info| {
            use std::io::Write;
            if let Ok(mut f) = std::fs::OpenOptions::new().create(true).append(true).open(&path) {
                let _ = writeln!(f, "{info}");
            }
        }));
    }
    let (txr, rxr) = std::sync::mpsc::channel();
    std::thread::spawn(move || {
        let r = std::panic::catch_unwind(std::panic::AssertUnwindSafe(|| run_inner(&input)));
        let _ = txr.send(r.unwrap_or_else(|_| vcommon::t_panic()));
    });
    match rxr.recv_timeout(std::time::Duration::from_secs(120)) {
        Ok(t) => t,
        Err(_) => T::l(vec![T::i(-778)]),
    }
}

/// opens both gates when dropped, so that an unwinding harness never leaves the importer's
/// thread parked inside a port
struct OpenGates(Arc<Shared>);
impl Drop for OpenGates {
    fn drop(&mut self) {
        self.0.db_gate.release();
        self.0.ver_gate.release();
    }
}

fn run_inner(input: &T) -> T {
    let f = input.as_l();
    let cap = f[0].as_usize();
    let pre_cons: Vec<u32> = f[1].as_l().iter().map(|x| x.as_u32()).collect();
    let pre_txs: Vec<u32> = f[2].as_l().iter().map(|x| x.as_u32()).collect();

    let mut base = InMemoryStorage::<Column>::default();
    {
        let mut tx = base.write_transaction();
        for h in &pre_cons {
            tx.storage_as_mut::<SealedBlockConsensus>()
                .insert(&(*h).into(), &Consensus::PoA(Default::default()))
                .expect("orphan consensus row");
        }
        for k in &pre_txs {
            let t = tx_of(*k);
            tx.storage_as_mut::<Transactions>().insert(&t.id(&ChainId::default()), &t).expect("orphan tx row");
        }
        tx.commit().expect("prepopulate");
    }
    let sh = Arc::new(Shared {
        store: Mutex::new(base),
        scripts: Default::default(),
        fail_commit: AtomicBool::new(false),
        db_gate: Default::default(),
        ver_gate: Default::default(),
        log: Default::default(),
        rx: Default::default(),
        held: Default::default(),
    });
    let mut obs = Observer { roots: vec![], txids: HashMap::new() };
    for k in 0..TX_UNIVERSE {
        let id: [u8; 32] = tx_of(k).id(&ChainId::default()).into();
        obs.txids.insert(id.to_vec(), k);
    }

    let rt = tokio::runtime::Builder::new_current_thread()
        .enable_all()
        .start_paused(true)
        .build()
        .expect("runtime");
    let out = rt.block_on(async {
        let imp = Importer::new(
            ChainId::default(),
            Config { max_block_notify_buffer: cap, metrics: false },
            Db(sh.clone()),
            Exec(sh.clone()),
            Verifier(sh.clone()),
            Wp(sh.clone()),
        );
        *sh.rx.lock().unwrap() = Some(imp.subscribe());
        let mut out = vec![];
        let mut serial = 1u64;
        for op in f[3].as_l() {
            let o = op.as_l();
            match o[0].as_i() {
                0 => {
                    let c = parse_call(&o[1]);
                    let r = start(&imp, &sh, &c, serial).await;
                    serial += 1;
                    drain(&sh);
                    out.push(T::l(vec![T::l(vec![res_t(&r), obs.db_t(&sh), take_log(&sh)])]));
                }
                1 => {
                    let a = parse_call(&o[1]);
                    let b = parse_call(&o[2]);
                    // where will the first call be held?
                    let held_now = sh.held.lock().unwrap().len();
                    let gate: Option<&Gate> = match &a {
                        Call::Exec { .. } => Some(&sh.ver_gate),
                        Call::Commit { b: blk, .. } => {
                            if held_now >= cap {
                                None // parked on the back-pressure semaphore, guard held
                            } else if !blk.genesis && blk.h == 0 {
                                panic!("unsupported: first call cannot be held in flight")
                            } else {
                                Some(&sh.db_gate)
                            }
                        }
                    };
                    let _open = OpenGates(sh.clone());
                    if let Some(g) = gate {
                        g.arm();
                    }
                    let mut fa = start(&imp, &sh, &a, serial);
                    serial += 1;
                    let ra0 = poll_once(&mut fa).await;
                    assert!(ra0.is_none(), "first call finished before the second started");
                    if let Some(g) = gate {
                        g.wait_reached();
                    }
                    // the second call, while the first holds the guard
                    let keep_fail = sh.fail_commit.load(Ordering::SeqCst);
                    let mut fb = start(&imp, &sh, &b, serial);
                    serial += 1;
                    let rb0 = poll_once(&mut fb).await;
                    sh.fail_commit.store(keep_fail, Ordering::SeqCst);
                    let rb_t = match &rb0 {
                        Some(r) => res_t(r),
                        None => T::l(vec![T::i(-1)]),
                    };
                    drain(&sh);
                    let phase_b = T::l(vec![rb_t, obs.db_t(&sh), take_log(&sh)]);
                    if let Some(g) = gate {
                        g.release();
                    }
                    let ra = fa.await;
                    if rb0.is_none() {
                        let _ = fb.await;
                    }
                    drain(&sh);
                    let phase_a = T::l(vec![res_t(&ra), obs.db_t(&sh), take_log(&sh)]);
                    out.push(T::l(vec![phase_b, phase_a]));
                }
                2 => {
                    sh.held.lock().unwrap().clear();
                    drain(&sh);
                    out.push(T::l(vec![T::l(vec![T::l(vec![]), obs.db_t(&sh), take_log(&sh)])]));
                }
                3 => {
                    let a = parse_call(&o[1]);
                    let bs: Vec<Call> = o[2].as_l().iter().map(parse_call).collect();
                    let buffer_full = sh.held.lock().unwrap().len() >= cap;
                    let wf = Arc::new(WakeFlag::default());
                    let mut phases = vec![];
                    let mut fa = start(&imp, &sh, &a, serial);
                    serial += 1;
                    let keep_fail = sh.fail_commit.load(Ordering::SeqCst);
                    // drive the first call until it returns or is parked on the back-pressure semaphore:
                    // commit_result asks for the permit at once, execute_and_commit after its prepare step
                    // (one answer of the importer thread)
                    let mut ra = None;
                    if matches!(a, Call::Exec { .. }) {
                        // hold the prepare step inside the verifier until the call has been polled, so that the
                        // answer of the importer thread arrives (and wakes the call) strictly after that poll
                        let _open = OpenGates(sh.clone());
                        sh.ver_gate.arm();
                        fa = start(&imp, &sh, &a, serial - 1);
                        match poll_manual(&mut fa, &wf) {
                            std::task::Poll::Ready(r) => {
                                sh.ver_gate.release();
                                ra = Some(r);
                            }
                            std::task::Poll::Pending => {
                                sh.ver_gate.wait_reached();
                                sh.ver_gate.release();
                                assert!(wait_wake(&wf), "no answer to the prepare step");
                                if let std::task::Poll::Ready(r) = poll_manual(&mut fa, &wf) {
                                    ra = Some(r);
                                }
                            }
                        }
                    } else if let std::task::Poll::Ready(r) = poll_manual(&mut fa, &wf) {
                        ra = Some(r);
                    }
                    if ra.is_none() && !buffer_full {
                        ra = Some(drive(&mut fa, &wf));
                    }
                    if let Some(r) = ra {
                        // not parked: the other calls are not made; the subscriber releases afterwards
                        drain(&sh);
                        phases.push(T::l(vec![res_t(&r), obs.db_t(&sh), take_log(&sh)]));
                        sh.held.lock().unwrap().clear();
                        drain(&sh);
                        phases.push(T::l(vec![T::l(vec![]), obs.db_t(&sh), take_log(&sh)]));
                    } else {
                        // parked: the other calls are attempted now
                        let mut in_flight = vec![];
                        for b in &bs {
                            let wfb = Arc::new(WakeFlag::default());
                            let mut fb = start(&imp, &sh, b, serial);
                            serial += 1;
                            let rb = match poll_manual(&mut fb, &wfb) {
                                std::task::Poll::Ready(r) => Some(r),
                                std::task::Poll::Pending => None,
                            };
                            let rb_t = match &rb {
                                Some(r) => res_t(r),
                                None => T::l(vec![T::i(-1)]),
                            };
                            drain(&sh);
                            phases.push(T::l(vec![rb_t, obs.db_t(&sh), take_log(&sh)]));
                            if rb.is_none() {
                                in_flight.push((fb, wfb));
                            }
                        }
                        sh.fail_commit.store(keep_fail, Ordering::SeqCst);
                        // the subscriber releases its results; the parked call proceeds
                        sh.held.lock().unwrap().clear();
                        let r = drive(&mut fa, &wf);
                        drain(&sh);
                        phases.push(T::l(vec![res_t(&r), obs.db_t(&sh), take_log(&sh)]));
                        // calls that were (wrongly) accepted meanwhile are driven to their end as well
                        for (mut fb, wfb) in in_flight {
                            sh.held.lock().unwrap().clear();
                            let r = drive(&mut fb, &wfb);
                            drain(&sh);
                            phases.push(T::l(vec![res_t(&r), obs.db_t(&sh), take_log(&sh)]));
                        }
                    }
                    out.push(T::l(phases));
                }
                k => panic!("bad op {k}"),
            }
        }
        // release everything before the importer is dropped
        sh.held.lock().unwrap().clear();
        *sh.rx.lock().unwrap() = None;
        drop(imp);
        T::l(out)
    });
    out
}

// ---------------------------------------------------------------------------------------------
// generator

struct Shadow {
    cap: usize,
    latest: Option<u32>,
    blocks: Vec<u32>,
    cons: Vec<u32>,
    txs: Vec<u32>,
    held: usize,
    next_tx: u32,
    next_mark: u32,
}

impl Shadow {
    fn call_ok(&self, c: &Call) -> bool {
        let (b, rest) = match c {
            Call::Commit { b, local, mroot, wp_ok, dbc_ok, .. } => (b, *mroot == 0 && (!*local || *wp_ok) && *dbc_ok),
            Call::Exec { b, verify_ok, exec, dbc_ok } => {
                (b, *verify_ok && !b.genesis && matches!(exec, Some((0, _))) && *dbc_ok)
            }
        };
        let height_ok = if b.genesis { self.latest.is_none() } else { self.latest.is_some() && self.latest.unwrap().checked_add(1) == Some(b.h) };
        let mut seen = self.txs.clone();
        let mut fresh = !self.blocks.contains(&b.h) && !self.cons.contains(&b.h);
        for t in &b.txs {
            if seen.contains(t) {
                fresh = false;
            }
            seen.push(*t);
        }
        rest && height_ok && fresh && self.held < self.cap
    }
    /// the call would park on back-pressure: buffer full and (for execute_and_commit) a successful prepare step
    fn parks(&self, c: &Call) -> bool {
        if self.held < self.cap {
            return false;
        }
        match c {
            Call::Commit { .. } => true,
            Call::Exec { b, verify_ok, exec, .. } => {
                let height_ok = !b.genesis && self.latest.is_some() && self.latest.unwrap().checked_add(1) == Some(b.h);
                let mut seen = self.txs.clone();
                let mut fresh = !self.blocks.contains(&b.h) && !self.cons.contains(&b.h);
                for t in &b.txs {
                    if seen.contains(t) {
                        fresh = false;
                    }
                    seen.push(*t);
                }
                *verify_ok && exec.is_some() && height_ok && fresh
            }
        }
    }
    fn apply(&mut self, c: &Call) {
        if self.call_ok(c) {
            let b = match c {
                Call::Commit { b, .. } | Call::Exec { b, .. } => b,
            };
            self.latest = Some(b.h);
            self.blocks.push(b.h);
            self.cons.push(b.h);
            self.txs.extend(b.txs.iter().copied());
            self.held += 1;
        }
    }
}

fn blk_t(b: &Blk) -> T {
    T::l(vec![T::n(b.h), T::i(if b.genesis { 0 } else { 1 }), T::list_n(&b.txs)])
}

fn call_t(c: &Call) -> T {
    match c {
        Call::Commit { b, local, mroot, mark, wp_ok, dbc_ok } => {
            T::l(vec![T::i(0), blk_t(b), T::b(*local), T::n(*mroot), T::n(*mark), T::b(*wp_ok), T::b(*dbc_ok)])
        }
        Call::Exec { b, verify_ok, exec, dbc_ok } => T::l(vec![
            T::i(1),
            blk_t(b),
            T::b(*verify_ok),
            match exec {
                None => T::l(vec![]),
                Some((m, k)) => T::l(vec![T::n(*m), T::n(*k)]),
            },
            T::b(*dbc_ok),
        ]),
    }
}

fn gen_call(rng: &mut Rng, sh: &mut Shadow, first_of_pair: bool) -> Call {
    // the block: mostly the correct next one
    let mut genesis = sh.latest.is_none();
    let next = match sh.latest {
        None => {
            if rng.chance(1, 10) {
                u32::MAX - rng.below(2) as u32
            } else {
                *rng.pick(&[0u32, 0, 0, 1, 5, 113])
            }
        }
        Some(l) => l.wrapping_add(1),
    };
    let mut h = next;
    match rng.below(20) {
        0 => h = sh.latest.unwrap_or(3),                      // duplicate of the tip
        1 => h = next.wrapping_add(1),                        // skipped
        2 => h = sh.latest.unwrap_or(7).saturating_sub(1 + rng.below(3) as u32), // stale
        3 => h = 0,                                           // zero height
        4 => genesis = !genesis,                              // wrong consensus kind
        5 => h = rng.next() as u32,
        _ => {}
    }
    // transactions: fresh ones, sometimes a repeated / already stored one
    let ntx = rng.below(4) as usize;
    let mut txs = vec![];
    for _ in 0..ntx {
        if rng.chance(1, 9) && sh.next_tx > 0 {
            txs.push(rng.below(sh.next_tx.min(TX_UNIVERSE) as u64) as u32);
        } else if rng.chance(1, 14) && !txs.is_empty() {
            let t = *rng.pick(&txs);
            txs.push(t);
        } else if sh.next_tx < TX_UNIVERSE {
            txs.push(sh.next_tx);
            sh.next_tx += 1;
        }
    }
    let b = Blk { h, genesis, txs };
    let mark = sh.next_mark;
    sh.next_mark += 1;
    let mroot = if rng.chance(1, 12) { 1 + rng.below(2) as u32 } else { 0 };
    let dbc_ok = !rng.chance(1, 25);
    // a call that can be held in flight deterministically (see `run`)
    let exec_kind = rng.chance(1, 2) && (!genesis || rng.chance(1, 4)) || (first_of_pair && !b.genesis && b.h == 0);
    if exec_kind {
        Call::Exec {
            b,
            verify_ok: !rng.chance(1, 12),
            exec: if rng.chance(1, 12) { None } else { Some((mroot, mark)) },
            dbc_ok,
        }
    } else {
        Call::Commit { b, local: rng.chance(1, 2), mroot, mark, wp_ok: !rng.chance(1, 10), dbc_ok }
    }
}

pub fn gen(rng: &mut Rng, n: u64, tier: &str) -> Vec<T> {
    let max_len = if tier == "thorough" { 40 } else { 25 };
    let mut cases = vec![];
    for i in 0..n {
        let cap = if i % 3 == 0 { 1 + rng.below(3) as usize } else { 64 };
        let mut pre_cons: Vec<u32> = vec![];
        let mut pre_txs: Vec<u32> = vec![];
        if rng.chance(1, 5) {
            for _ in 0..1 + rng.below(2) {
                pre_cons.push(*rng.pick(&[0u32, 1, 2, 3, 6, 114]));
            }
            pre_cons.sort();
            pre_cons.dedup();
        }
        if rng.chance(1, 5) {
            for _ in 0..1 + rng.below(3) {
                pre_txs.push(rng.below(8) as u32);
            }
            pre_txs.sort();
            pre_txs.dedup();
        }
        let mut sh = Shadow {
            cap,
            latest: None,
            blocks: vec![],
            cons: pre_cons.clone(),
            txs: pre_txs.clone(),
            held: 0,
            next_tx: 0,
            next_mark: 1,
        };
        let len = rng.range(1, max_len);
        let mut ops = vec![];
        for _ in 0..len {
            let k = rng.below(12);
            if sh.held >= sh.cap && rng.chance(1, 2) {
                // the buffer is full: a call parks on back-pressure, others are attempted, then the release
                let a = gen_call(rng, &mut sh, false);
                let nb = 1 + rng.below(3);
                let mut bs = vec![];
                for _ in 0..nb {
                    // same height as the parked call, the next one, or anything
                    let mut b = gen_call(rng, &mut sh, false);
                    let ha = match &a {
                        Call::Commit { b, .. } | Call::Exec { b, .. } => b.h,
                    };
                    match (&mut b, rng.below(3)) {
                        (Call::Commit { b: blk, .. }, 0) | (Call::Exec { b: blk, .. }, 0) => blk.h = ha,
                        (Call::Commit { b: blk, .. }, 1) | (Call::Exec { b: blk, .. }, 1) => blk.h = ha.wrapping_add(1),
                        _ => {}
                    }
                    bs.push(b);
                }
                let parks = sh.parks(&a);
                if parks {
                    sh.held = 0;
                    sh.apply(&a);
                } else {
                    sh.apply(&a);
                    sh.held = 0;
                }
                ops.push(T::l(vec![T::i(3), call_t(&a), T::l(bs.iter().map(call_t).collect())]));
            } else if k == 0 || (sh.held >= sh.cap && rng.chance(1, 2)) {
                sh.held = 0;
                ops.push(T::l(vec![T::i(2)]));
            } else if k == 1 {
                let a = gen_call(rng, &mut sh, true);
                let b = gen_call(rng, &mut sh, false);
                sh.apply(&a);
                ops.push(T::l(vec![T::i(1), call_t(&a), call_t(&b)]));
            } else {
                let c = gen_call(rng, &mut sh, false);
                sh.apply(&c);
                ops.push(T::l(vec![T::i(0), call_t(&c)]));
            }
        }
        cases.push(T::l(vec![T::n(cap as u64), T::list_n(&pre_cons), T::list_n(&pre_txs), T::l(ops)]));
    }
    cases
}
