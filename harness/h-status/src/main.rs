//! Correspondence harness for the transaction-status cluster (C22, C23, C44): drives the
//! real fuel-core-tx-status-manager on generated op sequences and prints canonical observations.
mod c22;
mod c23;
mod c44;
mod st;

use vcommon::{Rng, T};

fn gen(prop: &str, rng: &mut Rng, n: u64, tier: &str) -> Vec<T> {
    match prop {
        "C22" => c22::gen(rng, n, tier),
        "C23" => c23::gen(rng, n, tier),
        "C44" => c44::gen(rng, n, tier),
        p => panic!("unknown property {p}"),
    }
}

fn run(prop: &str, input: &T) -> T {
    match prop {
        "C22" => c22::run(input),
        "C23" => c23::run(input),
        "C44" => c44::run(input),
        p => panic!("unknown property {p}"),
    }
}

fn main() {
    vcommon::main_protocol(gen, run);
}
