//! C23: the status cache of the real `TxStatusManager` (register_status = prune_old_statuses +
//! add_new_status, status lookup) under a paused tokio clock.
//! input  = (ttl_ms ntx (op ...)),  op = (0 tx kind payload) publish | (1 dt_ms) clock advance
//! output = one entry per op: (statuses-of-tx-0..ntx  queue(back..front)  prunable  non-prunable)
use crate::st;
use fuel_core_tx_status_manager::verif_manager::Manager;
use std::time::Duration;
use tokio::time::Instant;
use vcommon::{catch, Rng, T};

fn observe(m: &Manager, base: Instant, ntx: u64) -> T {
    let ms = |i: Instant| T::n(i.duration_since(base).as_millis());
    let statuses: Vec<T> = (0..ntx)
        .map(|tx| st::opt_status_t(m.status(&st::tx_id(tx)).as_ref()))
        .collect();
    let queue: Vec<T> = m
        .pruning_queue()
        .iter()
        .map(|(at, id)| T::l(vec![ms(*at), T::n(st::tx_num(id))]))
        .collect();
    let mut pr = m.prunable();
    pr.sort_by_key(|(id, _, _)| st::tx_num(id));
    let pr: Vec<T> = pr
        .iter()
        .map(|(id, at, s)| {
            let (k, p) = st::decode(s);
            T::l(vec![T::n(st::tx_num(id)), ms(*at), T::n(k), T::n(p)])
        })
        .collect();
    let mut np = m.non_prunable();
    np.sort_by_key(|(id, _)| st::tx_num(id));
    let np: Vec<T> = np
        .iter()
        .map(|(id, s)| {
            let (k, p) = st::decode(s);
            T::l(vec![T::n(st::tx_num(id)), T::n(k), T::n(p)])
        })
        .collect();
    T::l(vec![T::l(statuses), T::l(queue), T::l(pr), T::l(np)])
}

pub fn run(input: &T) -> T {
    let input = input.clone();
    catch(move || {
        let f = input.as_l();
        let ttl = f[0].as_u64();
        let ntx = f[1].as_u64();
        let ops = f[2].as_l().to_vec();
        let rt = tokio::runtime::Builder::new_current_thread()
            .enable_time()
            .start_paused(true)
            .build()
            .unwrap();
        rt.block_on(async move {
            let base = Instant::now();
            let mut m = Manager::new(Duration::from_millis(ttl), 8, Duration::from_secs(3600));
            let mut out = vec![];
            for op in ops {
                let o = op.as_l();
                match o[0].as_i() {
                    0 => m.status_update(st::tx_id(o[1].as_u64()), st::make(o[2].as_u64(), o[3].as_u64())),
                    1 => tokio::time::advance(Duration::from_millis(o[1].as_u64())).await,
                    k => panic!("bad op {k}"),
                }
                out.push(observe(&m, base, ntx));
            }
            T::l(out)
        })
    })
}

fn publish(tx: u64, kind: u64, payload: u64) -> T {
    T::l(vec![T::i(0), T::n(tx), T::n(kind), T::n(payload)])
}

fn advance(dt: u64) -> T {
    T::l(vec![T::i(1), T::n(dt)])
}

fn case(ttl: u64, ntx: u64, ops: Vec<T>) -> T {
    T::l(vec![T::n(ttl), T::n(ntx), T::l(ops)])
}

pub fn gen(rng: &mut Rng, n: u64, tier: &str) -> Vec<T> {
    let thorough = tier == "thorough";
    let mut cases = vec![];
    // bounded-exhaustive: ttl 2, two transactions, alphabet of 6 ops, every sequence up to length 4 (5)
    let alphabet = |i: u64| -> Vec<T> {
        vec![publish(0, 0, i), publish(0, 1, i), publish(1, 2, i), publish(0, 5, i), advance(1), advance(2)]
    };
    let maxlen = if thorough { 5 } else { 4 };
    for len in 1..=maxlen {
        let mut idx = vec![0usize; len];
        loop {
            let ops: Vec<T> = idx.iter().enumerate().map(|(i, a)| alphabet(i as u64 + 1)[*a].clone()).collect();
            cases.push(case(2, 2, ops));
            let mut k = 0;
            while k < len {
                idx[k] += 1;
                if idx[k] < 6 {
                    break;
                }
                idx[k] = 0;
                k += 1;
            }
            if k == len {
                break;
            }
        }
    }
    // random histories: several transactions, clock advances around the ttl boundary
    for _ in 0..n {
        let ttl = *rng.pick(&[0u64, 1, 3, 5, 10, 1000]);
        let ntx = rng.range(1, 4);
        let len = rng.range(2, if thorough { 40 } else { 16 });
        let mut ops = vec![];
        for i in 0..len {
            if rng.chance(2, 5) {
                let dt = match rng.below(8) {
                    0 => 0,
                    1 => 1,
                    2 => ttl.saturating_sub(1),
                    3 => ttl,
                    4 => ttl + 1,
                    5 => ttl / 2,
                    6 => ttl - ttl / 2,
                    _ => rng.range(0, 2 * ttl + 2),
                };
                ops.push(advance(dt));
            } else {
                let kind = if rng.chance(1, 3) { 0 } else { rng.below(st::KINDS) };
                ops.push(publish(rng.below(ntx), kind, i + 1));
            }
        }
        cases.push(case(ttl, ntx, ops));
    }
    cases
}
