//! C22: status subscriptions of the real `TxStatusManager` / `UpdateSender` (bounded tokio mpsc
//! channel per subscriber) on a current-thread runtime with a paused clock.
//! input  = (cap ttl_ms (op ...))
//!   op = (0 tx kind payload) publish | (1 tx) subscribe | (2 id) poll the stream of subscriber id once
//!      | (3 id) drop the stream of subscriber id | (4 dt_ms) clock advance
//! output = one entry per op: () | (4 id) subscribed | (5) no permit
//!          | (0 msg) read a message | (1) pending | (2) end of stream | (3) no such live stream
//!   msg = (kind payload) | (7) FailedStatus
use crate::st;
use fuel_core_tx_status_manager::{verif_manager::Manager, TxStatusMessage, TxStatusStream};
use futures::task::noop_waker;
use std::{
    task::{Context, Poll},
    time::Duration,
};
use vcommon::{catch, Rng, T};

fn msg_t(m: &TxStatusMessage) -> T {
    match m {
        TxStatusMessage::Status(s) => st::status_t(s),
        TxStatusMessage::FailedStatus => T::l(vec![T::i(7)]),
    }
}

fn poll_once(s: &mut TxStatusStream) -> T {
    let waker = noop_waker();
    let mut cx = Context::from_waker(&waker);
    match s.as_mut().poll_next(&mut cx) {
        Poll::Ready(Some(m)) => T::l(vec![T::i(0), msg_t(&m)]),
        Poll::Pending => T::l(vec![T::i(1)]),
        Poll::Ready(None) => T::l(vec![T::i(2)]),
    }
}

pub fn run(input: &T) -> T {
    let input = input.clone();
    catch(move || {
        let f = input.as_l();
        let cap = f[0].as_usize();
        let ttl = f[1].as_u64();
        let ops = f[2].as_l().to_vec();
        let rt = tokio::runtime::Builder::new_current_thread()
            .enable_time()
            .start_paused(true)
            .build()
            .unwrap();
        rt.block_on(tokio::task::unconstrained(async move {
            let mut m = Manager::new(Duration::from_secs(1_000_000), cap, Duration::from_millis(ttl));
            let mut streams: Vec<Option<TxStatusStream>> = vec![];
            let mut out = vec![];
            for op in ops {
                let o = op.as_l();
                let r = match o[0].as_i() {
                    0 => {
                        m.status_update(st::tx_id(o[1].as_u64()), st::make(o[2].as_u64(), o[3].as_u64()));
                        T::l(vec![])
                    }
                    1 => match m.subscribe(st::tx_id(o[1].as_u64())) {
                        Some(s) => {
                            streams.push(Some(s));
                            T::l(vec![T::i(4), T::n(streams.len() as u64 - 1)])
                        }
                        None => T::l(vec![T::i(5)]),
                    },
                    2 => match streams.get_mut(o[1].as_usize()) {
                        Some(Some(s)) => poll_once(s),
                        _ => T::l(vec![T::i(3)]),
                    },
                    3 => {
                        if let Some(s) = streams.get_mut(o[1].as_usize()) {
                            *s = None;
                        }
                        T::l(vec![])
                    }
                    4 => {
                        tokio::time::advance(Duration::from_millis(o[1].as_u64())).await;
                        T::l(vec![])
                    }
                    k => panic!("bad op {k}"),
                };
                out.push(r);
            }
            T::l(out)
        }))
    })
}

fn publish(tx: u64, kind: u64, payload: u64) -> T {
    T::l(vec![T::i(0), T::n(tx), T::n(kind), T::n(payload)])
}
fn subscribe(tx: u64) -> T {
    T::l(vec![T::i(1), T::n(tx)])
}
fn read(id: u64) -> T {
    T::l(vec![T::i(2), T::n(id)])
}
fn drop_(id: u64) -> T {
    T::l(vec![T::i(3), T::n(id)])
}
fn advance(dt: u64) -> T {
    T::l(vec![T::i(4), T::n(dt)])
}
fn case(cap: u64, ttl: u64, ops: Vec<T>) -> T {
    T::l(vec![T::n(cap), T::n(ttl), T::l(ops)])
}

fn kind(rng: &mut Rng) -> u64 {
    match rng.below(10) {
        0..=3 => 0,
        4 | 5 => 2,
        6 => 6,
        7 => 1,
        8 => *rng.pick(&[3u64, 4]),
        _ => 5,
    }
}

pub fn gen(rng: &mut Rng, n: u64, tier: &str) -> Vec<T> {
    let thorough = tier == "thorough";
    let mut cases = vec![];
    // bounded-exhaustive over one subscriber slot and one transaction
    let alphabet = |i: u64| -> Vec<T> {
        vec![subscribe(0), publish(0, 0, i), publish(0, 2, i), publish(0, 1, i), read(0), drop_(0)]
    };
    let maxlen = if thorough { 6 } else { 5 };
    for len in 1..=maxlen {
        let mut idx = vec![0usize; len];
        loop {
            let ops: Vec<T> = idx.iter().enumerate().map(|(i, a)| alphabet(i as u64 + 1)[*a].clone()).collect();
            cases.push(case(2, 1000, ops));
            let mut k = 0;
            while k < len {
                idx[k] += 1;
                if idx[k] < 6 {
                    break;
                }
                idx[k] = 0;
                k += 1;
            }
            if k == len {
                break;
            }
        }
    }
    // channel capacity boundary: p publications without reading, then r reads (with/without a final one)
    for p in 0..=6u64 {
        for fin_at in 0..=p {
            let mut ops = vec![subscribe(0)];
            for i in 1..=p {
                ops.push(publish(0, if i == fin_at { 1 } else if i % 2 == 0 { 2 } else { 0 }, i));
            }
            for _ in 0..=p + 1 {
                ops.push(read(0));
            }
            cases.push(case(3, 1000, ops));
        }
    }
    // overflow, then room again: the FailedStatus marker is delivered
    for p in 4..=6u64 {
        for r in 1..=3u64 {
            let mut ops = vec![subscribe(0)];
            for i in 1..=p {
                ops.push(publish(0, if i % 2 == 0 { 2 } else { 0 }, i));
            }
            for _ in 0..r {
                ops.push(read(0));
            }
            ops.push(publish(0, 1, p + 1));
            ops.push(publish(0, 0, p + 2));
            for _ in 0..6 {
                ops.push(read(0));
            }
            cases.push(case(3, 1000, ops));
        }
    }
    // random interleavings
    for c in 0..n {
        let cap = rng.range(1, 3);
        let ttl = *rng.pick(&[3u64, 10, 1_000_000]);
        let ntx = rng.range(1, 2);
        let len = rng.range(3, if thorough { 60 } else { 24 });
        let drainer = c % 3 == 0; // subscriber 0 polls until pending after every publication
        let mut ops = vec![];
        let mut subs: u64 = 0;
        if drainer {
            ops.push(subscribe(0));
            subs = 1;
        }
        for i in 0..len {
            let payload = i + 1;
            match rng.below(12) {
                0 | 1 => {
                    ops.push(subscribe(rng.below(ntx)));
                    subs += 1; // may be refused: ids beyond the real ones read as (3)
                }
                2..=5 => {
                    let tx = if drainer && rng.chance(2, 3) { 0 } else { rng.below(ntx) };
                    ops.push(publish(tx, kind(rng), payload));
                    if drainer {
                        for _ in 0..rng.range(2, 3) {
                            ops.push(read(0));
                        }
                    }
                }
                6..=8 => ops.push(read(rng.below(subs + 1))),
                9 => {
                    if !drainer || rng.chance(1, 6) {
                        ops.push(drop_(rng.below(subs + 1)))
                    } else {
                        ops.push(read(rng.below(subs + 1)))
                    }
                }
                _ => {
                    let dt = match rng.below(5) {
                        0 => 0,
                        1 => 1,
                        2 => ttl - 1,
                        3 => ttl,
                        _ => rng.range(0, 4),
                    };
                    ops.push(advance(if ttl > 1000 { dt % 7 } else { dt }));
                }
            }
        }
        for id in 0..subs.min(4) {
            for _ in 0..4 {
                ops.push(read(id));
            }
        }
        cases.push(case(cap, ttl, ops));
    }
    cases
}
