//! C44: the real `Task::new_preconfirmations_from_p2p` path (delegations signed with real secp256k1
//! protocol keys, preconfirmation batches signed with real ed25519 delegate keys).
//! `Tai64::now()` reads the wall clock; this binary interposes libc's `clock_gettime` so that
//! CLOCK_REALTIME can be set by the op sequence (all other clocks pass through to the kernel).
//! input = ((op ...))
//!   op = (0 exp key sig_ok (signer class))             delegation of delegate key `key` for `exp`, signed by
//!                                                      protocol key `signer`
//!      | (1 exp ((tx variant payload)...) (ok_keys...) (signer class))    batch signed by delegate key `signer`
//!   signature class: 0 = valid signature of `signer`; 1 = valid signature over OTHER content;
//!      2 = all-zero signature bytes; >= 3 = pseudo-random signature bytes derived from the class number
//!      (for delegations only those for which secp256k1 recovery FAILS are generated: "unrecoverable")
//!      | (2 t)  wall clock := t (unix seconds)   | (3 k)  current protocol key := k
//!   sig_ok / ok_keys are the results of the real signature checks (computed by `gen`, recomputed by `run`)
//! output = per op: (oracle report ((tx kind payload)...) ((exp key)...))
use crate::st;
use fuel_core_tx_status_manager::{
    config::Config,
    ports::{P2PPreConfirmationGossipData, P2PPreConfirmationMessage, P2PSubscriptions},
    service::{verif_hooks::TaskDriver, ProtocolPublicKey},
};
use fuel_core_types::{
    ed25519::Signature as EdSignature,
    ed25519_dalek::{Signer, SigningKey, Verifier, VerifyingKey},
    fuel_crypto::{Message, SecretKey, Signature},
    fuel_tx::{Address, Bytes64, Input},
    services::{
        p2p::{
            DelegatePreConfirmationKey, GossipsubMessageAcceptance, GossipsubMessageInfo, PeerId, Sealed,
        },
        preconfirmation::{Preconfirmation, PreconfirmationStatus, Preconfirmations, SqueezedOut},
    },
    tai64::Tai64,
};
use std::{
    sync::{
        atomic::{AtomicI64, AtomicUsize, Ordering},
        Arc, Mutex,
    },
    time::Duration,
};
use vcommon::{catch, Rng, T};

// ---------------------------------------------------------------------------------------------
// wall clock control
static FAKE_REALTIME: AtomicI64 = AtomicI64::new(-1);

/// Interposes libc's symbol: CLOCK_REALTIME is answered from `FAKE_REALTIME` when set.
#[no_mangle]
pub unsafe extern "C" fn clock_gettime(clk: libc::clockid_t, ts: *mut libc::timespec) -> libc::c_int {
    if clk == libc::CLOCK_REALTIME {
        let f = FAKE_REALTIME.load(Ordering::SeqCst);
        if f >= 0 {
            (*ts).tv_sec = f as libc::time_t;
            (*ts).tv_nsec = 0;
            return 0;
        }
    }
    libc::syscall(libc::SYS_clock_gettime, clk, ts) as libc::c_int
}

fn set_clock(t: u64) {
    FAKE_REALTIME.store(t as i64, Ordering::SeqCst);
    assert_eq!(Tai64::now(), Tai64::from_unix(t as i64), "wall clock interposition is not effective");
}

// ---------------------------------------------------------------------------------------------
const NPROTO: usize = 2;
const NDELEG: usize = 3;

fn proto_key(i: usize) -> SecretKey {
    let mut b = [0u8; 32];
    b[31] = 1 + i as u8;
    b[0] = 0x11;
    SecretKey::try_from(&b[..]).unwrap()
}

fn proto_address(i: usize) -> Address {
    Input::owner(&proto_key(i).public_key())
}

fn deleg_key(i: usize) -> SigningKey {
    SigningKey::from_bytes(&[40 + i as u8; 32])
}

fn deleg_index(k: &VerifyingKey) -> u64 {
    (0..NDELEG).find(|i| deleg_key(*i).verifying_key() == *k).map(|i| i as u64).unwrap_or(99)
}

struct Proto(Arc<AtomicUsize>);
impl ProtocolPublicKey for Proto {
    fn latest_address(&self) -> Address {
        proto_address(self.0.load(Ordering::SeqCst))
    }
}

type Reports = Arc<Mutex<Vec<(Vec<u8>, GossipsubMessageAcceptance)>>>;
struct P2P(Reports);
impl P2PSubscriptions for P2P {
    type GossipedStatuses = P2PPreConfirmationGossipData;
    fn gossiped_tx_statuses(&self) -> fuel_core_services_stream::BoxStream<Self::GossipedStatuses> {
        Box::pin(futures::stream::pending())
    }
    fn notify_gossip_transaction_validity(
        &self,
        message_info: GossipsubMessageInfo,
        validity: GossipsubMessageAcceptance,
    ) -> anyhow_result::Result<()> {
        self.0.lock().unwrap().push((message_info.message_id, validity));
        Ok(())
    }
}

mod fuel_core_services_stream {
    pub type BoxStream<T> = core::pin::Pin<Box<dyn futures::Stream<Item = T> + Send + Sync + 'static>>;
}
mod anyhow_result {
    pub type Result<T> = core::result::Result<T, anyhow::Error>;
}

/// Signature bytes of the malformed classes: 2 = all zero, >= 3 = pseudo-random from the class number.
fn junk_bytes(class: u64) -> [u8; 64] {
    let mut b = [0u8; 64];
    if class >= 3 {
        let mut r = Rng::new(0xC44_0000 + class);
        for chunk in b.chunks_mut(8) {
            chunk.copy_from_slice(&r.next().to_le_bytes());
        }
    }
    b
}

/// Does secp256k1 recovery fail for these signature bytes (for any message we use)?
fn unrecoverable(class: u64) -> bool {
    let sig = Signature::from_bytes(junk_bytes(class));
    let entity = DelegatePreConfirmationKey {
        public_key: deleg_key(0).verifying_key(),
        expiration: Tai64::from_unix(20),
    };
    sig.recover(&Message::new(postcard::to_allocvec(&entity).unwrap())).is_err()
}

/// The sealed delegation and the result of the real check against `current`.
fn delegation(
    exp: u64,
    key: usize,
    signer: usize,
    class: u64,
    current: usize,
) -> (P2PPreConfirmationMessage, bool) {
    let entity = DelegatePreConfirmationKey {
        public_key: deleg_key(key).verifying_key(),
        expiration: Tai64::from_unix(exp as i64),
    };
    let signed = DelegatePreConfirmationKey {
        public_key: entity.public_key,
        expiration: Tai64::from_unix(exp as i64 + if class == 1 { 1 } else { 0 }),
    };
    let signature = if class >= 2 {
        Signature::from_bytes(junk_bytes(class))
    } else {
        Signature::sign(
            &proto_key(signer),
            &Message::new(postcard::to_allocvec(&signed).unwrap()),
        )
    };
    let ok = signature
        .recover(&Message::new(postcard::to_allocvec(&entity).unwrap()))
        .is_ok_and(|pk| Input::owner(&pk) == proto_address(current));
    (P2PPreConfirmationMessage::Delegate { seal: Sealed { entity, signature }, nonce: 0 }, ok)
}

fn preconf_entry(tx: u64, variant: u64, payload: u64) -> Preconfirmation {
    let status = match variant {
        0 => PreconfirmationStatus::Success {
            tx_pointer: Default::default(),
            total_gas: payload,
            total_fee: 0,
            receipts: Default::default(),
            outputs: vec![],
        },
        1 => PreconfirmationStatus::Failure {
            tx_pointer: Default::default(),
            total_gas: payload,
            total_fee: 0,
            receipts: Default::default(),
            outputs: vec![],
        },
        _ => PreconfirmationStatus::SqueezedOut(SqueezedOut::new(payload.to_string(), st::tx_id(tx))),
    };
    Preconfirmation { tx_id: st::tx_id(tx), status }
}

/// The sealed batch and the delegate keys under which the real ed25519 check accepts it.
fn batch(exp: u64, entries: &[(u64, u64, u64)], signer: usize, class: u64) -> (P2PPreConfirmationMessage, Vec<u64>) {
    let preconfirmations: Vec<Preconfirmation> =
        entries.iter().map(|(tx, v, p)| preconf_entry(*tx, *v, *p)).collect();
    let entity = Preconfirmations { expiration: Tai64::from_unix(exp as i64), preconfirmations: preconfirmations.clone() };
    let signed = Preconfirmations {
        expiration: Tai64::from_unix(exp as i64 + if class == 1 { 1 } else { 0 }),
        preconfirmations,
    };
    let signature = if class >= 2 {
        Bytes64::new(junk_bytes(class))
    } else {
        Bytes64::new(deleg_key(signer).sign(&postcard::to_allocvec(&signed).unwrap()).to_bytes())
    };
    let bytes = postcard::to_allocvec(&entity).unwrap();
    let ok_keys = (0..NDELEG)
        .filter(|k| {
            deleg_key(*k)
                .verifying_key()
                .verify(&bytes, &EdSignature::from_bytes(&signature))
                .is_ok()
        })
        .map(|k| k as u64)
        .collect();
    (P2PPreConfirmationMessage::Preconfirmations(Sealed { entity, signature }), ok_keys)
}

fn entries_of(t: &T) -> Vec<(u64, u64, u64)> {
    t.as_l()
        .iter()
        .map(|e| {
            let e = e.as_l();
            (e[0].as_u64(), e[1].as_u64(), e[2].as_u64())
        })
        .collect()
}

pub fn run(input: &T) -> T {
    let input = input.clone();
    catch(move || {
        let ops = input.as_l()[0].as_l().to_vec();
        set_clock(0);
        let rt = tokio::runtime::Builder::new_current_thread().enable_time().build().unwrap();
        let out = rt.block_on(async move {
            let current = Arc::new(AtomicUsize::new(0));
            let reports: Reports = Default::default();
            let config = Config {
                max_tx_update_subscriptions: 64,
                subscription_ttl: Duration::from_secs(1_000_000),
                status_cache_ttl: Duration::from_secs(1_000_000),
                metrics: false,
            };
            let mut driver = TaskDriver::new(P2P(reports.clone()), config, Proto(current.clone()));
            let mut out = vec![];
            for (i, op) in ops.iter().enumerate() {
                let o = op.as_l();
                let message_id = vec![i as u8, 0xEE];
                let mut oracle = T::l(vec![]);
                match o[0].as_i() {
                    0 => {
                        let aux = o[4].as_l();
                        let (msg, ok) = delegation(
                            o[1].as_u64(),
                            o[2].as_usize(),
                            aux[0].as_usize(),
                            aux[1].as_u64(),
                            current.load(Ordering::SeqCst),
                        );
                        oracle = T::l(vec![T::b(ok)]);
                        driver.new_preconfirmations_from_p2p(msg, message_id.clone(), PeerId::from(vec![7u8]));
                    }
                    1 => {
                        let aux = o[4].as_l();
                        let (msg, ok_keys) =
                            batch(o[1].as_u64(), &entries_of(&o[2]), aux[0].as_usize(), aux[1].as_u64());
                        oracle = T::list_n(&ok_keys);
                        driver.new_preconfirmations_from_p2p(msg, message_id.clone(), PeerId::from(vec![7u8]));
                    }
                    2 => set_clock(o[1].as_u64()),
                    3 => current.store(o[1].as_usize() % NPROTO, Ordering::SeqCst),
                    k => panic!("bad op {k}"),
                }
                let report: Vec<T> = reports
                    .lock()
                    .unwrap()
                    .drain(..)
                    .map(|(id, v)| {
                        if id != message_id {
                            T::i(3)
                        } else {
                            match v {
                                GossipsubMessageAcceptance::Accept => T::i(1),
                                GossipsubMessageAcceptance::Reject => T::i(0),
                                GossipsubMessageAcceptance::Ignore => T::i(2),
                            }
                        }
                    })
                    .collect();
                let drained = driver.drain_status_updates();
                for (id, _) in &drained {
                    // the manager must now answer with the last status published for this transaction
                    let last = drained.iter().rev().find(|(i, _)| i == id).map(|(_, s)| st::decode(s));
                    let held = driver.status(id).map(|h| st::decode(&h));
                    assert_eq!(held, last, "status update not visible in the manager");
                }
                let updates: Vec<T> = drained
                    .iter()
                    .map(|(id, s)| {
                        let (k, p) = st::decode(s);
                        T::l(vec![T::n(st::tx_num(id)), T::n(k), T::n(p)])
                    })
                    .collect();
                let mut keys: Vec<(u64, u64)> = driver
                    .delegate_keys()
                    .iter()
                    .map(|(exp, k)| (exp.to_unix() as u64, deleg_index(k)))
                    .collect();
                keys.sort();
                let keys: Vec<T> = keys.iter().map(|(e, k)| T::l(vec![T::n(*e), T::n(*k)])).collect();
                out.push(T::l(vec![oracle, T::l(report), T::l(updates), T::l(keys)]));
            }
            T::l(out)
        });
        FAKE_REALTIME.store(-1, Ordering::SeqCst);
        out
    })
}

// ---------------------------------------------------------------------------------------------
fn op_delegate(exp: u64, key: usize, signer: usize, class: u64, current: usize) -> T {
    let (_, ok) = delegation(exp, key, signer, class, current);
    T::l(vec![T::i(0), T::n(exp), T::n(key as u64), T::b(ok), T::l(vec![T::n(signer as u64), T::n(class)])])
}

fn op_batch(exp: u64, entries: &[(u64, u64, u64)], signer: usize, class: u64) -> T {
    let (_, ok_keys) = batch(exp, entries, signer, class);
    T::l(vec![
        T::i(1),
        T::n(exp),
        T::l(entries.iter().map(|(a, b, c)| T::l(vec![T::n(*a), T::n(*b), T::n(*c)])).collect()),
        T::list_n(&ok_keys),
        T::l(vec![T::n(signer as u64), T::n(class)]),
    ])
}

fn op_clock(t: u64) -> T {
    T::l(vec![T::i(2), T::n(t)])
}

fn op_rotate(k: usize) -> T {
    T::l(vec![T::i(3), T::n(k as u64)])
}

pub fn gen(rng: &mut Rng, n: u64, tier: &str) -> Vec<T> {
    let thorough = tier == "thorough";
    let mut cases = vec![];
    // bounded-exhaustive around expiration 20 (protocol key 0 current throughout)
    let alphabet = |i: u64| -> Vec<T> {
        vec![
            op_clock(19),
            op_clock(20),
            op_clock(21),
            op_delegate(20, 0, 0, 0, 0),
            op_delegate(20, 1, 0, 0, 0),
            op_delegate(30, 2, 1, 0, 0), // signed by a key that is not the current protocol key
            op_batch(20, &[(0, 0, i)], 0, 0),
            op_batch(20, &[(1, 1, i)], 1, 0),
        ]
    };
    let maxlen = if thorough { 5 } else { 4 };
    for len in 1..=maxlen {
        let mut idx = vec![0usize; len];
        loop {
            let ops: Vec<T> = idx.iter().enumerate().map(|(i, a)| alphabet(i as u64 + 1)[*a].clone()).collect();
            cases.push(T::l(vec![T::l(ops)]));
            let mut k = 0;
            while k < len {
                idx[k] += 1;
                if idx[k] < 8 {
                    break;
                }
                idx[k] = 0;
                k += 1;
            }
            if k == len {
                break;
            }
        }
    }
    // malformed signatures: unrecoverable protocol signature on a delegation (all-zero bytes, random bytes
    // for which recovery fails), then a correctly signed batch of that delegate; and batches whose delegate
    // signature is all-zero / random bytes under a valid delegation
    let junk: Vec<u64> = std::iter::once(2u64).chain((3u64..400).filter(|c| unrecoverable(*c)).take(5)).collect();
    for (n, class) in junk.iter().enumerate() {
        assert!(unrecoverable(*class));
        let p = 1000 + 10 * n as u64;
        for clock in [19u64, 20] {
            for key in 0..NDELEG {
                cases.push(T::l(vec![T::l(vec![
                    op_clock(clock),
                    op_delegate(20, key, 0, *class, 0),
                    op_batch(20, &[(0, 0, p)], key, 0),
                ])]));
            }
        }
        cases.push(T::l(vec![T::l(vec![
            op_clock(10),
            op_delegate(20, 0, 0, 0, 0),
            op_delegate(20, 1, 0, *class, 0), // must not overwrite key 0
            op_batch(20, &[(1, 0, p + 1)], 1, 0),
            op_batch(20, &[(1, 0, p + 2)], 0, 0),
        ])]));
    }
    for class in [2u64, 3, 4, 5] {
        cases.push(T::l(vec![T::l(vec![
            op_clock(10),
            op_delegate(20, 0, 0, 0, 0),
            op_batch(20, &[(2, 0, 2000 + class)], 0, class),
            op_batch(20, &[(2, 1, 2100 + class)], 0, 0),
        ])]));
    }
    // random histories
    const EXPS: [u64; 3] = [10, 20, 30];
    const CLOCKS: [u64; 12] = [0, 5, 9, 10, 11, 19, 20, 21, 29, 30, 31, 40];
    for _ in 0..n {
        let len = rng.range(2, if thorough { 30 } else { 14 });
        let mut ops = vec![];
        let mut current = 0usize;
        let mut clock_i = 0usize;
        for i in 0..len {
            match rng.below(20) {
                0..=6 => {
                    let signer = if rng.chance(5, 6) { current } else { rng.below(NPROTO as u64) as usize };
                    let class = match rng.below(20) {
                        0 | 1 => 1,
                        2 | 3 => *rng.pick(&junk),
                        _ => 0,
                    };
                    ops.push(op_delegate(*rng.pick(&EXPS), rng.below(NDELEG as u64) as usize, signer, class, current));
                }
                7..=13 => {
                    let cnt = rng.range(1, 3);
                    let entries: Vec<(u64, u64, u64)> =
                        (0..cnt).map(|j| (rng.below(4), rng.below(3), 10 * (i + 1) + j)).collect();
                    let class = match rng.below(20) {
                        0 | 1 => 1,
                        2 => rng.range(2, 9),
                        _ => 0,
                    };
                    ops.push(op_batch(*rng.pick(&EXPS), &entries, rng.below(NDELEG as u64) as usize, class));
                }
                14..=17 => {
                    // mostly forwards, sometimes back
                    if rng.chance(5, 6) {
                        clock_i = (clock_i + rng.range(1, 3) as usize).min(CLOCKS.len() - 1);
                    } else {
                        clock_i = rng.below(CLOCKS.len() as u64) as usize;
                    }
                    ops.push(op_clock(CLOCKS[clock_i]));
                }
                _ => {
                    current = rng.below(NPROTO as u64) as usize;
                    ops.push(op_rotate(current));
                }
            }
        }
        cases.push(T::l(vec![T::l(ops)]));
    }
    cases
}
