//! Encoding of `TransactionStatus` as (kind, payload): kind = index of the variant in
//! declaration order, payload = a number carried in a field of the status so that every
//! publication is distinguishable.
use fuel_core_types::{
    fuel_tx::TxId,
    services::transaction_status::{statuses, TransactionStatus},
    tai64::Tai64,
};
use std::sync::Arc;
use vcommon::T;

pub const KINDS: u64 = 7;

pub fn tx_id(n: u64) -> TxId {
    let mut b = [0u8; 32];
    b[..8].copy_from_slice(&n.to_be_bytes());
    b[31] = 0xA5;
    TxId::from(b)
}

pub fn tx_num(id: &TxId) -> u64 {
    let mut b = [0u8; 8];
    b.copy_from_slice(&id[..8]);
    u64::from_be_bytes(b)
}

pub fn make(kind: u64, payload: u64) -> TransactionStatus {
    match kind {
        0 => TransactionStatus::Submitted(Arc::new(statuses::Submitted { timestamp: Tai64(payload) })),
        1 => TransactionStatus::Success(Arc::new(statuses::Success { total_gas: payload, ..Default::default() })),
        2 => TransactionStatus::PreConfirmationSuccess(Arc::new(statuses::PreConfirmationSuccess {
            total_gas: payload,
            ..Default::default()
        })),
        3 => TransactionStatus::SqueezedOut(Arc::new(statuses::SqueezedOut::new(payload.to_string(), TxId::zeroed()))),
        4 => TransactionStatus::PreConfirmationSqueezedOut(Arc::new(statuses::PreConfirmationSqueezedOut {
            reason: payload.to_string(),
        })),
        5 => TransactionStatus::Failure(Arc::new(statuses::Failure { total_gas: payload, ..Default::default() })),
        6 => TransactionStatus::PreConfirmationFailure(Arc::new(statuses::PreConfirmationFailure {
            total_gas: payload,
            ..Default::default()
        })),
        k => panic!("bad status kind {k}"),
    }
}

pub fn decode(s: &TransactionStatus) -> (u64, u64) {
    match s {
        TransactionStatus::Submitted(x) => (0, x.timestamp.0),
        TransactionStatus::Success(x) => (1, x.total_gas),
        TransactionStatus::PreConfirmationSuccess(x) => (2, x.total_gas),
        TransactionStatus::SqueezedOut(x) => (3, x.reason().split(' ').next().unwrap().parse().unwrap()),
        TransactionStatus::PreConfirmationSqueezedOut(x) => (4, x.reason.split(' ').next().unwrap().parse().unwrap()),
        TransactionStatus::Failure(x) => (5, x.total_gas),
        TransactionStatus::PreConfirmationFailure(x) => (6, x.total_gas),
    }
}

pub fn status_t(s: &TransactionStatus) -> T {
    let (k, p) = decode(s);
    T::l(vec![T::n(k), T::n(p)])
}

pub fn opt_status_t(s: Option<&TransactionStatus>) -> T {
    match s {
        None => T::l(vec![]),
        Some(s) => status_t(s),
    }
}
