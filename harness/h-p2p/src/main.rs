//! Correspondence harness for the P2P cluster (C31): drives the real
//! `fuel_core_p2p::peer_manager::PeerManager` with connect / identify / disconnect / score
//! sequences and prints, after every event, the return value, the `Punisher::ban_peer`
//! calls, `ConnectionTracker::allow_peer` for a fresh non-reserved and for every reserved
//! peer (hook `config::verif_hooks`), and both peer tables.
mod c31;
mod c32;

use vcommon::{Rng, T};

fn gen(prop: &str, rng: &mut Rng, n: u64, tier: &str) -> Vec<T> {
    match prop {
        "C31" => c31::gen(rng, n, tier),
        "C32" => c32::gen(rng, n, tier),
        p => panic!("unknown property {p}"),
    }
}

fn run(prop: &str, input: &T) -> T {
    match prop {
        "C31" => c31::run(input),
        "C32" => c32::run(input),
        p => panic!("unknown property {p}"),
    }
}

fn main() {
    vcommon::main_protocol(gen, run);
}
