//! C32: what peers are served (CachedView), the request codec at byte level, and the
//! response conversion V1 <-> V2 with the size cap.
//!
//! Three kinds of case, selected by the first field of the input:
//!
//! `(0 capacity chain_len db_mode ops)`  the real `CachedView` (hook `cached_view_hooks`) over a
//!   scripted `P2pDb` holding heights `0..chain_len`; `db_mode` 0 = ranges are answered
//!   all-or-nothing, 1 = the available prefix of the range is returned.  Items are identified by
//!   a value code: the database's item at height h has code h+1, a poisoned cache entry 100+tag.
//!   Ops: `(0 table a b)` request the range a..b (table 0 = headers, 1 = transactions),
//!   `(1 table h tag)` put a wrong entry into the cache, `(2 table h)` put the database's entry
//!   into the cache.  The cache's eviction is an oracle: every observation carries the cache
//!   content (peeked) before and after the op.
//!   Observation per op: `(before after result db_calls)`; `before`/`after` = `((h code) ...)`
//!   over heights `0..UNIVERSE`, `result` = `(-1)` for non-requests, `(0)` for None,
//!   `(1 (code ...))` for Some, `db_calls` = `((a b) ...)`.
//!
//! `(1 msg max_size)`  `msg` = `(0 a b)` SealedHeaders, `(1 a b)` Transactions, `(2)`
//!   TxPoolAllTransactionsIds, `(3 ((32 bytes) ...))` TxPoolFullTransactions.
//!   Observation `(bytes roundtrip prefixes_rejected via_handler)`: the postcard bytes written by
//!   `write_request`, whether decoding them gives the message back, whether every strict
//!   prefix is rejected, and `read_request` under `max_size` (1 = the message, 0 = error).
//!
//! `(2 variant ok n code protocol max_size)`  a V2 response of `variant` 0..3 that is `Ok` with n
//!   default items (ok = 1) or `Err(code)` (codes 0..3, 4 = Unknown), written with
//!   `write_response` under `protocol` (1 / 2) and read back with `read_response` under
//!   `max_size`.  Observation `(encoded_len result)`, `encoded_len` -1 when writing failed,
//!   `result` = `(0)` error, `(1 variant 1 n)` / `(1 variant 0 code)`.
use fuel_core_p2p::{
    cached_view_hooks::VerifCachedView,
    codecs::{postcard::PostcardCodec, request_response::RequestResponseMessageHandler, Decode},
    ports::P2pDb,
    request_response::{
        messages::{RequestMessage, ResponseMessageErrorCode, V2ResponseMessage},
        protocols::RequestResponseProtocol,
    },
};
use fuel_core_storage::Result as StorageResult;
use fuel_core_types::{
    blockchain::{consensus::Genesis, primitives::DaBlockHeight, SealedBlockHeader},
    fuel_tx::{Transaction, TxId},
    services::p2p::Transactions,
};
use futures::executor::block_on;
use libp2p::request_response::Codec;
use std::num::NonZeroU32;
use std::ops::Range;
use std::sync::Mutex;
use vcommon::{catch, Rng, T};

pub const UNIVERSE: u32 = 12;

// ---------------------------------------------------------------------------------------
// kind 0: CachedView

fn header_with(height: u32, code: u64) -> SealedBlockHeader {
    let mut h = SealedBlockHeader::default();
    h.entity.set_block_height(height.into());
    h.entity.set_da_height(DaBlockHeight(code));
    h
}
fn header_code(h: &SealedBlockHeader) -> u64 {
    h.entity.da_height().0
}
fn txs_with(code: u64) -> Transactions {
    Transactions(vec![Transaction::default_test_tx(); code as usize])
}
fn txs_code(t: &Transactions) -> u64 {
    t.0.len() as u64
}

struct ScriptDb {
    chain_len: u32,
    partial: bool,
    calls: Mutex<Vec<(u32, u32)>>,
}

impl ScriptDb {
    fn heights(&self, range: Range<u32>) -> Option<Vec<u32>> {
        self.calls.lock().unwrap().push((range.start, range.end));
        let have: Vec<u32> = range.clone().take_while(|h| *h < self.chain_len).collect();
        if have.len() == range.len() || self.partial {
            Some(have)
        } else {
            None
        }
    }
}

impl P2pDb for ScriptDb {
    fn get_sealed_headers(&self, range: Range<u32>) -> StorageResult<Option<Vec<SealedBlockHeader>>> {
        Ok(self.heights(range).map(|hs| hs.into_iter().map(|h| header_with(h, h as u64 + 1)).collect()))
    }
    fn get_transactions(&self, range: Range<u32>) -> StorageResult<Option<Vec<Transactions>>> {
        Ok(self.heights(range).map(|hs| hs.into_iter().map(|h| txs_with(h as u64 + 1)).collect()))
    }
    fn get_genesis(&self) -> StorageResult<Genesis> {
        Ok(Genesis::default())
    }
}

fn snapshot(cv: &VerifCachedView, table: u64) -> T {
    let mut rows = vec![];
    for h in 0..UNIVERSE {
        let code = if table == 0 { cv.peek_header(h).map(|x| header_code(&x)) } else { cv.peek_transactions(h).map(|x| txs_code(&x)) };
        if let Some(c) = code {
            rows.push(T::l(vec![T::n(h), T::n(c)]));
        }
    }
    T::l(rows)
}

fn run_cache(f: &[T]) -> T {
    let capacity = f[1].as_usize();
    let db = ScriptDb { chain_len: f[2].as_u32(), partial: f[3].as_u64() == 1, calls: Mutex::new(vec![]) };
    let cv = VerifCachedView::new(capacity);
    let mut out = vec![];
    for op in f[4].as_l() {
        let o = op.as_l();
        let table = o[1].as_u64();
        let before = snapshot(&cv, table);
        db.calls.lock().unwrap().clear();
        let result = match o[0].as_u64() {
            0 => {
                let range = o[2].as_u32()..o[3].as_u32();
                let codes: Option<Vec<u64>> = if table == 0 {
                    cv.get_sealed_headers(&db, range).unwrap().map(|v| v.iter().map(header_code).collect())
                } else {
                    cv.get_transactions(&db, range).unwrap().map(|v| v.iter().map(txs_code).collect())
                };
                match codes {
                    None => T::l(vec![T::i(0)]),
                    Some(c) => T::l(vec![T::i(1), T::list_n(&c)]),
                }
            }
            k => {
                let h = o[2].as_u32();
                let code = if k == 1 { 100 + o[3].as_u64() } else { h as u64 + 1 };
                if table == 0 {
                    cv.insert_header(h, header_with(h, code));
                } else {
                    cv.insert_transactions(h, txs_with(code));
                }
                T::l(vec![T::i(-1)])
            }
        };
        let calls: Vec<T> = db.calls.lock().unwrap().iter().map(|(a, b)| T::l(vec![T::n(*a), T::n(*b)])).collect();
        let after = snapshot(&cv, table);
        out.push(T::l(vec![before, after, result, T::l(calls)]));
    }
    T::l(out)
}

// ---------------------------------------------------------------------------------------
// kind 1: request codec

fn request_of(t: &T) -> RequestMessage {
    let m = t.as_l();
    match m[0].as_u64() {
        0 => RequestMessage::SealedHeaders(m[1].as_u32()..m[2].as_u32()),
        1 => RequestMessage::Transactions(m[1].as_u32()..m[2].as_u32()),
        2 => RequestMessage::TxPoolAllTransactionsIds,
        _ => RequestMessage::TxPoolFullTransactions(
            m[1].as_l()
                .iter()
                .map(|id| {
                    let b: [u8; 32] = id.as_bytes().try_into().expect("32 bytes");
                    TxId::from(b)
                })
                .collect(),
        ),
    }
}

fn handler(max: u64) -> RequestResponseMessageHandler<PostcardCodec> {
    let max = u32::try_from(max.max(1)).unwrap_or(u32::MAX);
    RequestResponseMessageHandler::new(NonZeroU32::new(max).unwrap())
}

fn run_request(f: &[T]) -> T {
    let msg = request_of(&f[1]);
    let max = f[2].as_u64();
    let mut bytes = Vec::new();
    block_on(handler(u32::MAX as u64).write_request(&RequestResponseProtocol::V2, &mut bytes, msg.clone())).unwrap();
    let codec = PostcardCodec;
    let back: Result<RequestMessage, _> = codec.decode(&bytes);
    let roundtrip = matches!(&back, Ok(m) if *m == msg);
    let prefixes_rejected = (0..bytes.len()).all(|k| {
        let r: Result<RequestMessage, _> = codec.decode(&bytes[..k]);
        r.is_err()
    });
    let via = block_on(handler(max).read_request(&RequestResponseProtocol::V2, &mut bytes.as_slice()));
    let via_ok = matches!(&via, Ok(m) if *m == msg);
    T::l(vec![T::bytes(&bytes), T::b(roundtrip), T::b(prefixes_rejected), T::b(via_ok)])
}

// ---------------------------------------------------------------------------------------
// kind 2: responses

fn code_of(c: u64) -> ResponseMessageErrorCode {
    match c {
        0 => ResponseMessageErrorCode::ProtocolV1EmptyResponse,
        1 => ResponseMessageErrorCode::RequestedRangeTooLarge,
        2 => ResponseMessageErrorCode::Timeout,
        3 => ResponseMessageErrorCode::SyncProcessorOutOfCapacity,
        _ => ResponseMessageErrorCode::Unknown,
    }
}
fn code_n(c: &ResponseMessageErrorCode) -> u64 {
    match c {
        ResponseMessageErrorCode::ProtocolV1EmptyResponse => 0,
        ResponseMessageErrorCode::RequestedRangeTooLarge => 1,
        ResponseMessageErrorCode::Timeout => 2,
        ResponseMessageErrorCode::SyncProcessorOutOfCapacity => 3,
        ResponseMessageErrorCode::Unknown => 4,
    }
}

fn res<X>(ok: bool, n: usize, code: u64, item: impl Fn(usize) -> X) -> Result<Vec<X>, ResponseMessageErrorCode> {
    if ok {
        Ok((0..n).map(item).collect())
    } else {
        Err(code_of(code))
    }
}

fn summary<X>(variant: u64, r: &Result<Vec<X>, ResponseMessageErrorCode>) -> Vec<T> {
    match r {
        Ok(v) => vec![T::i(1), T::n(variant), T::i(1), T::n(v.len() as u64)],
        Err(c) => vec![T::i(1), T::n(variant), T::i(0), T::n(code_n(c))],
    }
}

fn run_response(f: &[T]) -> T {
    let variant = f[1].as_u64();
    let ok = f[2].as_u64() == 1;
    let n = f[3].as_usize();
    let code = f[4].as_u64();
    let proto = if f[5].as_u64() == 1 { RequestResponseProtocol::V1 } else { RequestResponseProtocol::V2 };
    let max = f[6].as_u64();
    let msg = match variant {
        0 => V2ResponseMessage::SealedHeaders(res(ok, n, code, |i| header_with(i as u32, i as u64))),
        1 => V2ResponseMessage::Transactions(res(ok, n, code, |i| txs_with((i % 2) as u64))),
        2 => V2ResponseMessage::TxPoolAllTransactionsIds(res(ok, n, code, |i| TxId::from([i as u8; 32]))),
        _ => V2ResponseMessage::TxPoolFullTransactions(res(ok, n, code, |_| None)),
    };
    let mut bytes = Vec::new();
    let written = block_on(handler(u32::MAX as u64).write_response(&proto, &mut bytes, msg.clone()));
    if written.is_err() {
        return T::l(vec![T::i(-1), T::l(vec![T::i(0)])]);
    }
    let back = block_on(handler(max).read_response(&proto, &mut bytes.as_slice()));
    let result = match back {
        Err(_) => vec![T::i(0)],
        Ok(m) => match (&m, &msg) {
            (V2ResponseMessage::SealedHeaders(r), V2ResponseMessage::SealedHeaders(orig)) => {
                if let (Ok(a), Ok(b)) = (r, orig) {
                    assert_eq!(a, b, "payload changed");
                }
                summary(0, r)
            }
            (V2ResponseMessage::Transactions(r), V2ResponseMessage::Transactions(orig)) => {
                if let (Ok(a), Ok(b)) = (r, orig) {
                    assert!(a.len() == b.len() && a.iter().zip(b).all(|(x, y)| x.0 == y.0), "payload changed");
                }
                summary(1, r)
            }
            (V2ResponseMessage::TxPoolAllTransactionsIds(r), V2ResponseMessage::TxPoolAllTransactionsIds(orig)) => {
                if let (Ok(a), Ok(b)) = (r, orig) {
                    assert_eq!(a, b, "payload changed");
                }
                summary(2, r)
            }
            (V2ResponseMessage::TxPoolFullTransactions(r), V2ResponseMessage::TxPoolFullTransactions(_)) => summary(3, r),
            _ => vec![T::i(1), T::i(9), T::i(0), T::i(9)], // variant changed
        },
    };
    T::l(vec![T::n(bytes.len() as u64), T::l(result)])
}

pub fn run(input: &T) -> T {
    let input = input.clone();
    catch(move || {
        let f = input.as_l();
        match f[0].as_u64() {
            0 => run_cache(f),
            1 => run_request(f),
            _ => run_response(f),
        }
    })
}

// ---------------------------------------------------------------------------------------
// generator

fn cache_case(rng: &mut Rng, tier: &str) -> T {
    let capacity = *rng.pick(&[1u64, 2, 3, 5, 64, 64, 64]);
    let chain_len = rng.range(0, UNIVERSE as u64);
    let db_mode: u64 = if rng.chance(1, 6) { 1 } else { 0 };
    let poison = rng.chance(1, 4);
    let len = rng.range(1, if tier == "thorough" { 16 } else { 8 });
    let ops: Vec<T> = (0..len)
        .map(|_| {
            let table = rng.below(2);
            match rng.below(10) {
                0 if poison => T::l(vec![T::i(1), T::n(table), T::n(rng.below(UNIVERSE as u64)), T::n(rng.below(3))]),
                1 => T::l(vec![T::i(2), T::n(table), T::n(rng.below(chain_len.max(1))), ]),
                _ => {
                    let a = rng.below(UNIVERSE as u64);
                    let b = if rng.chance(1, 8) { rng.below(a + 1) } else { (a + rng.range(0, 6)).min(UNIVERSE as u64) };
                    T::l(vec![T::i(0), T::n(table), T::n(a), T::n(b)])
                }
            }
        })
        .collect();
    T::l(vec![T::i(0), T::n(capacity), T::n(chain_len), T::n(db_mode), T::l(ops)])
}

fn request_case(rng: &mut Rng) -> T {
    let edge = [0u64, 1, 127, 128, 129, 255, 256, 16383, 16384, 16385, 2097151, 2097152, 268435455, 268435456, u32::MAX as u64 - 1, u32::MAX as u64];
    let num = |rng: &mut Rng| if rng.chance(2, 3) { *rng.pick(&edge) } else { rng.next() >> rng.range(32, 63) };
    let msg = match rng.below(6) {
        0 | 1 => T::l(vec![T::i(0), T::n(num(rng)), T::n(num(rng))]),
        2 | 3 => T::l(vec![T::i(1), T::n(num(rng)), T::n(num(rng))]),
        4 => T::l(vec![T::i(2)]),
        _ => {
            let n = *rng.pick(&[0u64, 1, 2, 3, 4, 5, 127, 128, 129]);
            let n = if n > 5 && rng.chance(3, 4) { rng.below(6) } else { n };
            let ids: Vec<T> = (0..n)
                .map(|_| {
                    let b: Vec<u8> = (0..32).map(|_| if rng.chance(1, 3) { *rng.pick(&[0u8, 0x7f, 0x80, 0xff]) } else { rng.next() as u8 }).collect();
                    T::bytes(&b)
                })
                .collect();
            T::l(vec![T::i(3), T::l(ids)])
        }
    };
    let max = match rng.below(6) {
        0 => rng.range(1, 12),
        1 => rng.range(30, 70),
        2 => 1024,
        _ => 18 * 1024 * 1024,
    };
    T::l(vec![T::i(1), msg, T::n(max)])
}

fn response_case(rng: &mut Rng) -> T {
    let variant = rng.below(4);
    let ok = rng.chance(3, 5) as u64;
    let n = rng.range(0, 6);
    let code = rng.below(5);
    let proto = rng.range(1, 2);
    let max = match rng.below(5) {
        0 => rng.range(1, 8),
        1 => rng.range(20, 400),
        _ => 18 * 1024 * 1024,
    };
    T::l(vec![T::i(2), T::n(variant), T::n(ok), T::n(n), T::n(code), T::n(proto), T::n(max)])
}

pub fn gen(rng: &mut Rng, n: u64, tier: &str) -> Vec<T> {
    let mut cases = vec![];
    // bounded-exhaustive cache: every cached subset of 4 heights x every range inside 0..=4, chain 0..=4
    for chain_len in 0..=4u64 {
        for mask in 0..16u64 {
            for a in 0..=4u64 {
                for b in a..=4u64 {
                    let mut ops: Vec<T> = (0..4u64)
                        .filter(|h| mask >> h & 1 == 1 && *h < chain_len)
                        .map(|h| T::l(vec![T::i(2), T::i(0), T::n(h)]))
                        .collect();
                    ops.push(T::l(vec![T::i(0), T::i(0), T::n(a), T::n(b)]));
                    ops.push(T::l(vec![T::i(0), T::i(0), T::n(a), T::n(b)]));
                    cases.push(T::l(vec![T::i(0), T::i(64), T::n(chain_len), T::i(0), T::l(ops)]));
                }
            }
        }
    }
    // every request shape at the varint boundaries, every prefix length as the size cap
    for v in [0u64, 127, 128, 16383, 16384, 2097151, 2097152, 268435455, 268435456, u32::MAX as u64] {
        for k in [0u64, 1] {
            for max in [1u64, 2, 3, 5, 6, 10, 11, 12, 1024] {
                cases.push(T::l(vec![T::i(1), T::l(vec![T::n(k), T::n(v), T::n(u32::MAX as u64 - v)]), T::n(max)]));
            }
        }
    }
    // every response variant x ok/err x both protocols
    for variant in 0..4u64 {
        for proto in 1..=2u64 {
            for code in 0..5u64 {
                cases.push(T::l(vec![T::i(2), T::n(variant), T::i(0), T::i(0), T::n(code), T::n(proto), T::i(1024)]));
            }
            for items in 0..3u64 {
                for max in [1u64, 2, 3, 1024 * 1024] {
                    cases.push(T::l(vec![T::i(2), T::n(variant), T::i(1), T::n(items), T::i(0), T::n(proto), T::n(max)]));
                }
            }
        }
    }
    for _ in 0..n {
        cases.push(match rng.below(5) {
            0 | 1 | 2 => cache_case(rng, tier),
            3 => request_case(rng),
            _ => response_case(rng),
        });
    }
    cases
}
