//! C31: PeerManager slots, ConnectionState flag, application / gossip scores.
//!
//! Input  `(n_reserved max (op ...))` over peers `0..N_PEERS` (the first `n_reserved` are
//! reserved).  Ops: `(0 p)` connect, `(1 p)` identify, `(2 p)` disconnect,
//! `(3 p m e)` update_app_score by `m * 2^e`, `(4)` decay, `(5 p m e)` gossip score `m * 2^e`.
//! Scores travel as exact dyadic numbers `(m e)` (odd `m`, or `(0 0)`): an f64 is decomposed
//! from its bits, never printed as decimal text.
use fuel_core_p2p::{
    config::verif_hooks::connection_tracker_allow_peer,
    peer_manager::{ConnectionState, PeerManager, Punisher},
    Multiaddr, PeerId,
};
use std::collections::HashSet;
use vcommon::{catch, Rng, T};

pub const N_PEERS: u64 = 7;

struct Bans<'a> {
    ids: &'a [PeerId],
    banned: Vec<u64>,
}

impl Punisher for Bans<'_> {
    fn ban_peer(&mut self, peer_id: PeerId) {
        let idx = self.ids.iter().position(|p| *p == peer_id).expect("unknown peer banned");
        self.banned.push(idx as u64);
    }
}

/// exact value of a finite f64 as (odd mantissa, exponent); zero is (0, 0)
fn dyadic_t(x: f64) -> T {
    if x.is_nan() {
        return T::l(vec![T::i(-1), T::i(-1), T::i(-1)]);
    }
    if x.is_infinite() {
        return T::l(vec![T::i(if x > 0.0 { 1 } else { -1 }), T::i(-2), T::i(-2)]);
    }
    if x == 0.0 {
        return T::l(vec![T::i(0), T::i(0)]);
    }
    let bits = x.to_bits();
    let neg = (bits >> 63) == 1;
    let exp = ((bits >> 52) & 0x7ff) as i128;
    let frac = (bits & ((1u64 << 52) - 1)) as i128;
    let (mut m, mut e) = if exp == 0 { (frac, -1074) } else { (frac | (1i128 << 52), exp - 1075) };
    while m % 2 == 0 {
        m /= 2;
        e += 1;
    }
    T::l(vec![T::i(if neg { -m } else { m }), T::i(e)])
}

/// m * 2^e as f64; the generator keeps |m| < 2^53 and e small, so this is exact
fn to_f64(m: i128, e: i128) -> f64 {
    assert!(m.unsigned_abs() < (1u128 << 53), "mantissa too wide");
    assert!((-200..=200).contains(&e), "exponent out of the generated range");
    (m as f64) * 2f64.powi(e as i32)
}

pub fn run(input: &T) -> T {
    let input = input.clone();
    catch(move || {
        let f = input.as_l();
        let n_reserved = f[0].as_u64();
        let max = f[1].as_usize();
        let ids: Vec<PeerId> = (0..N_PEERS).map(|_| PeerId::random()).collect();
        let reserved: HashSet<PeerId> = ids.iter().take(n_reserved as usize).cloned().collect();
        let reserved_addrs: Vec<Multiaddr> = ids
            .iter()
            .take(n_reserved as usize)
            .map(|p| format!("/ip4/127.0.0.1/tcp/4000/p2p/{p}").parse().unwrap())
            .collect();
        let (writer, reader) = ConnectionState::new();
        let (sender, _rx) = tokio::sync::broadcast::channel(16);
        let mut pm = PeerManager::new(sender, reserved.clone(), writer, max);
        let fresh = PeerId::random(); // a non-reserved peer that is never connected

        let snapshot = |pm: &PeerManager| -> Vec<T> {
            // ConnectionTracker::allow_peer for a non-reserved peer, and for all reserved peers
            let allow_other = connection_tracker_allow_peer(&reserved_addrs, Some(reader.clone()), &fresh);
            assert_eq!(allow_other, reader.read().available_slot());
            let allow_reserved = ids
                .iter()
                .take(n_reserved as usize)
                .all(|p| connection_tracker_allow_peer(&reserved_addrs, Some(reader.clone()), p));
            let mut non_res = vec![];
            let mut res = vec![];
            for (p, info) in pm.get_all_peers() {
                let idx = ids.iter().position(|q| q == p).unwrap() as u64;
                let row = (idx, dyadic_t(info.score), info.client_version.is_some());
                if reserved.contains(p) { res.push(row) } else { non_res.push(row) }
            }
            non_res.sort_by_key(|r| r.0);
            res.sort_by_key(|r| r.0);
            let rows = |v: Vec<(u64, T, bool)>| T::l(v.into_iter().map(|(i, s, c)| T::l(vec![T::n(i), s, T::b(c)])).collect());
            vec![T::b(allow_other), T::b(allow_reserved), rows(non_res), rows(res)]
        };

        let mut out = vec![T::l(snapshot(&pm))];
        for op in f[2].as_l() {
            let o = op.as_l();
            let mut bans = Bans { ids: &ids, banned: vec![] };
            let ret: i128 = match o[0].as_i() {
                0 => pm.handle_peer_connected(&ids[o[1].as_usize()]) as i128,
                1 => {
                    pm.handle_peer_identified(&ids[o[1].as_usize()], vec![], "v".to_string());
                    -1
                }
                2 => pm.handle_peer_disconnect(ids[o[1].as_usize()]) as i128,
                3 => {
                    pm.update_app_score(ids[o[1].as_usize()], to_f64(o[2].as_i(), o[3].as_i()), "verif", &mut bans);
                    -1
                }
                4 => {
                    pm.batch_update_score_with_decay();
                    -1
                }
                5 => {
                    pm.handle_gossip_score_update(ids[o[1].as_usize()], to_f64(o[2].as_i(), o[3].as_i()), &mut bans);
                    -1
                }
                k => panic!("bad op {k}"),
            };
            let mut row = vec![T::i(ret), T::list_n(&bans.banned)];
            row.extend(snapshot(&pm));
            out.push(T::l(row));
        }
        T::l(out)
    })
}

// ---------------------------------------------------------------------------------------
// generator

fn op_peer(k: i128, p: u64) -> T {
    T::l(vec![T::i(k), T::n(p)])
}
fn op_score(k: i128, p: u64, m: i128, e: i128) -> T {
    T::l(vec![T::i(k), T::n(p), T::i(m), T::i(e)])
}

/// dyadic deltas around the boundaries of the score logic: max 150, ban below -50,
/// gossip ban below -16000, small fractions (2^-e), and exact cancellations
fn delta(rng: &mut Rng, gossip: bool) -> (i128, i128) {
    let (m, e): (i128, i128) = if gossip {
        match rng.below(8) {
            0 => (-16000, 0),
            1 => (-16001, 0),
            2 => (-32001, -1), // -16000.5
            3 => (-15999, 0),
            4 => (0, 0),
            5 => (-(1i128 << 40), 0),
            6 => (rng.range(0, 40000) as i128 - 20000, 0),
            _ => (rng.range(0, 100) as i128, 0),
        }
    } else {
        match rng.below(12) {
            0 => (150, 0),
            1 => (151, 0),
            2 => (301, -1), // 150.5
            3 => (-50, 0),
            4 => (-51, 0),
            5 => (-101, -1), // -50.5
            6 => (0, 0),
            7 => (rng.range(0, 400) as i128 - 200, 0),
            8 => (rng.range(0, 4000) as i128 - 2000, -(rng.range(1, 6) as i128)),
            9 => ((1i128 << 52) + rng.range(0, 1000) as i128, -(rng.range(40, 60) as i128)),
            10 => (-((1i128 << 52) + rng.range(0, 1000) as i128), -(rng.range(40, 60) as i128)),
            _ => (rng.range(0, 60) as i128 - 30, 0),
        }
    };
    if rng.chance(1, 2) && m != 0 { (m, e) } else { (m, e) }
}

fn random_op(rng: &mut Rng, peers: u64) -> T {
    let p = rng.below(peers);
    match rng.below(20) {
        0..=6 => op_peer(0, p),
        7 => op_peer(1, p),
        8..=12 => op_peer(2, p),
        13..=15 => {
            let (m, e) = delta(rng, false);
            op_score(3, p, m, e)
        }
        16..=17 => T::l(vec![T::i(4)]),
        _ => {
            let (m, e) = delta(rng, true);
            op_score(5, p, m, e)
        }
    }
}

fn case(n_reserved: u64, max: u64, ops: Vec<T>) -> T {
    T::l(vec![T::n(n_reserved), T::n(max), T::l(ops)])
}

pub fn gen(rng: &mut Rng, n: u64, tier: &str) -> Vec<T> {
    let mut cases = vec![];
    // N1 replay: fill the table, lose one peer, (then a second one)
    for max in 1..=3u64 {
        let mut ops: Vec<T> = (0..max).map(|p| op_peer(0, 2 + p)).collect();
        ops.push(op_peer(0, 2 + max)); // refused: table full
        ops.push(op_peer(2, 2)); // a full table loses a peer
        cases.push(case(2, max, ops.clone()));
        ops.push(op_peer(0, 2)); // and it comes back
        ops.push(op_peer(2, 3));
        cases.push(case(2, max, ops));
    }
    // bounded-exhaustive: connect/disconnect words over 3 non-reserved peers + 1 reserved
    let alphabet: Vec<T> = (0..4u64).flat_map(|p| vec![op_peer(0, p), op_peer(2, p)]).collect();
    let depth = if tier == "thorough" { 5 } else { 4 };
    for max in 0..=3u64 {
        let mut words: Vec<Vec<T>> = vec![vec![]];
        for _ in 0..depth {
            let mut next = vec![];
            for w in &words {
                for a in &alphabet {
                    let mut w2 = w.clone();
                    w2.push(a.clone());
                    next.push(w2);
                }
            }
            words = next;
        }
        for w in words {
            cases.push(case(1, max, w));
        }
    }
    // score boundaries on one connected non-reserved peer and one reserved peer
    for (m, e) in [(150, 0), (151, 0), (301, -1), (-50, 0), (-51, 0), (-101, -1), (1, -60), (-1, -60)] {
        for p in [0u64, 1] {
            cases.push(case(1, 2, vec![op_peer(0, p), op_score(3, p, m, e), T::l(vec![T::i(4)]), op_score(3, p, m, e), op_score(3, p, 1, 0)]));
        }
    }
    for (m, e) in [(-16000, 0), (-16001, 0), (-32001, -1), (0, 0)] {
        for p in [0u64, 1, 2] {
            cases.push(case(1, 2, vec![op_peer(0, 1), op_score(5, p, m, e)]));
        }
    }
    // long decay chains (rounding of x * 0.9)
    for start in [(150i128, 0i128), (-49, 0), (1, 0), (3, -2), (-4097, -5)] {
        let mut ops = vec![op_peer(0, 3), op_score(3, 3, start.0, start.1)];
        for _ in 0..60 {
            ops.push(T::l(vec![T::i(4)]));
        }
        ops.push(op_score(3, 3, 1, -3));
        cases.push(case(0, 1, ops));
    }
    // random histories
    for _ in 0..n {
        let n_reserved = rng.range(0, 2);
        let max = rng.range(0, 3);
        let peers = if rng.chance(1, 3) { n_reserved + max + 1 } else { N_PEERS };
        let len = rng.range(3, if tier == "thorough" { 60 } else { 30 });
        let ops: Vec<T> = (0..len).map(|_| random_op(rng, peers.min(N_PEERS))).collect();
        cases.push(case(n_reserved, max, ops));
    }
    cases
}
