//! Correspondence harness for the merklized storage blueprints (C13 dense, C14 sparse).
mod c13;
mod c14;

use vcommon::{Rng, T};

fn gen(prop: &str, rng: &mut Rng, n: u64, tier: &str) -> Vec<T> {
    match prop {
        "C13" => c13::gen(rng, n, tier),
        "C14" => c14::gen(rng, n, tier),
        p => panic!("unknown property {p}"),
    }
}

fn run(prop: &str, input: &T) -> T {
    match prop {
        "C13" => c13::run(input),
        "C14" => c14::run(input),
        p => panic!("unknown property {p}"),
    }
}

fn main() {
    vcommon::main_protocol(gen, run);
}
