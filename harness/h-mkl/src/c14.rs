//! C14: sparse-merklized compression-registry tables (Merkleized<Address>, Merkleized<AssetId>,
//! Merkleized<ScriptCode>) driven through StorageMutate / StorageBatchMutate; after every
//! operation the recorded root of every watched primary key is read with MerkleRootStorage::root.
use fuel_core_compression_service::storage::{column::CompressionColumn, Address, AssetId, ScriptCode};
use fuel_core_storage::{
    codec::{postcard::Postcard, Decode, Encode, Encoder},
    merkle::column::MerkleizedColumn,
    kv_store::StorageColumn,
    structured_storage::{test::InMemoryStorage, TableWithBlueprint},
    transactional::WriteTransaction,
    MerkleRootStorage, StorageBatchMutate, StorageMutate,
};
use fuel_core_types::{fuel_compression::RegistryKey, fuel_tx};
use vcommon::{catch, Rng, T};

type Col = MerkleizedColumn<CompressionColumn>;
const PK_ADDRESS: u32 = 1;
const PK_ASSET: u32 = 2;
const PK_SCRIPT: u32 = 4;

fn key_of(bytes: &[u8]) -> RegistryKey {
    <Postcard as Decode<RegistryKey>>::decode(bytes).expect("registry key bytes")
}
fn key_bytes(raw: u32) -> Vec<u8> {
    let k = RegistryKey::try_from(raw).expect("raw registry key");
    <Postcard as Encode<RegistryKey>>::encode(&k).as_bytes().into_owned()
}

fn res_unit(r: Result<(), fuel_core_storage::Error>) -> T {
    match r {
        Ok(()) => T::l(vec![T::i(0)]),
        Err(_) => T::l(vec![T::i(3)]),
    }
}
fn res_opt(r: Result<Option<Vec<u8>>, fuel_core_storage::Error>) -> T {
    match r {
        Ok(None) => T::l(vec![T::i(1)]),
        Ok(Some(p)) => T::l(vec![T::i(2), T::bytes(&p)]),
        Err(_) => T::l(vec![T::i(3)]),
    }
}

macro_rules! table_ops {
    ($st:expr, $table:ty, $mk:expr, $bytes:expr, $o:expr) => {{
        let o: &[T] = $o;
        match o[0].as_i() {
            0 => res_unit(StorageMutate::<$table>::insert($st, &key_of(&o[2].as_bytes()), &$mk(&o[3].as_bytes()))),
            1 => res_opt(StorageMutate::<$table>::replace($st, &key_of(&o[2].as_bytes()), &$mk(&o[3].as_bytes())).map(|p| p.map(|v| $bytes(&v)))),
            2 => res_opt(StorageMutate::<$table>::take($st, &key_of(&o[2].as_bytes())).map(|p| p.map(|v| $bytes(&v)))),
            3 => res_unit(StorageMutate::<$table>::remove($st, &key_of(&o[2].as_bytes()))),
            4 | 5 => {
                let kvs: Vec<_> = o[2].as_l().iter().map(|kv| { let kv = kv.as_l(); (key_of(&kv[0].as_bytes()), $mk(&kv[1].as_bytes())) }).collect();
                if o[0].as_i() == 4 {
                    res_unit(StorageBatchMutate::<$table>::init_storage($st, kvs.iter().map(|(k, v)| (k, v))))
                } else {
                    res_unit(StorageBatchMutate::<$table>::insert_batch($st, kvs.iter().map(|(k, v)| (k, v))))
                }
            }
            6 => {
                let ks: Vec<_> = o[2].as_l().iter().map(|k| key_of(&k.as_bytes())).collect();
                res_unit(StorageBatchMutate::<$table>::remove_batch($st, ks.iter()))
            }
            k => panic!("bad op {k}"),
        }
    }};
}

fn b32(b: &[u8]) -> [u8; 32] {
    b.try_into().expect("32-byte value")
}

pub fn run(input: &T) -> T {
    let input = input.clone();
    catch(move || {
        let f = input.as_l();
        let pks: Vec<u32> = f[0].as_l().iter().map(|x| x.as_u32()).collect();
        let mut base = InMemoryStorage::<Col>::default();
        let mut st = base.write_transaction();
        let mut out = vec![];
        for op in f[1].as_l() {
            let o = op.as_l();
            let pk = o[1].as_u32();
            let res = match pk {
                PK_ADDRESS => table_ops!(&mut st, Address, |b: &[u8]| fuel_tx::Address::new(b32(b)), |v: &fuel_tx::Address| v.to_vec(), o),
                PK_ASSET => table_ops!(&mut st, AssetId, |b: &[u8]| fuel_tx::AssetId::new(b32(b)), |v: &fuel_tx::AssetId| v.to_vec(), o),
                PK_SCRIPT => table_ops!(&mut st, ScriptCode, |b: &[u8]| fuel_tx::ScriptCode::from(b.to_vec()), |v: &fuel_tx::ScriptCode| v.bytes.to_vec(), o),
                p => panic!("unknown primary key {p}"),
            };
            let roots: Vec<T> = pks
                .iter()
                .map(|pk| {
                    // the metadata (primary) key of a Merkleized<Table> is the table's column id
                    let r = match *pk {
                        PK_ADDRESS => MerkleRootStorage::<u32, Address>::root(&st, &<Address as TableWithBlueprint>::column().id()),
                        PK_ASSET => MerkleRootStorage::<u32, AssetId>::root(&st, &<AssetId as TableWithBlueprint>::column().id()),
                        PK_SCRIPT => MerkleRootStorage::<u32, ScriptCode>::root(&st, &<ScriptCode as TableWithBlueprint>::column().id()),
                        p => panic!("unknown primary key {p}"),
                    }
                    .expect("root");
                    T::bytes(&r)
                })
                .collect();
            out.push(T::l(vec![res, T::l(roots)]));
        }
        T::l(out)
    })
}

fn value(rng: &mut Rng, pk: u32) -> Vec<u8> {
    if pk == PK_SCRIPT {
        // raw script bytes of any length, the empty script included
        let len = *rng.pick(&[0u64, 0, 1, 2, 5, 33]);
        (0..len).map(|_| rng.below(4) as u8).collect()
    } else {
        let mut v = vec![0u8; 32];
        v[31] = rng.below(3) as u8; // few distinct values: overwrites with equal content occur
        v[0] = rng.below(2) as u8;
        v
    }
}

pub fn gen(rng: &mut Rng, n: u64, tier: &str) -> Vec<T> {
    let pks = [PK_ADDRESS, PK_ASSET, PK_SCRIPT];
    let max_len = if tier == "thorough" { 20 } else { 10 };
    let mut cases = vec![];
    for _ in 0..n {
        let nkeys = 2 + rng.below(5);
        // registry keys: small ones, plus the top of the 24-bit space
        let key = |rng: &mut Rng| -> Vec<u8> {
            let raw = if rng.chance(1, 8) { (1u32 << 24) - 2 - rng.below(2) as u32 } else { rng.below(nkeys) as u32 };
            key_bytes(raw)
        };
        let len = rng.range(1, max_len);
        let mut ops = vec![];
        for _ in 0..len {
            let pk = *rng.pick(&pks);
            let op = match rng.below(12) {
                0..=2 => T::l(vec![T::i(0), T::n(pk), T::bytes(&key(rng)), T::bytes(&value(rng, pk))]),
                3..=4 => T::l(vec![T::i(1), T::n(pk), T::bytes(&key(rng)), T::bytes(&value(rng, pk))]),
                5 => T::l(vec![T::i(2), T::n(pk), T::bytes(&key(rng))]),
                6..=7 => T::l(vec![T::i(3), T::n(pk), T::bytes(&key(rng))]),
                8 | 9 => {
                    let tag = if rng.chance(1, 2) { 4 } else { 5 };
                    let m = rng.below(4);
                    let kvs: Vec<T> = (0..m).map(|_| T::l(vec![T::bytes(&key(rng)), T::bytes(&value(rng, pk))])).collect();
                    T::l(vec![T::i(tag), T::n(pk), T::l(kvs)])
                }
                _ => {
                    let m = rng.below(4);
                    let ks: Vec<T> = (0..m).map(|_| T::bytes(&key(rng))).collect();
                    T::l(vec![T::i(6), T::n(pk), T::l(ks)])
                }
            };
            ops.push(op);
        }
        cases.push(T::l(vec![T::list_n(&pks), T::l(ops)]));
    }
    cases
}
