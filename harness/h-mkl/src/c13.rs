//! C13: the FuelBlocks table (Merklized blueprint) driven through StorageMutate /
//! StorageBatchMutate on a StorageTransaction over the in-memory test storage.
use fuel_core_storage::{
    column::Column,
    structured_storage::test::InMemoryStorage,
    tables::{
        merkle::{DenseMetadataKey, FuelBlockMerkleMetadata},
        FuelBlocks,
    },
    transactional::WriteTransaction,
    StorageAsMut, StorageAsRef, StorageBatchMutate, StorageInspect, StorageMutate,
};
use fuel_core_types::{
    blockchain::{
        block::{Block, CompressedBlock},
        header::{ApplicationHeader, ConsensusHeader, PartialBlockHeader},
        primitives::{DaBlockHeight, Empty},
    },
    fuel_types::BlockHeight,
};
use vcommon::{catch, Rng, T};

/// the block identified by `vid`: distinct content per vid (DA height), independent of the key
fn block_of(vid: u32) -> CompressedBlock {
    let header = PartialBlockHeader {
        application: ApplicationHeader::<Empty> {
            da_height: DaBlockHeight(vid as u64),
            ..Default::default()
        },
        consensus: ConsensusHeader::<Empty> { height: BlockHeight::new(vid % 7), ..Default::default() },
    };
    let block = fuel_core_types::blockchain::block::PartialFuelBlock::new(header, vec![]);
    let block: Block = block
        .generate(&[], Default::default())
        .expect("block");
    block.compress(&Default::default())
}

fn leaf_of(vid: u32) -> Vec<u8> {
    let id: [u8; 32] = block_of(vid).id().into();
    id.to_vec()
}

fn vid_of(b: &CompressedBlock) -> u32 {
    b.header().da_height().0 as u32
}

fn md_t(m: Option<(u64, [u8; 32])>) -> T {
    match m {
        None => T::l(vec![]),
        Some((v, r)) => T::l(vec![T::n(v), T::bytes(&r)]),
    }
}

pub fn run(input: &T) -> T {
    let input = input.clone();
    catch(move || {
        let mut base = InMemoryStorage::<Column>::default();
        let mut st = base.write_transaction();
        let mut per_op = vec![];
        let mut keys_seen: Vec<u32> = vec![];
        let dval = |t: &T| -> (u32, CompressedBlock) {
            let v = t.as_l();
            let vid = v[0].as_u32();
            let b = block_of(vid);
            assert_eq!(leaf_of(vid), v[1].as_bytes(), "leaf bytes of the input do not match the encoder");
            (vid, b)
        };
        for op in input.as_l() {
            let o = op.as_l();
            let res: T = match o[0].as_i() {
                0 => {
                    let k = o[1].as_u32();
                    keys_seen.push(k);
                    let (_, b) = dval(&o[2]);
                    match StorageMutate::<FuelBlocks>::insert(&mut st, &k.into(), &b) {
                        Ok(()) => T::l(vec![T::i(0)]),
                        Err(_) => T::l(vec![T::i(3)]),
                    }
                }
                1 => {
                    let k = o[1].as_u32();
                    keys_seen.push(k);
                    let (_, b) = dval(&o[2]);
                    match StorageMutate::<FuelBlocks>::replace(&mut st, &k.into(), &b) {
                        Ok(None) => T::l(vec![T::i(1)]),
                        Ok(Some(p)) => T::l(vec![T::i(2), T::n(vid_of(&p))]),
                        Err(_) => T::l(vec![T::i(3)]),
                    }
                }
                2 => {
                    let k = o[1].as_u32();
                    keys_seen.push(k);
                    match StorageMutate::<FuelBlocks>::take(&mut st, &k.into()) {
                        Ok(None) => T::l(vec![T::i(1)]),
                        Ok(Some(p)) => T::l(vec![T::i(2), T::n(vid_of(&p))]),
                        Err(_) => T::l(vec![T::i(3)]),
                    }
                }
                3 => {
                    let k = o[1].as_u32();
                    keys_seen.push(k);
                    match StorageMutate::<FuelBlocks>::remove(&mut st, &k.into()) {
                        Ok(()) => T::l(vec![T::i(0)]),
                        Err(_) => T::l(vec![T::i(3)]),
                    }
                }
                4 => {
                    let kvs: Vec<(BlockHeight, CompressedBlock)> = o[1]
                        .as_l()
                        .iter()
                        .map(|kv| {
                            let kv = kv.as_l();
                            keys_seen.push(kv[0].as_u32());
                            (kv[0].as_u32().into(), dval(&kv[1]).1)
                        })
                        .collect();
                    match StorageBatchMutate::<FuelBlocks>::insert_batch(&mut st, kvs.iter().map(|(k, v)| (k, v))) {
                        Ok(()) => T::l(vec![T::i(0)]),
                        Err(_) => T::l(vec![T::i(3)]),
                    }
                }
                5 => {
                    let ks: Vec<BlockHeight> = o[1].as_l().iter().map(|k| { keys_seen.push(k.as_u32()); k.as_u32().into() }).collect();
                    match StorageBatchMutate::<FuelBlocks>::remove_batch(&mut st, ks.iter()) {
                        Ok(()) => T::l(vec![T::i(0)]),
                        Err(_) => T::l(vec![T::i(3)]),
                    }
                }
                k => panic!("bad op {k}"),
            };
            let latest = StorageInspect::<FuelBlockMerkleMetadata>::get(&st, &DenseMetadataKey::Latest)
                .expect("metadata read")
                .map(|m| (m.version(), *m.root()));
            per_op.push(T::l(vec![res, md_t(latest)]));
        }
        keys_seen.sort();
        keys_seen.dedup();
        let mut prim = vec![];
        let mut tbl = vec![];
        for k in keys_seen {
            let h: BlockHeight = k.into();
            if let Some(m) = StorageInspect::<FuelBlockMerkleMetadata>::get(&st, &DenseMetadataKey::Primary(h)).expect("metadata read") {
                prim.push(T::l(vec![T::n(k), T::n(m.version()), T::bytes(m.root())]));
            }
            if let Some(b) = st.storage_as_ref::<FuelBlocks>().get(&h).expect("block read") {
                tbl.push(T::l(vec![T::n(k), T::n(vid_of(&b))]));
            }
        }
        let _ = st.storage_as_mut::<FuelBlocks>();
        T::l(vec![T::l(per_op), T::l(prim), T::l(tbl)])
    })
}

fn dval_t(vid: u32) -> T {
    T::l(vec![T::n(vid), T::bytes(&leaf_of(vid))])
}

pub fn gen(rng: &mut Rng, n: u64, tier: &str) -> Vec<T> {
    let mut cases = vec![];
    let max_len = if tier == "thorough" { 24 } else { 14 };
    for i in 0..n {
        // small key universe so that hits on stored keys are common
        let keys = 2 + rng.below(6) as u32;
        let len = rng.range(1, max_len);
        // class "insert onto a stored key" (known finding) only in every 8th history
        let allow_dup_insert = i % 8 == 7;
        let mut stored: Vec<u32> = vec![];
        let mut next_vid = 1u32;
        let mut ops = vec![];
        for _ in 0..len {
            let k = if rng.chance(1, 10) { u32::MAX - rng.below(2) as u32 } else { rng.below(keys as u64) as u32 };
            let fresh = |next_vid: &mut u32| { let v = *next_vid; *next_vid += 1; v };
            match rng.below(10) {
                0..=2 => {
                    let k = if stored.contains(&k) && !allow_dup_insert {
                        // pick a key that is not stored yet
                        (0..u32::MAX).find(|c| !stored.contains(c)).unwrap()
                    } else { k };
                    if !stored.contains(&k) { stored.push(k); }
                    ops.push(T::l(vec![T::i(0), T::n(k), dval_t(fresh(&mut next_vid))]));
                }
                3..=4 => {
                    if !stored.contains(&k) { stored.push(k); }
                    ops.push(T::l(vec![T::i(1), T::n(k), dval_t(fresh(&mut next_vid))]));
                }
                5 => ops.push(T::l(vec![T::i(2), T::n(k)])),
                6 => ops.push(T::l(vec![T::i(3), T::n(k)])),
                7..=8 => {
                    let m = rng.below(4);
                    let mut kvs = vec![];
                    let mut hit = false;
                    for _ in 0..m {
                        let k = rng.below(keys as u64 + 2) as u32;
                        if !hit {
                            if stored.contains(&k) { hit = true; } else { stored.push(k); }
                        }
                        kvs.push(T::l(vec![T::n(k), dval_t(fresh(&mut next_vid))]));
                    }
                    ops.push(T::l(vec![T::i(4), T::l(kvs)]));
                }
                _ => {
                    let m = rng.below(4);
                    let ks: Vec<T> = (0..m).map(|_| T::n(rng.below(keys as u64 + 2) as u32)).collect();
                    ops.push(T::l(vec![T::i(5), T::l(ks)]));
                }
            }
        }
        cases.push(T::l(ops));
    }
    cases
}
