//! h-lease: correspondence harness of cluster Lease (C25).
//!
//! kind 0: typed script invocations on ONE stand-in node (`standin::Node`); the Coq side runs the
//!         translated Lua text on its Redis model and must produce the same replies / epochs /
//!         owners / stream.
//! kind 1: the REAL `RedisLeaderLeaseAdapter` (one instance per replica, all in this process)
//!         against N fake Redis servers (server.rs) under a schedule of production rounds,
//!         releases, per-request fates (lost / held back / reply lost), lease expiry (node clocks),
//!         node data loss and replica restarts.  The reaction of the PoA service to leader_state
//!         and to a failed production (service.rs try_to_produce_block /
//!         handle_normal_block_production, importer.rs: publish before commit) is replayed by hand.
#[cfg(feature = "adapter")]
mod server;
mod standin;

use standin::{t_bytes, t_entry, t_reply, Node};
use vcommon::{Rng, T};

#[cfg(feature = "adapter")]
mod sysrun {
use super::*;
use fuel_core::service::adapters::consensus_module::poa::RedisLeaderLeaseAdapter;
use fuel_core_importer::ports::BlockReconciliationWritePort;
use fuel_core_poa::ports::{BlockReconciliationReadPort, LeaderState};
use fuel_core_types::blockchain::{block::Block, consensus::Consensus, SealedBlock};
use crate::server::Servers;
use std::time::{Duration, Instant};

const LEASE_KEY: &str = "poa:leader:lock";
/// generous: the sandbox can be heavily loaded; a request that is not held back must never time out
const NODE_TIMEOUT_MS: u64 = 1500;

fn make_block(height: u32, variant: u64) -> SealedBlock {
    let mut block = Block::default();
    block.header_mut().set_block_height(height.into());
    block.header_mut().set_time(fuel_core_types::tai64::Tai64(variant));
    block.header_mut().recalculate_metadata();
    SealedBlock { entity: block, consensus: Consensus::PoA(Default::default()) }
}



// ---------------------------------------------------------------------------------------
// kind 1

struct Rep {
    adapter: Option<RedisLeaderLeaseAdapter>,
    owner_k: u64,
    chain: Vec<(u32, u64)>,
    next: u32,
    ctr: u64,
}

struct Sys {
    servers: Servers,
    rt: tokio::runtime::Runtime,
    reps: Vec<Rep>,
    owners: u64,
    n: usize,
    budget: u32,
    ttl: u64,
    maxlen: u32,
    attempts: u32,
    unstable: std::sync::atomic::AtomicBool,
}

fn err_class(e: &impl std::fmt::Display) -> u64 {
    let m = e.to_string();
    if m.contains("Cannot reconcile: only") {
        1
    } else if m.contains("no entries found at next height") {
        3
    } else if m.contains("repair failed to reach quorum") {
        4
    } else if m.contains("repair error") {
        5
    } else if m.contains("no winning block candidate") {
        6
    } else {
        9
    }
}

impl Sys {
    fn new_adapter(&mut self) -> (RedisLeaderLeaseAdapter, u64) {
        let k = self.owners;
        self.owners += 1;
        let a = RedisLeaderLeaseAdapter::new(
            self.servers.urls.clone(),
            LEASE_KEY.to_string(),
            Duration::from_millis(self.ttl),
            Duration::from_millis(NODE_TIMEOUT_MS),
            Duration::from_millis(0),
            Duration::from_millis(0),
            self.attempts,
            self.maxlen,
        )
        .expect("adapter")
        .with_quorum_disruption_budget(self.budget);
        // learn the instance's random owner token: a release() of a non-owner only sends
        // check_lease_owner to every node; the servers answer 0 and log nothing
        *self.servers.shared.learning.lock().unwrap() = Some(k);
        let _ = self.rt.block_on(a.release());
        *self.servers.shared.learning.lock().unwrap() = None;
        (a, k)
    }

    fn set_fates(&self, fates: &[T]) {
        for (i, nd) in self.servers.shared.nodes.iter().enumerate() {
            let mut ctl = nd.lock().unwrap();
            ctl.fates.clear();
            if let Some(f) = fates.get(i) {
                ctl.fates.extend(f.as_l().iter().map(|x| x.as_u8()));
            }
        }
        let mut seen = self.servers.shared.writes_seen.lock().unwrap();
        for s in seen.iter_mut() {
            *s = 0;
        }
    }

    /// every publish call sends one write to every node: wait for the stragglers of the last call
    fn settle(&self) {
        let deadline = Instant::now() + Duration::from_secs(8);
        loop {
            {
                let seen = self.servers.shared.writes_seen.lock().unwrap();
                let mx = seen.iter().max().copied().unwrap_or(0);
                if seen.iter().all(|s| *s == mx) {
                    return;
                }
            }
            if Instant::now() > deadline {
                // a straggler never reached its node (connect timeout under machine load)
                self.unstable.store(true, std::sync::atomic::Ordering::Relaxed);
                return;
            }
            std::thread::sleep(Duration::from_millis(1));
        }
    }

    fn take_logs(&self) -> T {
        T::L(
            self.servers
                .shared
                .nodes
                .iter()
                .map(|nd| T::L(std::mem::take(&mut nd.lock().unwrap().log)))
                .collect(),
        )
    }

    fn register_block(&self, b: &SealedBlock, h: u32, v: u64) {
        let bytes = postcard::to_allocvec(b).expect("postcard");
        self.servers.shared.canon.lock().unwrap().insert(bytes, block_name(h, v));
    }

    fn name_of(&self, b: &SealedBlock) -> (u32, Vec<u8>) {
        let bytes = postcard::to_allocvec(b).expect("postcard");
        (u32::from(*b.entity.header().height()), self.servers.shared.canon_of(&bytes))
    }

    fn release(&mut self, r: usize, decisions: &mut Vec<T>) {
        let ok = {
            let a = self.reps[r].adapter.as_ref().unwrap();
            self.rt.block_on(a.release()).is_ok()
        };
        decisions.push(T::L(vec![T::I(2), T::b(ok)]));
    }

    fn round(&mut self, r: usize, decisions: &mut Vec<T>) {
        let next = self.reps[r].next;
        let ls = {
            let a = self.reps[r].adapter.as_ref().unwrap();
            self.rt.block_on(a.leader_state(next.into()))
        };
        match ls {
            Err(e) => decisions.push(T::L(vec![T::I(0), T::n(10 + err_class(&e)), T::L(vec![])])),
            Ok(LeaderState::ReconciledFollower) => decisions.push(T::L(vec![T::I(0), T::I(0), T::L(vec![])])),
            Ok(LeaderState::ReconciledLeader) => {
                decisions.push(T::L(vec![T::I(0), T::I(1), T::L(vec![])]));
                let v = r as u64 * 1000 + self.reps[r].ctr;
                self.reps[r].ctr += 1;
                let blk = make_block(next, v);
                self.register_block(&blk, next, v);
                let name = block_name(next, v);
                // importer: publish_produced_block, then commit_changes
                let res = self.reps[r].adapter.as_ref().unwrap().publish_produced_block(&blk);
                self.settle();
                match res {
                    Ok(()) => {
                        decisions.push(T::L(vec![T::I(1), t_bytes(&name), T::I(1)]));
                        self.reps[r].chain.push((next, v));
                        self.reps[r].next += 1;
                        decisions.push(T::L(vec![T::I(3), t_bytes(&name)]));
                    }
                    Err(_) => {
                        decisions.push(T::L(vec![T::I(1), t_bytes(&name), T::I(0)]));
                        // service.rs handle_normal_block_production: release after a failed production
                        self.release(r, decisions);
                    }
                }
            }
            Ok(LeaderState::UnreconciledBlocks(blocks)) => {
                let named: Vec<(u32, Vec<u8>)> = blocks.iter().map(|b| self.name_of(b)).collect();
                decisions.push(T::L(vec![T::I(0), T::I(2), T::L(named.iter().map(|(_, n)| t_bytes(n)).collect())]));
                for (h, name) in named {
                    // service.rs: skip what the DB already has; a gap fails to import
                    if h == self.reps[r].next {
                        let v = std::str::from_utf8(&name)
                            .ok()
                            .and_then(|s| s.split('.').nth(1))
                            .and_then(|s| s.parse::<u64>().ok())
                            .unwrap_or(u64::MAX);
                        self.reps[r].chain.push((h, v));
                        self.reps[r].next += 1;
                        decisions.push(T::L(vec![T::I(3), t_bytes(&name)]));
                    }
                }
            }
        }
    }
}

pub fn run_sys(cfg: &[T], steps: &[T]) -> T {
    // a run disturbed by the machine (a write thread that could not even connect) is repeated
    for _ in 0..3 {
        if let Some(t) = run_sys_once(cfg, steps) {
            return t;
        }
    }
    run_sys_once(cfg, steps).unwrap_or_else(|| T::L(vec![T::I(-775)]))
}

fn run_sys_once(cfg: &[T], steps: &[T]) -> Option<T> {
    let n = cfg[0].as_usize();
    let nreps = cfg[1].as_usize();
    let rt = tokio::runtime::Builder::new_multi_thread().worker_threads(2).enable_all().build().expect("rt");
    let mut sys = Sys {
        servers: Servers::start(n),
        rt,
        reps: vec![],
        owners: 0,
        n,
        budget: cfg[2].as_u32(),
        ttl: cfg[3].as_u64(),
        maxlen: cfg[4].as_u32(),
        attempts: cfg[5].as_u32(),
        unstable: std::sync::atomic::AtomicBool::new(false),
    };
    for _ in 0..nreps {
        let (a, k) = sys.new_adapter();
        sys.reps.push(Rep { adapter: Some(a), owner_k: k, chain: vec![], next: 1, ctr: 0 });
    }
    let mut out_steps = vec![];
    for st in steps {
        let st = st.as_l();
        let mut decisions = vec![];
        match st[0].as_i() {
            0 | 1 => {
                let r = st[1].as_usize();
                sys.set_fates(st[2].as_l());
                if r < sys.reps.len() {
                    if st[0].as_i() == 0 {
                        sys.round(r, &mut decisions);
                    } else {
                        sys.release(r, &mut decisions);
                    }
                    sys.settle();
                }
            }
            2 => {
                if let Some(nd) = sys.servers.shared.nodes.get(st[1].as_usize()) {
                    nd.lock().unwrap().node.now += st[2].as_u64();
                }
            }
            3 => {
                if let Some(nd) = sys.servers.shared.nodes.get(st[1].as_usize()) {
                    nd.lock().unwrap().node.wipe();
                }
            }
            4 => {
                let r = st[1].as_usize();
                if r < sys.reps.len() {
                    // crash: the old instance never releases (its release-on-drop is ignored)
                    let old = sys.reps[r].adapter.take();
                    sys.kill_owner(sys.reps[r].owner_k);
                    drop(old);
                    let (a, k) = sys.new_adapter();
                    sys.reps[r].adapter = Some(a);
                    sys.reps[r].owner_k = k;
                }
            }
            5 | 6 => {
                if let Some(nd) = sys.servers.shared.nodes.get(st[1].as_usize()) {
                    let mut ctl = nd.lock().unwrap();
                    let k = st[2].as_usize();
                    if k < ctl.held.len() {
                        let h = ctl.held.remove(k);
                        if st[0].as_i() == 5 {
                            let reply = ctl.node.exec(h.script, &h.argv);
                            sys.servers.shared.log_exec(&mut ctl, h.script, &h.keys, &h.argv, &reply);
                        }
                    }
                }
            }
            7 => {
                if let Some(nd) = sys.servers.shared.nodes.get(st[1].as_usize()) {
                    nd.lock().unwrap().node.trim = st[2].as_u64();
                }
            }
            x => panic!("bad step {x}"),
        }
        out_steps.push(T::L(vec![sys.take_logs(), T::L(decisions)]));
    }
    let chains = T::L(
        sys.reps
            .iter()
            .map(|rp| T::L(rp.chain.iter().map(|(h, v)| t_bytes(&block_name(*h, *v))).collect()))
            .collect(),
    );
    let canon = |b: &[u8]| sys.servers.shared.canon_of(b);
    let streams = T::L(
        sys.servers
            .shared
            .nodes
            .iter()
            .map(|nd| {
                let ctl = nd.lock().unwrap();
                T::L(ctl.node.stream.as_deref().unwrap_or(&[]).iter().map(|e| t_entry(e, &canon)).collect())
            })
            .collect(),
    );
    // shut down: every instance's release-on-drop is ignored by the servers
    sys.kill_all_tokens();
    for rp in sys.reps.iter_mut() {
        drop(rp.adapter.take());
    }
    sys.servers.stop();
    let _ = sys.n;
    if sys.unstable.load(std::sync::atomic::Ordering::Relaxed) {
        return None;
    }
    Some(T::L(vec![T::L(out_steps), T::L(vec![chains, streams])]))
}

impl Sys {
    fn kill_all_tokens(&self) {
        let canon = self.servers.shared.canon.lock().unwrap();
        let mut dead = self.servers.shared.dead.lock().unwrap();
        for (raw, name) in canon.iter() {
            if name.starts_with(b"owner-") && !dead.contains(raw) {
                dead.push(raw.clone());
            }
        }
    }
    fn kill_owner(&self, k: u64) {
        let want = owner_name(k);
        let canon = self.servers.shared.canon.lock().unwrap();
        let mut dead = self.servers.shared.dead.lock().unwrap();
        for (raw, name) in canon.iter() {
            if *name == want && !dead.contains(raw) {
                dead.push(raw.clone());
            }
        }
    }
}


}

// ---------------------------------------------------------------------------------------
// kind 0

fn block_name(height: u32, variant: u64) -> Vec<u8> {
    format!("b{height}.{variant}").into_bytes()
}

fn owner_name(o: u64) -> Vec<u8> {
    format!("owner-{o}").into_bytes()
}

fn run_node(cmds: &[T]) -> T {
    let mut nd = Node::default();
    let mut out = vec![];
    let id = |b: &[u8]| b.to_vec();
    for c in cmds {
        let c = c.as_l();
        let dec = |i: usize| c[i].as_u128().to_string().into_bytes();
        let reply = match c[0].as_i() {
            0 => nd.exec(0, &[owner_name(c[1].as_u64())]),
            1 => nd.exec(1, &[owner_name(c[1].as_u64()), dec(2)]),
            2 => nd.exec(2, &[owner_name(c[1].as_u64())]),
            3 => nd.exec(
                3,
                &[dec(1), owner_name(c[2].as_u64()), dec(3), block_name(c[3].as_u32(), c[4].as_u64()), dec(5), dec(6)],
            ),
            4 => nd.exec(4, &[]),
            5 => nd.exec(5, &[dec(1), dec(2)]),
            6 => {
                nd.now += c[1].as_u64();
                standin::Reply::Nil
            }
            7 => {
                nd.trim = c[1].as_u64();
                standin::Reply::Nil
            }
            8 => {
                nd.wipe();
                standin::Reply::Nil
            }
            x => panic!("bad node command {x}"),
        };
        let owner = match nd.owner() {
            Some(o) => t_bytes(&o),
            None => T::L(vec![]),
        };
        out.push(T::L(vec![t_reply(&reply, &id), T::n(nd.epoch_num()), owner]));
    }
    let stream = nd.stream.as_deref().unwrap_or(&[]).iter().map(|e| t_entry(e, &id)).collect();
    T::L(vec![T::L(out), T::L(stream)])
}

fn main() {
    vcommon::main_protocol(gen, |_prop, input| {
        let input = input.clone();
        vcommon::catch(move || {
            let l = input.as_l();
            match l[0].as_i() {
                0 => run_node(l[1].as_l()),
                #[cfg(feature = "adapter")]
                1 => sysrun::run_sys(l[1].as_l(), l[2].as_l()),
                x => panic!("bad kind {x}"),
            }
        })
    });
}

// ---------------------------------------------------------------------------------------
// generators

fn gen_node_case(rng: &mut Rng, len: u64) -> T {
    let mut cmds = vec![];
    let owners = 3u64;
    let mut epoch_guess = 0u64;
    let mut top = 0u64;
    if rng.chance(1, 3) {
        cmds.push(T::L(vec![T::I(7), T::n(rng.pick(&[0u64, 1, 2, 1000]).clone())]));
    }
    for _ in 0..len {
        let o = rng.below(owners);
        let c = match rng.below(16) {
            0 => T::L(vec![T::I(0), T::n(o)]),
            1 | 2 => {
                epoch_guess += 1;
                T::L(vec![T::I(1), T::n(o), T::n(*rng.pick(&[1u64, 50, 1000]))])
            }
            3 => T::L(vec![T::I(2), T::n(o)]),
            4..=9 => {
                // epoch around the node's epoch, height around the top of the stream
                let e = (epoch_guess + rng.below(3)).saturating_sub(1);
                let h = (top + rng.below(4)).saturating_sub(1).max(1);
                top = top.max(h);
                let ml = *rng.pick(&[1u64, 2, 3, 100]);
                T::L(vec![T::I(3), T::n(e), T::n(o), T::n(h), T::n(rng.below(3)), T::n(*rng.pick(&[0u64, 40, 1000])), T::n(ml)])
            }
            10 => T::L(vec![T::I(4)]),
            11 | 12 => T::L(vec![T::I(5), T::n(rng.below(top + 2)), T::n(rng.below(4))]),
            13 | 14 => T::L(vec![T::I(6), T::n(*rng.pick(&[1u64, 39, 40, 49, 50, 999, 1000, 5000]))]),
            _ => {
                if rng.chance(1, 4) {
                    epoch_guess = 0;
                    top = 0;
                    T::L(vec![T::I(8)])
                } else {
                    T::L(vec![T::I(7), T::n(rng.below(3))])
                }
            }
        };
        cmds.push(c);
    }
    T::L(vec![T::I(0), T::L(cmds)])
}

fn fates(rng: &mut Rng, n: usize, p_bad: u64) -> T {
    T::L(
        (0..n)
            .map(|_| {
                T::L(
                    (0..8)
                        .map(|_| {
                            if rng.below(100) < p_bad {
                                T::n(*rng.pick(&[1u64, 1, 2, 3]))
                            } else {
                                T::I(0)
                            }
                        })
                        .collect(),
                )
            })
            .collect(),
    )
}

fn gen_sys_case(rng: &mut Rng, tier: &str) -> T {
    let n = *rng.pick(&[3usize, 3, 3, 1, 2, 5]);
    let reps = rng.range(2, 3) as usize;
    let budget = if n >= 5 && rng.chance(1, 2) { 1u64 } else { 0 };
    // far above any real round trip (the model takes elapsed = 0), or so small that the validity window is empty
    let ttl = *rng.pick(&[100_000u64, 100_000, 100_000, 500_000, 2]);
    let maxlen = *rng.pick(&[100u64, 100, 100, 2, 3]);
    let attempts = rng.range(1, 2);
    let len = if tier == "quick" { rng.range(4, 12) } else { rng.range(4, 20) };
    let p_bad = *rng.pick(&[0u64, 10, 25, 40]);
    let mut steps = vec![];
    let mut held = vec![0u64; n];
    if maxlen < 10 && rng.chance(1, 2) {
        for i in 0..n {
            steps.push(T::L(vec![T::I(7), T::n(i as u64), T::n(1000u64)]));
        }
    }
    for _ in 0..len {
        let r = rng.below(reps as u64);
        match rng.below(20) {
            0..=10 => {
                let f = fates(rng, n, p_bad);
                for (i, fl) in f.as_l().iter().enumerate() {
                    held[i] += fl.as_l().iter().filter(|x| x.as_i() == 2).count() as u64;
                }
                steps.push(T::L(vec![T::I(0), T::n(r), f]));
            }
            11 => steps.push(T::L(vec![T::I(1), T::n(r), fates(rng, n, p_bad / 2)])),
            12..=14 => {
                // lease expiry on some or all nodes
                let dt = *rng.pick(&[ttl, ttl, ttl / 2, 1]);
                let all = rng.chance(2, 3);
                for i in 0..n {
                    if all || rng.chance(1, 2) {
                        steps.push(T::L(vec![T::I(2), T::n(i as u64), T::n(dt)]));
                    }
                }
            }
            15 => {
                if rng.chance(1, 2) {
                    steps.push(T::L(vec![T::I(3), T::n(rng.below(n as u64))]));
                }
            }
            16 => steps.push(T::L(vec![T::I(4), T::n(r)])),
            _ => {
                let i = rng.below(n as u64) as usize;
                if held[i] > 0 {
                    steps.push(T::L(vec![T::I(if rng.chance(3, 4) { 5 } else { 6 }), T::n(i as u64), T::n(rng.below(held[i].min(2)))]));
                }
            }
        }
    }
    T::L(vec![
        T::I(1),
        T::L(vec![T::n(n as u64), T::n(reps as u64), T::n(budget), T::n(ttl), T::n(maxlen), T::n(attempts)]),
        T::L(steps),
    ])
}

/// the schedule behind the known finding L1 (DESIGN section 7): repair appends an older height
/// after a newer one, the latest-entry probe then hides the newer height and the early-stopping
/// scan of write_block.lua admits a second block at it
fn l1_schedule() -> T {
    T::parse(
        "(1 (3 3 0 100000 100 1) ((0 0 (() () (0 0 0 1))) (2 0 200000) (2 1 200000) (2 2 200000) (0 2 ()) \
         (2 0 200000) (2 1 200000) (2 2 200000) (0 0 ((0 0 0 1))) (2 0 200000) (2 1 200000) (2 2 200000) \
         (0 1 ((0 0 0 1))) (2 0 200000) (2 1 200000) (2 2 200000) (0 2 (() (0 0 1)))))",
    )
    .unwrap()
}

fn gen(_prop: &str, rng: &mut Rng, n: u64, tier: &str) -> Vec<T> {
    // n counts the script-level cases; one system schedule per 25 of them
    let mut out = vec![];
    if cfg!(feature = "adapter") {
        out.push(l1_schedule());
        let nsys = (n / 25).max(4);
        for _ in 0..nsys {
            out.push(gen_sys_case(rng, tier));
        }
    }
    for i in 0..n {
        let len = if i % 10 == 0 { rng.range(30, 80) } else { rng.range(3, 25) };
        out.push(gen_node_case(rng, len));
    }
    out
}
