//! In-process fake Redis servers speaking RESP2 over TCP on localhost: CLIENT SETINFO,
//! EVALSHA / EVAL / SCRIPT LOAD (the only things the adapter issues).  A script invocation is
//! logged (node, script, KEYS, ARGV, reply, node epoch afterwards) and answered by the stand-in
//! (`standin::Node`); the schedule decides the fate of every request: 0 executed and answered,
//! 1 connection closed without executing, 2 parked (no answer; may be executed later),
//! 3 executed, connection closed without answering.
use crate::standin::{t_bytes, t_reply, Node, Reply, SCRIPT_NAMES};
use std::collections::{HashMap, VecDeque};
use std::io::{BufRead, BufReader, Read, Write};
use std::net::{TcpListener, TcpStream};
use std::sync::atomic::{AtomicBool, Ordering};
use std::sync::{Arc, Condvar, Mutex};
use std::time::{Duration, Instant};
use vcommon::T;

pub struct Held {
    pub script: usize,
    pub keys: Vec<Vec<u8>>,
    pub argv: Vec<Vec<u8>>,
}

#[derive(Default)]
pub struct NodeCtl {
    pub node: Node,
    pub fates: VecDeque<u8>,
    pub held: Vec<Held>,
    pub log: Vec<T>,
}

/// State shared by all servers of one case.
pub struct Shared {
    pub nodes: Vec<Mutex<NodeCtl>>,
    /// raw byte string -> canonical name (owner tokens, block payloads)
    pub canon: Mutex<HashMap<Vec<u8>, Vec<u8>>>,
    /// Some(k): the next unknown owner token is instance k (no logging, answers 0)
    pub learning: Mutex<Option<u64>>,
    /// owner tokens of dropped adapter instances: their release-on-drop is ignored
    pub dead: Mutex<Vec<Vec<u8>>>,
    /// number of write_block requests seen per node in the current step (+ condvar): a node
    /// handles its j-th write only when every node has seen its (j-1)-th one, so that the
    /// requests of two consecutive publish calls reach each node in call order
    pub writes_seen: Mutex<Vec<u64>>,
    pub writes_cv: Condvar,
    pub sha: HashMap<String, usize>,
    pub bodies: Vec<Vec<u8>>,
    pub stop: AtomicBool,
}

impl Shared {
    pub fn canon_of(&self, b: &[u8]) -> Vec<u8> {
        self.canon.lock().unwrap().get(b).cloned().unwrap_or_else(|| b.to_vec())
    }

    pub fn log_exec(&self, ctl: &mut NodeCtl, script: usize, keys: &[Vec<u8>], argv: &[Vec<u8>], reply: &Reply) {
        let canon = |b: &[u8]| self.canon_of(b);
        ctl.log.push(T::L(vec![
            T::I(0),
            self.t_cmd(script, keys, argv),
            t_reply(reply, &canon),
            T::n(ctl.node.epoch_num()),
        ]));
    }

    pub fn t_cmd(&self, script: usize, keys: &[Vec<u8>], argv: &[Vec<u8>]) -> T {
        T::L(vec![
            T::n(script as u64),
            T::L(keys.iter().map(|k| t_bytes(k)).collect()),
            T::L(argv.iter().map(|a| t_bytes(&self.canon_of(a))).collect()),
        ])
    }
}

pub fn load_scripts() -> (HashMap<String, usize>, Vec<Vec<u8>>) {
    let dir = std::env::var("LEASE_LUA_DIR")
        .unwrap_or_else(|_| "/repo/crates/fuel-core/redis_leader_lease_adapter_scripts".into());
    let mut sha = HashMap::new();
    let mut bodies = vec![];
    for (i, name) in SCRIPT_NAMES.iter().enumerate() {
        let body = std::fs::read(format!("{dir}/{name}.lua")).expect("script file");
        sha.insert(sha1_smol::Sha1::from(&body[..]).digest().to_string(), i);
        bodies.push(body);
    }
    (sha, bodies)
}

fn read_line(r: &mut BufReader<TcpStream>) -> Option<Vec<u8>> {
    let mut line = vec![];
    match r.read_until(b'\n', &mut line) {
        Ok(0) | Err(_) => None,
        Ok(_) => {
            while matches!(line.last(), Some(b'\n') | Some(b'\r')) {
                line.pop();
            }
            Some(line)
        }
    }
}

fn read_cmd(r: &mut BufReader<TcpStream>) -> Option<Vec<Vec<u8>>> {
    let line = read_line(r)?;
    if line.first() != Some(&b'*') {
        return None;
    }
    let n: usize = std::str::from_utf8(&line[1..]).ok()?.parse().ok()?;
    let mut out = Vec::with_capacity(n);
    for _ in 0..n {
        let l = read_line(r)?;
        if l.first() != Some(&b'$') {
            return None;
        }
        let len: usize = std::str::from_utf8(&l[1..]).ok()?.parse().ok()?;
        let mut buf = vec![0u8; len + 2];
        r.read_exact(&mut buf).ok()?;
        buf.truncate(len);
        out.push(buf);
    }
    Some(out)
}

fn write_reply(out: &mut Vec<u8>, r: &Reply) {
    match r {
        Reply::Nil => out.extend_from_slice(b"$-1\r\n"),
        Reply::Int(z) => out.extend_from_slice(format!(":{z}\r\n").as_bytes()),
        Reply::Bulk(b) => {
            out.extend_from_slice(format!("${}\r\n", b.len()).as_bytes());
            out.extend_from_slice(b);
            out.extend_from_slice(b"\r\n");
        }
        Reply::Status(s) => out.extend_from_slice(format!("+{s}\r\n").as_bytes()),
        Reply::Err(s) => out.extend_from_slice(format!("-{s}\r\n").as_bytes()),
        Reply::Fail => out.extend_from_slice(b"-ERR Error running script (user_script): runtime error\r\n"),
        Reply::Arr(l) => {
            out.extend_from_slice(format!("*{}\r\n", l.len()).as_bytes());
            for x in l {
                write_reply(out, x);
            }
        }
    }
}

fn send(stream: &mut TcpStream, r: &Reply) -> bool {
    let mut out = vec![];
    write_reply(&mut out, r);
    stream.write_all(&out).is_ok() && stream.flush().is_ok()
}

/// returns false when the connection must be closed
fn handle_script(sh: &Arc<Shared>, idx: usize, script: usize, rest: &[Vec<u8>], stream: &mut TcpStream) -> bool {
    let nk: usize = rest.first().and_then(|x| std::str::from_utf8(x).ok()).and_then(|x| x.parse().ok()).unwrap_or(0);
    if rest.len() < 1 + nk {
        return send(stream, &Reply::Err("ERR bad EVALSHA".into()));
    }
    let keys: Vec<Vec<u8>> = rest[1..1 + nk].to_vec();
    let argv: Vec<Vec<u8>> = rest[1 + nk..].to_vec();
    // owner token position: ARGV[1] for check/promote/release, ARGV[2] for write
    let owner: Option<&Vec<u8>> = match script {
        0 | 1 | 2 => argv.first(),
        3 => argv.get(1),
        _ => None,
    };
    if let Some(o) = owner {
        if sh.dead.lock().unwrap().iter().any(|d| d == o) {
            return send(stream, &Reply::Int(0));
        }
        let mut learning = sh.learning.lock().unwrap();
        if let Some(k) = *learning {
            sh.canon.lock().unwrap().entry(o.clone()).or_insert_with(|| format!("owner-{k}").into_bytes());
            let _ = &mut learning;
            return send(stream, &Reply::Int(0));
        }
    }
    if script == 3 {
        // call-order barrier for writes (see Shared::writes_seen)
        let mut seen = sh.writes_seen.lock().unwrap();
        let j = seen[idx];
        let deadline = Instant::now() + Duration::from_secs(5);
        while seen.iter().any(|s| *s < j) && Instant::now() < deadline {
            let (g, _) = sh.writes_cv.wait_timeout(seen, Duration::from_millis(50)).unwrap();
            seen = g;
        }
    }
    let mut keep = true;
    {
        let mut ctl = sh.nodes[idx].lock().unwrap();
        let fate = ctl.fates.pop_front().unwrap_or(0);
        match fate {
            0 | 3 => {
                let reply = ctl.node.exec(script, &argv);
                sh.log_exec(&mut ctl, script, &keys, &argv, &reply);
                if fate == 0 {
                    keep = send(stream, &reply);
                } else {
                    keep = false;
                }
            }
            1 => {
                let t = sh.t_cmd(script, &keys, &argv);
                ctl.log.push(T::L(vec![T::I(1), t, T::I(1)]));
                keep = false;
            }
            _ => {
                let t = sh.t_cmd(script, &keys, &argv);
                ctl.log.push(T::L(vec![T::I(1), t, T::I(2)]));
                ctl.held.push(Held { script, keys, argv });
                // no answer: the client runs into its timeout; keep reading until it hangs up
            }
        }
    }
    if script == 3 {
        let mut seen = sh.writes_seen.lock().unwrap();
        seen[idx] += 1;
        sh.writes_cv.notify_all();
    }
    keep
}

fn serve_conn(sh: Arc<Shared>, idx: usize, stream: TcpStream) {
    let _ = stream.set_nodelay(true);
    let _ = stream.set_read_timeout(Some(Duration::from_secs(300)));
    let mut w = match stream.try_clone() {
        Ok(w) => w,
        Err(_) => return,
    };
    let mut r = BufReader::new(stream);
    loop {
        if sh.stop.load(Ordering::Relaxed) {
            return;
        }
        let Some(cmd) = read_cmd(&mut r) else { return };
        if cmd.is_empty() {
            return;
        }
        let name = String::from_utf8_lossy(&cmd[0]).to_ascii_uppercase();
        let keep = match name.as_str() {
            "CLIENT" | "PING" | "SELECT" => send(&mut w, &Reply::Status("OK".into())),
            "EVALSHA" => {
                let h = cmd.get(1).map(|x| String::from_utf8_lossy(x).to_ascii_lowercase()).unwrap_or_default();
                match sh.sha.get(&h) {
                    Some(&s) => handle_script(&sh, idx, s, &cmd[2..], &mut w),
                    None => send(&mut w, &Reply::Err("NOSCRIPT No matching script. Please use EVAL.".into())),
                }
            }
            "EVAL" => match cmd.get(1).and_then(|b| sh.bodies.iter().position(|x| x == b)) {
                Some(s) => handle_script(&sh, idx, s, &cmd[2..], &mut w),
                None => send(&mut w, &Reply::Err("ERR script text is not one of the six lease scripts".into())),
            },
            "SCRIPT" => match cmd.get(2) {
                Some(body) => {
                    let h = sha1_smol::Sha1::from(&body[..]).digest().to_string();
                    if sh.bodies.iter().any(|x| x == body) {
                        send(&mut w, &Reply::Bulk(h.into_bytes()))
                    } else {
                        send(&mut w, &Reply::Err("ERR script text is not one of the six lease scripts".into()))
                    }
                }
                None => send(&mut w, &Reply::Err("ERR syntax".into())),
            },
            _ => send(&mut w, &Reply::Err("ERR unknown command".into())),
        };
        if !keep {
            let _ = w.shutdown(std::net::Shutdown::Both);
            return;
        }
    }
}

pub struct Servers {
    pub shared: Arc<Shared>,
    pub urls: Vec<String>,
    ports: Vec<u16>,
}

impl Servers {
    pub fn start(n: usize) -> Servers {
        let (sha, bodies) = load_scripts();
        let shared = Arc::new(Shared {
            nodes: (0..n).map(|_| Mutex::new(NodeCtl::default())).collect(),
            canon: Mutex::new(HashMap::new()),
            learning: Mutex::new(None),
            dead: Mutex::new(vec![]),
            writes_seen: Mutex::new(vec![0; n]),
            writes_cv: Condvar::new(),
            sha,
            bodies,
            stop: AtomicBool::new(false),
        });
        let mut urls = vec![];
        let mut ports = vec![];
        for idx in 0..n {
            let l = TcpListener::bind("127.0.0.1:0").expect("bind");
            let port = l.local_addr().unwrap().port();
            urls.push(format!("redis://127.0.0.1:{port}/"));
            ports.push(port);
            let sh = shared.clone();
            std::thread::spawn(move || {
                for c in l.incoming() {
                    if sh.stop.load(Ordering::Relaxed) {
                        return;
                    }
                    if let Ok(s) = c {
                        let sh2 = sh.clone();
                        std::thread::spawn(move || serve_conn(sh2, idx, s));
                    }
                }
            });
        }
        Servers { shared, urls, ports }
    }

    pub fn stop(&self) {
        self.shared.stop.store(true, Ordering::Relaxed);
        for p in &self.ports {
            let _ = TcpStream::connect(("127.0.0.1", *p));
        }
    }
}
