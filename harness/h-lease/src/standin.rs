//! Stand-in for ONE Redis node: only the effects of the six leader-lease scripts.
//! It is a transport stub, not the reference: every reply it gives is re-computed by the Coq
//! interpreter on the translated Lua text (coq/Lease) and compared on every run.
use vcommon::T;

#[derive(Clone, Debug, PartialEq)]
pub enum Reply {
    Nil,
    Int(i128),
    Bulk(Vec<u8>),
    #[allow(dead_code)]
    Status(String),
    Err(String),
    Arr(Vec<Reply>),
    /// the script aborted with a Lua runtime error
    Fail,
}

#[derive(Clone, Debug)]
pub struct Entry {
    pub ms: u64,
    pub seq: u64,
    pub fields: Vec<Vec<u8>>,
}

#[derive(Clone, Debug, Default)]
pub struct Node {
    pub lock: Option<(Vec<u8>, Option<u64>)>,
    pub epoch: Option<Vec<u8>>,
    pub stream: Option<Vec<Entry>>,
    pub last_ms: u64,
    pub last_seq: u64,
    pub now: u64,
    pub trim: u64,
}

pub const SCRIPT_NAMES: [&str; 6] = [
    "check_lease_owner",
    "promote_leader",
    "release_lock",
    "write_block",
    "read_latest_stream_entry",
    "read_stream_entries",
];

fn tonum(s: &[u8]) -> Option<u128> {
    if s.is_empty() || !s.iter().all(|c| c.is_ascii_digit()) || s.len() > 38 {
        return None;
    }
    std::str::from_utf8(s).ok()?.parse::<u128>().ok()
}

fn id_str(ms: u64, seq: u64) -> Vec<u8> {
    format!("{ms}-{seq}").into_bytes()
}

impl Node {
    pub fn wipe(&mut self) {
        let (now, trim) = (self.now, self.trim);
        *self = Node::default();
        self.now = now;
        self.trim = trim;
    }

    fn lock_live(&self) -> Option<&Vec<u8>> {
        match &self.lock {
            Some((v, Some(t))) if *t <= self.now => {
                let _ = v;
                None
            }
            Some((v, _)) => Some(v),
            None => None,
        }
    }

    pub fn epoch_num(&self) -> u128 {
        self.epoch.as_deref().and_then(tonum).unwrap_or(0)
    }

    pub fn owner(&self) -> Option<Vec<u8>> {
        self.lock_live().cloned()
    }

    /// One script invocation.  `script` indexes SCRIPT_NAMES.
    pub fn exec(&mut self, script: usize, argv: &[Vec<u8>]) -> Reply {
        let arg = |i: usize| -> Option<&Vec<u8>> { argv.get(i) };
        match script {
            0 => match (self.lock_live(), arg(0)) {
                (Some(v), Some(a)) if v == a => Reply::Int(1),
                _ => Reply::Int(0),
            },
            1 => {
                // SET key owner PX ttl NX ; INCR epoch
                let (Some(owner), Some(ttl)) = (arg(0), arg(1)) else { return Reply::Fail };
                let Some(ttl) = tonum(ttl) else { return Reply::Fail };
                if ttl == 0 {
                    return Reply::Fail;
                }
                if self.lock_live().is_some() {
                    return Reply::Err("LOCK_HELD: Another leader holds the lock".into());
                }
                self.lock = Some((owner.clone(), Some(self.now + ttl as u64)));
                match &self.epoch {
                    None => {
                        self.epoch = Some(b"1".to_vec());
                        Reply::Int(1)
                    }
                    Some(v) => match tonum(v) {
                        Some(n) if n.to_string().as_bytes() == &v[..] => {
                            self.epoch = Some((n + 1).to_string().into_bytes());
                            Reply::Int((n + 1) as i128)
                        }
                        _ => Reply::Fail,
                    },
                }
            }
            2 => match (self.lock_live(), arg(0)) {
                (Some(v), Some(a)) if v == a => {
                    self.lock = None;
                    Reply::Int(1)
                }
                _ => Reply::Int(0),
            },
            3 => self.write_block(argv),
            4 => {
                let Some(last) = self.stream.as_ref().and_then(|s| s.last()) else {
                    return Reply::Arr(vec![]);
                };
                let mut h = None;
                let mut i = 0;
                while i < last.fields.len() {
                    if last.fields[i] == b"height" {
                        h = last.fields.get(i + 1).and_then(|x| tonum(x));
                        break;
                    }
                    i += 2;
                }
                match h {
                    None => Reply::Arr(vec![]),
                    Some(h) => Reply::Arr(vec![
                        Reply::Bulk(h.to_string().into_bytes()),
                        Reply::Bulk(id_str(last.ms, last.seq)),
                    ]),
                }
            }
            5 => {
                let Some(min_h) = arg(0).and_then(|x| tonum(x)) else { return Reply::Arr(vec![]) };
                let Some(count) = arg(1).and_then(|x| tonum(x)) else { return Reply::Arr(vec![]) };
                if count == 0 {
                    return Reply::Arr(vec![]);
                }
                let mut out = vec![];
                for e in self.stream.as_deref().unwrap_or(&[]) {
                    let (mut h, mut d, mut ep) = (None, None, None);
                    let mut i = 0;
                    while i < e.fields.len() {
                        let val = e.fields.get(i + 1);
                        if e.fields[i] == b"height" {
                            h = val.and_then(|x| tonum(x));
                        } else if e.fields[i] == b"data" {
                            d = val.cloned();
                        } else if e.fields[i] == b"epoch" {
                            ep = val.and_then(|x| tonum(x));
                        }
                        i += 2;
                    }
                    if let (Some(h), Some(d)) = (h, d) {
                        if h >= min_h {
                            out.push(Reply::Arr(vec![
                                Reply::Int(h as i128),
                                Reply::Int(ep.unwrap_or(0) as i128),
                                Reply::Bulk(d),
                                Reply::Bulk(id_str(e.ms, e.seq)),
                            ]));
                            if out.len() as u128 >= count {
                                break;
                            }
                        }
                    }
                }
                Reply::Arr(out)
            }
            _ => Reply::Fail,
        }
    }

    fn write_block(&mut self, argv: &[Vec<u8>]) -> Reply {
        if argv.len() < 6 {
            return Reply::Fail;
        }
        let current = match &self.epoch {
            None => Some(0),
            Some(v) => tonum(v),
        };
        if self.lock_live() != Some(&argv[1]) {
            return Reply::Err("FENCING_ERROR: Lock lost or held by another node".into());
        }
        let (Some(mine), Some(current)) = (tonum(&argv[0]), current) else { return Reply::Fail };
        if mine < current {
            return Reply::Err("FENCING_ERROR: Token is stale".into());
        }
        if mine > current {
            self.epoch = Some(argv[0].clone());
        }
        let posted = tonum(&argv[2]);
        for e in self.stream.as_deref().unwrap_or(&[]).iter().rev() {
            let mut stop = false;
            let mut i = 0;
            while i < e.fields.len() {
                if e.fields[i] == b"height" {
                    let eh = e.fields.get(i + 1).and_then(|x| tonum(x));
                    if eh == posted {
                        let mut m = b"HEIGHT_EXISTS: Block at height ".to_vec();
                        m.extend_from_slice(&argv[2]);
                        m.extend_from_slice(b" already in stream");
                        return Reply::Err(String::from_utf8_lossy(&m).into_owned());
                    }
                    if let Some(eh) = eh {
                        match posted {
                            None => return Reply::Fail,
                            Some(p) => {
                                if eh < p {
                                    stop = true;
                                    break;
                                }
                            }
                        }
                    }
                }
                i += 2;
            }
            if stop {
                break;
            }
        }
        let (ms, seq) = if self.last_ms < self.now { (self.now, 0) } else { (self.last_ms, self.last_seq + 1) };
        self.last_ms = ms;
        self.last_seq = seq;
        let secs = (self.now / 1000).to_string().into_bytes();
        let fields = vec![
            b"height".to_vec(),
            argv[2].clone(),
            b"data".to_vec(),
            argv[3].clone(),
            b"epoch".to_vec(),
            argv[0].clone(),
            b"timestamp".to_vec(),
            secs,
        ];
        let stream = self.stream.get_or_insert_with(Vec::new);
        stream.push(Entry { ms, seq, fields });
        let Some(maxlen) = tonum(&argv[5]) else { return Reply::Fail };
        let len = stream.len() as u128;
        let excess = len.saturating_sub(maxlen);
        let ev = excess.min(self.trim as u128) as usize;
        stream.drain(0..ev);
        let Some(ttl) = tonum(&argv[4]) else { return Reply::Fail };
        if ttl == 0 {
            self.lock = None;
        } else if let Some((_, exp)) = self.lock.as_mut() {
            *exp = Some(self.now + ttl as u64);
        }
        Reply::Bulk(id_str(ms, seq))
    }
}

pub fn t_bytes(b: &[u8]) -> T {
    T::L(b.iter().map(|c| T::I(*c as i128)).collect())
}

pub fn t_reply(r: &Reply, canon: &dyn Fn(&[u8]) -> Vec<u8>) -> T {
    match r {
        Reply::Nil => T::L(vec![T::I(0)]),
        Reply::Int(z) => T::L(vec![T::I(1), T::I(*z)]),
        Reply::Bulk(s) => T::L(vec![T::I(2), t_bytes(&canon(s))]),
        Reply::Status(s) => T::L(vec![T::I(3), t_bytes(s.as_bytes())]),
        Reply::Err(s) => T::L(vec![T::I(4), t_bytes(s.as_bytes())]),
        Reply::Arr(l) => {
            let mut v = vec![T::I(5)];
            v.extend(l.iter().map(|x| t_reply(x, canon)));
            T::L(v)
        }
        Reply::Fail => T::L(vec![T::I(6)]),
    }
}

pub fn t_entry(e: &Entry, canon: &dyn Fn(&[u8]) -> Vec<u8>) -> T {
    T::L(vec![
        T::n(e.ms),
        T::n(e.seq),
        T::L(e.fields.iter().map(|f| t_bytes(&canon(f))).collect()),
    ])
}
