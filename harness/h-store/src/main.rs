//! C10: real `StorageTransaction`s (fuel-core-storage) nested up to depth 4 over the
//! test-helpers `InMemoryStorage`, driven by linear op programs.
//!
//! input  : (op ...)  with op =
//!   (0 policy)            begin a transaction over the current level (policy 0 = Fail, 1 = Overwrite)
//!   (1)                   commit the current transaction into its parent
//!   (2)                   drop it
//!   (3)                   into_changes(): detach its change set into a FIFO of pending change sets
//!   (4)                   commit_changes(oldest pending change set) into the current level
//!   (10 via c k) exists   (11 via c k) size_of_value   (12 via c k) get
//!   (13 via c k off n) read_exact    (14 via c k off n) read_zerofill
//!   (20 via c k (bytes)) put   (21 ..) replace   (22 ..) write   (23 via c k) take   (24 via c k) delete
//!   (25 via c ((k 0) | (k 1 (bytes)) ...)) batch_write
//!   (30)                  dump of the current level (changes() / base contents)
//!   via 0 = KeyValueInspect/KeyValueMutate/BatchOperations, via 1|2 = table API of the plain table
//!   ContractsRawCode through StructuredStorage (only for column 1, otherwise treated as 0)
//! output : one result per op, then the final base contents sorted by (column, key).
use fuel_core_storage::{
    column::Column,
    kv_store::{BatchOperations, KeyValueInspect, KeyValueMutate, Value, WriteOperation},
    structured_storage::{test::InMemoryStorage, StructuredStorage},
    tables::ContractsRawCode,
    transactional::{Changes, ConflictPolicy, Modifiable, StorageTransaction},
    Error as StorageError, StorageBatchMutate, StorageInspect, StorageMutate, StorageRead, StorageSize,
    StorageWrite,
};
use fuel_core_types::fuel_types::ContractId;
use std::collections::VecDeque;
use vcommon::{catch, Rng, T};

type Tx<S> = StorageTransaction<S>;
type Base = InMemoryStorage<Column>;
type Code = ContractsRawCode;

const SENTINEL: u8 = 0xAA;
const STRUCT_COL: u32 = 1;

fn column(c: u32) -> Column {
    match c {
        0 => Column::Metadata,
        1 => Column::ContractsRawCode,
        2 => Column::ContractsState,
        _ => panic!("column index {c}"),
    }
}

fn key_bytes(k: u8) -> Vec<u8> {
    vec![k; 32]
}

fn key_id(bytes: &[u8]) -> u8 {
    assert!(bytes.len() == 32 && bytes.iter().all(|b| *b == bytes[0]), "foreign key {bytes:?}");
    bytes[0]
}

fn na() -> T {
    T::l(vec![T::i(-1)])
}
fn unit() -> T {
    T::l(vec![T::i(0)])
}
fn err() -> T {
    T::l(vec![T::i(9)])
}
fn optval<B: AsRef<[u8]>>(v: Option<B>) -> T {
    match v {
        None => T::l(vec![]),
        Some(v) => T::l(vec![T::bytes(v.as_ref())]),
    }
}
fn val_res<B: AsRef<[u8]>, E>(r: Result<Option<B>, E>) -> T {
    match r {
        Ok(v) => T::l(vec![T::i(0), optval(v)]),
        Err(_) => err(),
    }
}
fn unit_res<E>(r: Result<(), E>) -> T {
    match r {
        Ok(()) => unit(),
        Err(_) => err(),
    }
}
fn read_res<E, R: std::fmt::Debug>(r: Result<Result<usize, R>, E>, buf: &[u8]) -> T {
    match r {
        Ok(Ok(n)) => T::l(vec![T::i(0), T::n(n as u64), T::bytes(buf)]),
        Ok(Err(e)) => {
            let tag = match format!("{e:?}").as_str() {
                "KeyNotFound" => 1,
                "OutOfBounds" => 2,
                other => panic!("unknown StorageReadError {other}"),
            };
            T::l(vec![T::i(tag), T::i(0), T::bytes(buf)])
        }
        Err(_) => err(),
    }
}
fn commit_t(ok: bool, order: Vec<u32>) -> T {
    T::l(vec![T::i(if ok { 0 } else { 1 }), T::list_n(&order)])
}

/// iteration order of the HashMap (what `commit_changes` is going to walk through)
fn order_of(ch: &Changes) -> Vec<u32> {
    ch.keys().copied().collect()
}

fn dump_changes(ch: &Changes) -> T {
    let mut cols: Vec<_> = ch.iter().collect();
    cols.sort_by_key(|(c, _)| **c);
    T::l(vec![
        T::i(0),
        T::l(cols
            .into_iter()
            .map(|(c, bt)| {
                T::l(vec![
                    T::n(*c),
                    T::l(bt
                        .iter()
                        .map(|(k, op)| match op {
                            WriteOperation::Remove => T::l(vec![T::n(key_id(k)), T::i(0)]),
                            WriteOperation::Insert(v) => {
                                T::l(vec![T::n(key_id(k)), T::i(1), T::bytes(v)])
                            }
                        })
                        .collect()),
                ])
            })
            .collect()),
    ])
}

fn base_contents(base: &Base) -> T {
    let mut all: Vec<(u32, u8, Vec<u8>)> =
        base.storage().iter().map(|((c, k), v)| (*c, key_id(k), v.to_vec())).collect();
    all.sort();
    T::l(all.into_iter().map(|(c, k, v)| T::l(vec![T::n(c), T::n(k), T::bytes(&v)])).collect())
}

struct Cx<'a> {
    ops: &'a [T],
    pc: usize,
    out: Vec<T>,
    pending: VecDeque<Changes>,
}

impl<'a> Cx<'a> {
    fn next(&mut self) -> Option<&'a T> {
        let r = self.ops.get(self.pc);
        self.pc += 1;
        r
    }
}

fn policy(t: &T) -> ConflictPolicy {
    match t.as_i() {
        0 => ConflictPolicy::Fail,
        1 => ConflictPolicy::Overwrite,
        p => panic!("policy {p}"),
    }
}

/// effective `via` of an op
fn via_of(f: &[T], col: u32) -> i128 {
    let via = f[1].as_i();
    if col == STRUCT_COL { via } else { 0 }
}

/// raw KeyValueInspect reads (default methods for the base, overrides for a transaction)
fn read_raw<K: KeyValueInspect<Column = Column>>(s: &K, f: &[T]) -> T {
    let code = f[0].as_i();
    let col = column(f[2].as_u32());
    let key = key_bytes(f[3].as_u8());
    match code {
        10 => match s.exists(&key, col) {
            Ok(b) => T::l(vec![T::i(0), T::b(b)]),
            Err(_) => err(),
        },
        11 => match s.size_of_value(&key, col) {
            Ok(o) => T::l(vec![T::i(0), T::opt(o.map(|x| x as u64))]),
            Err(_) => err(),
        },
        12 => val_res(s.get(&key, col)),
        13 | 14 => {
            let off = f[4].as_u64() as usize;
            let mut buf = vec![SENTINEL; f[5].as_usize()];
            let r = if code == 13 {
                s.read_exact(&key, col, off, &mut buf)
            } else {
                s.read_zerofill(&key, col, off, &mut buf)
            };
            read_res(r, &buf)
        }
        _ => panic!("read op {code}"),
    }
}

/// the same reads through the table API of ContractsRawCode
fn read_table<X>(s: &X, f: &[T], via: i128) -> T
where
    X: StorageInspect<Code, Error = StorageError> + StorageSize<Code> + StorageRead<Code>,
{
    let code = f[0].as_i();
    let key = ContractId::new([f[3].as_u8(); 32]);
    match code {
        10 => match StorageInspect::<Code>::contains_key(s, &key) {
            Ok(b) => T::l(vec![T::i(0), T::b(b)]),
            Err(_) => err(),
        },
        11 => match StorageSize::<Code>::size_of_value(s, &key) {
            Ok(o) => T::l(vec![T::i(0), T::opt(o.map(|x| x as u64))]),
            Err(_) => err(),
        },
        12 if via == 2 => val_res(StorageRead::<Code>::read_alloc(s, &key)),
        12 => val_res(StorageInspect::<Code>::get(s, &key).map(|o| o.map(|c| c.as_ref().as_ref().to_vec()))),
        13 | 14 => {
            let off = f[4].as_u64() as usize;
            let mut buf = vec![SENTINEL; f[5].as_usize()];
            let r = if code == 13 {
                StorageRead::<Code>::read_exact(s, &key, off, &mut buf)
            } else {
                StorageRead::<Code>::read_zerofill(s, &key, off, &mut buf)
            };
            read_res(r, &buf)
        }
        _ => panic!("read op {code}"),
    }
}

fn entries_of(t: &T) -> Vec<(u8, Option<Vec<u8>>)> {
    t.as_l()
        .iter()
        .map(|e| {
            let e = e.as_l();
            match e[1].as_i() {
                0 => (e[0].as_u8(), None),
                1 => (e[0].as_u8(), Some(e[2].as_bytes())),
                x => panic!("entry kind {x}"),
            }
        })
        .collect()
}

/// reads and writes on a transaction
fn local<S>(tx: &mut Tx<S>, f: &[T]) -> T
where
    S: KeyValueInspect<Column = Column>,
{
    let code = f[0].as_i();
    let c = f[2].as_u32();
    let col = column(c);
    let via = via_of(f, c);
    if (10..=14).contains(&code) {
        return if via == 0 { read_raw(&*tx, f) } else { read_table(&*tx, f, via) };
    }
    if code == 25 {
        let es = entries_of(&f[3]);
        let all_ins = es.iter().all(|e| e.1.is_some());
        let all_rem = es.iter().all(|e| e.1.is_none());
        if via != 0 && all_ins {
            let owned: Vec<(ContractId, Vec<u8>)> =
                es.iter().map(|(k, v)| (ContractId::new([*k; 32]), v.clone().unwrap())).collect();
            let it = owned.iter().map(|(k, v)| (k, v.as_slice()));
            return unit_res(if es.len() % 2 == 0 {
                StorageBatchMutate::<Code>::init_storage(tx, it)
            } else {
                StorageBatchMutate::<Code>::insert_batch(tx, it)
            });
        }
        if via != 0 && all_rem {
            let owned: Vec<ContractId> = es.iter().map(|(k, _)| ContractId::new([*k; 32])).collect();
            return unit_res(StorageBatchMutate::<Code>::remove_batch(tx, owned.iter()));
        }
        let it = es.into_iter().map(|(k, v)| {
            (
                key_bytes(k),
                match v {
                    None => WriteOperation::Remove,
                    Some(v) => WriteOperation::Insert(Value::from(v)),
                },
            )
        });
        return unit_res(BatchOperations::batch_write(tx, col, it));
    }
    let k = f[3].as_u8();
    let key = key_bytes(k);
    let ckey = ContractId::new([k; 32]);
    match (code, via) {
        (20, 0) => unit_res(KeyValueMutate::put(tx, &key, col, Value::from(f[4].as_bytes()))),
        (20, 1) => unit_res(StorageMutate::<Code>::insert(tx, &ckey, f[4].as_bytes().as_slice())),
        (20, _) => unit_res(StorageWrite::<Code>::write_bytes(tx, &ckey, &f[4].as_bytes())),
        (21, 0) => val_res(KeyValueMutate::replace(tx, &key, col, Value::from(f[4].as_bytes()))),
        (21, 1) => val_res(
            StorageMutate::<Code>::replace(tx, &ckey, f[4].as_bytes().as_slice())
                .map(|o| o.map(|c| Vec::<u8>::from(c))),
        ),
        (21, _) => val_res(StorageWrite::<Code>::replace_bytes(tx, &ckey, &f[4].as_bytes())),
        (22, _) => match KeyValueMutate::write(tx, &key, col, &f[4].as_bytes()) {
            Ok(n) => T::l(vec![T::i(0), T::n(n as u64)]),
            Err(_) => err(),
        },
        (23, 0) => val_res(KeyValueMutate::take(tx, &key, col)),
        (23, 1) => val_res(StorageMutate::<Code>::take(tx, &ckey).map(|o| o.map(|c| Vec::<u8>::from(c)))),
        (23, _) => val_res(StorageWrite::<Code>::take_bytes(tx, &ckey)),
        (24, 0) => unit_res(KeyValueMutate::delete(tx, &key, col)),
        (24, _) => unit_res(StorageMutate::<Code>::remove(tx, &ckey)),
        _ => panic!("op {code}"),
    }
}

fn level_none<S>(_tx: Tx<S>, _cx: &mut Cx) {
    unreachable!()
}

macro_rules! level_fn {
    ($name:ident, $next:ident, $can_nest:expr) => {
        fn $name<S>(mut tx: Tx<S>, cx: &mut Cx)
        where
            S: KeyValueInspect<Column = Column> + Modifiable,
        {
            while let Some(op) = cx.next() {
                let f = op.as_l();
                match f[0].as_i() {
                    0 => {
                        if $can_nest {
                            let p = policy(&f[1]);
                            cx.out.push(unit());
                            let child = Tx::transaction(&mut tx, p, Default::default());
                            $next(child, cx);
                        } else {
                            cx.out.push(na());
                        }
                    }
                    1 => {
                        let order = order_of(tx.changes());
                        let r = tx.commit();
                        cx.out.push(commit_t(r.is_ok(), order));
                        return;
                    }
                    2 => {
                        cx.out.push(unit());
                        return;
                    }
                    3 => {
                        cx.pending.push_back(tx.into_changes());
                        cx.out.push(unit());
                        return;
                    }
                    4 => match cx.pending.pop_front() {
                        None => cx.out.push(na()),
                        Some(ch) => {
                            let order = order_of(&ch);
                            let r = tx.commit_changes(ch);
                            cx.out.push(commit_t(r.is_ok(), order));
                        }
                    },
                    30 => cx.out.push(dump_changes(tx.changes())),
                    _ => {
                        let t = local(&mut tx, f);
                        cx.out.push(t);
                    }
                }
            }
        }
    };
}

level_fn!(level4, level_none, false);
level_fn!(level3, level4, true);
level_fn!(level2, level3, true);
level_fn!(level1, level2, true);

fn level0(mut base: Base, cx: &mut Cx) -> Base {
    while let Some(op) = cx.next() {
        let f = op.as_l();
        let code = f[0].as_i();
        match code {
            0 => {
                let p = policy(&f[1]);
                cx.out.push(unit());
                let child = Tx::transaction(&mut base, p, Default::default());
                level1(child, cx);
            }
            4 => match cx.pending.pop_front() {
                None => cx.out.push(na()),
                Some(ch) => {
                    let order = order_of(&ch);
                    let r = base.commit_changes(ch);
                    cx.out.push(commit_t(r.is_ok(), order));
                }
            },
            10..=14 => {
                let via = via_of(f, f[2].as_u32());
                let t = if via == 0 {
                    read_raw(&base, f)
                } else {
                    read_table(&StructuredStorage::new(&base), f, via)
                };
                cx.out.push(t);
            }
            30 => {
                let t = T::l(vec![T::i(0), base_contents(&base)]);
                cx.out.push(t);
            }
            1 | 2 | 3 | 20..=25 => cx.out.push(na()),
            _ => panic!("op {code}"),
        }
    }
    base
}

fn run_c10(input: &T) -> T {
    let input = input.clone();
    catch(move || {
        let mut cx = Cx { ops: input.as_l(), pc: 0, out: vec![], pending: VecDeque::new() };
        let base = level0(Base::default(), &mut cx);
        let mut out = cx.out;
        out.push(base_contents(&base));
        T::l(out)
    })
}

// ---------------------------------------------------------------------------------------
// generator

const OFFS: [u64; 11] = [0, 1, 2, 3, 4, 5, 7, 8, 9, u64::MAX - 1, u64::MAX];

fn bytes(rng: &mut Rng) -> T {
    let n = if rng.chance(1, 8) { 0 } else { rng.below(9) };
    T::l((0..n).map(|_| T::n(*rng.pick(&[0u8, 1, 2, 7, 0xAA, 0xFF]))).collect())
}

struct Gen<'a> {
    rng: &'a mut Rng,
    depth: usize,
    pending: usize,
    ops: Vec<T>,
    cols: u64,
    keys: u64,
}

impl<'a> Gen<'a> {
    fn ck(&mut self) -> (T, T, T) {
        let c = self.rng.below(self.cols);
        let via = if c == STRUCT_COL as u64 { self.rng.below(3) } else { 0 };
        (T::n(via), T::n(c), T::n(self.rng.below(self.keys)))
    }
    fn read(&mut self) {
        let (via, c, k) = self.ck();
        let code = 10 + self.rng.below(5);
        let mut v = vec![T::n(code), via, c, k];
        if code >= 13 {
            let off = if self.rng.chance(1, 10) { *self.rng.pick(&OFFS[9..]) } else { *self.rng.pick(&OFFS[..9]) };
            v.push(T::n(off));
            v.push(T::n(self.rng.below(10)));
        }
        self.ops.push(T::l(v));
    }
    fn write(&mut self) {
        let (via, c, k) = self.ck();
        let code = 20 + self.rng.below(6);
        let op = match code {
            20 | 21 | 22 => T::l(vec![T::n(code), via, c, k, bytes(self.rng)]),
            23 | 24 => T::l(vec![T::n(code), via, c, k]),
            _ => {
                let n = self.rng.below(4);
                let kind = self.rng.below(3);
                let es = (0..n)
                    .map(|_| {
                        let k = T::n(self.rng.below(self.keys));
                        let ins = match kind {
                            0 => true,
                            1 => false,
                            _ => self.rng.chance(1, 2),
                        };
                        if ins { T::l(vec![k, T::i(1), bytes(self.rng)]) } else { T::l(vec![k, T::i(0)]) }
                    })
                    .collect();
                T::l(vec![T::n(25u8), via, c, T::l(es)])
            }
        };
        self.ops.push(op);
    }
    fn begin(&mut self) {
        let p = if self.rng.chance(3, 5) { 0u8 } else { 1 };
        self.ops.push(T::l(vec![T::i(0), T::n(p)]));
        self.depth += 1;
    }
    fn end(&mut self, code: u8) {
        self.ops.push(T::l(vec![T::n(code)]));
        self.depth -= 1;
        if code == 3 {
            self.pending += 1;
        }
    }
    fn merge(&mut self) {
        self.ops.push(T::l(vec![T::i(4)]));
        self.pending -= 1;
    }
    fn dump(&mut self) {
        self.ops.push(T::l(vec![T::i(30)]));
    }
    fn step(&mut self) {
        let r = self.rng.below(100);
        if r < 30 {
            self.read();
        } else if r < 62 {
            if self.depth > 0 { self.write() } else { self.begin() }
        } else if r < 72 {
            if self.depth < 4 { self.begin() } else { self.read() }
        } else if r < 82 {
            if self.depth > 0 { self.end(1) } else { self.read() }
        } else if r < 85 {
            if self.depth > 0 { self.end(2) } else { self.read() }
        } else if r < 90 {
            if self.depth > 0 { self.end(3) } else { self.read() }
        } else if r < 96 {
            if self.pending > 0 { self.merge(); self.dump() } else { self.read() }
        } else {
            self.dump();
        }
    }
    /// two sibling transactions over one Fail/Overwrite parent, merged one after the other
    fn siblings(&mut self) {
        if self.depth >= 3 {
            return;
        }
        self.begin();
        for _ in 0..self.rng.below(3) {
            self.write();
        }
        for _ in 0..2 {
            self.begin();
            for _ in 0..1 + self.rng.below(4) {
                self.write();
            }
            if self.rng.chance(1, 3) {
                self.read();
            }
            self.end(3);
        }
        while self.pending > 0 {
            self.merge();
            self.dump();
        }
        for _ in 0..self.rng.below(3) {
            self.read();
        }
    }
}

fn program(rng: &mut Rng, len: u64, cols: u64, keys: u64) -> T {
    let mut g = Gen { rng, depth: 0, pending: 0, ops: vec![], cols, keys };
    while (g.ops.len() as u64) < len {
        if g.rng.chance(1, 12) { g.siblings() } else { g.step() }
    }
    // mostly wind the open transactions up by committing, so the base sees the writes
    while g.depth > 0 && g.rng.chance(4, 5) {
        let code = if g.rng.chance(4, 5) { 1 } else { 2 };
        g.end(code);
    }
    T::l(g.ops)
}

/// read_exact / read_zerofill boundary sweep: value of length `l` living in the base, in the
/// own change set or in the parent's change set, read at `off` with a buffer of `n`
fn sweep() -> Vec<T> {
    let op = |v: Vec<u64>| T::l(v.into_iter().map(T::n).collect());
    let mut cases = vec![];
    for l in 0..=4u64 {
        let val = T::l((1..=l).map(T::n).collect());
        for off in [0, 1, 2, 3, 4, 5, u64::MAX - 1, u64::MAX] {
            for n in 0..=5u64 {
                for place in 0..3 {
                    for via in [0u64, 1] {
                        let put = T::l(vec![T::n(20u8), T::n(via), T::n(1u8), T::n(2u8), val.clone()]);
                        let reads = vec![op(vec![13, via, 1, 2, off, n]), op(vec![14, via, 1, 2, off, n])];
                        let mut ops = vec![op(vec![0, 1]), put];
                        match place {
                            0 => ops.push(op(vec![1])),
                            1 => {}
                            _ => ops.push(op(vec![0, 0])),
                        }
                        ops.extend(reads);
                        cases.push(T::l(ops));
                    }
                }
            }
        }
    }
    cases
}

fn gen(prop: &str, rng: &mut Rng, n: u64, tier: &str) -> Vec<T> {
    assert_eq!(prop, "C10");
    let mut cases = sweep();
    for i in 0..n {
        let len = if tier == "thorough" { rng.range(10, 80) } else { rng.range(5, 45) };
        // a third of the programs on a tiny universe so that collisions dominate
        let (cols, keys) = if i % 3 == 0 { (2, 2) } else { (3, 6) };
        cases.push(program(rng, len, cols, keys));
    }
    cases
}

fn run(prop: &str, input: &T) -> T {
    assert_eq!(prop, "C10");
    run_c10(input)
}

fn main() {
    vcommon::main_protocol(gen, run);
}
