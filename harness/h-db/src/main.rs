//! C09: the real `fuel_core::database::Database<Description>` (in-memory, RocksDB NoRewind,
//! RocksDB RewindFullRange in temp dirs under /verif/target/tmp) driven with change sets that
//! insert 0/1/2 rows into (and remove rows from) the table the description derives its
//! height from; rollbacks of the last block; reopen.
//!
//! input : (desc backend (op ...))
//!   desc    0 OnChain (FuelBlocks keys)  1 OffChain (FuelBlockIdsToHeights values)
//!           2 Relayer (EventsHistory keys, u64)  3 GasPriceDatabase (GasPriceMetadata keys)
//!           4 CompressionDatabase (CompressedBlocks keys)
//!   backend 0 MemoryStore  1 RocksDB NoRewind  2 RocksDB RewindFullRange
//!   op      (0 (inserted heights) (removed heights) poison)  commit_changes
//!           (1) rollback_last_block      (2) reopen (drop + open the same directory / store)
//!   poison = 1: the change set also touches the metadata key, so that the backend commit of
//!   [changes, metadata update] reports ConflictingChanges (only when exactly one height row)
//! output: ((0 latest meta) (tag latest meta) ...)  one entry for the fresh database and one
//!   per op; latest = HistoricalView::latest_height, meta = latest_height_from_metadata;
//!   tag 0 ok, 1 MultipleHeightsInCommit, 2 HeightsAreNotLinked, 3 NewHeightIsNotSet,
//!   4 FailedToAdvanceHeight, 5 ConflictingChanges, 6 rollback refused, 8/9 other error.
use fuel_core::{
    database::{
        database_description::{
            compression::CompressionDatabase, gas_price::GasPriceDatabase, off_chain::OffChain,
            on_chain::OnChain, relayer::Relayer, DatabaseDescription, DatabaseHeight,
        },
        Database,
    },
    fuel_core_graphql_api::storage::blocks::FuelBlockIdsToHeights,
    state::{
        historical_rocksdb::StateRewindPolicy,
        rocks_db::{ColumnsPolicy, DatabaseConfig},
    },
};
use fuel_core_compression_service::storage::CompressedBlocks;
use fuel_core_gas_price_service::common::fuel_core_storage_adapter::storage::GasPriceMetadata;
use fuel_core_relayer::storage::EventsHistory;
use fuel_core_storage::{
    kv_store::{KeyValueInspect, KeyValueMutate, Value},
    structured_storage::TableWithBlueprint,
    tables::FuelBlocks,
    transactional::{HistoricalView, Modifiable, StorageTransaction, WriteTransaction},
    Error as StorageError, StorageAsMut,
};
use fuel_core_types::{
    blockchain::{block::CompressedBlock, primitives::DaBlockHeight},
    fuel_types::BlockHeight,
};
use std::{
    path::PathBuf,
    sync::atomic::{AtomicU64, Ordering},
};
use vcommon::{catch, Rng, T};

static COUNTER: AtomicU64 = AtomicU64::new(0);

fn temp_dir() -> PathBuf {
    let n = COUNTER.fetch_add(1, Ordering::Relaxed);
    let p = PathBuf::from(format!("/verif/target/tmp/h-db-{}-{}", std::process::id(), n));
    let _ = std::fs::remove_dir_all(&p);
    std::fs::create_dir_all(&p).expect("temp dir");
    p
}

fn config() -> DatabaseConfig {
    DatabaseConfig { cache_capacity: None, max_fds: 128, columns_policy: ColumnsPolicy::Lazy }
}

fn err_tag(e: &StorageError) -> i128 {
    // variant names (never message text) taken from the Debug form
    let d = format!("{e:?}");
    if !d.starts_with("DatabaseError(") {
        return 9;
    }
    for (name, tag) in [
        ("MultipleHeightsInCommit", 1),
        ("HeightsAreNotLinked", 2),
        ("NewHeightIsNotSet", 3),
        ("FailedToAdvanceHeight", 4),
        ("ConflictingChanges", 5),
    ] {
        if d["DatabaseError(".len()..].starts_with(name) {
            return tag;
        }
    }
    8
}

macro_rules! runner {
    ($fname:ident, $D:ty, $H:ty, $to_h:expr, $ins:expr, $rem_col:expr, $key:expr) => {
        fn $fname(backend: u64, ops: &[T]) -> T {
            type Db = Database<$D>;
            let to_h = $to_h;
            let obs = |tag: i128, db: &Db| -> T {
                let latest: Option<u64> = HistoricalView::latest_height(db).map(|h| DatabaseHeight::as_u64(&h));
                let meta = match db.latest_height_from_metadata() {
                    Ok(m) => T::opt(m.map(|h| DatabaseHeight::as_u64(&h))),
                    Err(_) => T::l(vec![T::i(-9)]),
                };
                T::l(vec![T::i(tag), T::opt(latest), meta])
            };
            let dir = if backend == 0 { None } else { Some(temp_dir()) };
            let policy = if backend == 2 { StateRewindPolicy::RewindFullRange } else { StateRewindPolicy::NoRewind };
            let open = |dir: &Option<PathBuf>| -> Db {
                match dir {
                    None => Db::in_memory(),
                    Some(p) => Db::open_rocksdb(p, policy, config()).expect("open rocksdb"),
                }
            };
            let mut db = open(&dir);
            let mut out = vec![obs(0, &db)];
            for op in ops {
                let f = op.as_l();
                match f[0].as_i() {
                    0 => {
                        let inserted: Vec<u64> = f[1].as_l().iter().map(|x| x.as_u64()).collect();
                        let removed: Vec<u64> = f[2].as_l().iter().map(|x| x.as_u64()).collect();
                        let poison = f[3].as_bool() && inserted.len() == 1;
                        let changes = {
                            let mut tx: StorageTransaction<&mut Db> = db.write_transaction();
                            for h in &removed {
                                let hh: $H = to_h(*h);
                                let key: Vec<u8> = $key(hh);
                                tx.delete(&key, $rem_col).expect("delete");
                            }
                            for (i, h) in inserted.iter().enumerate() {
                                let hh: $H = to_h(*h);
                                $ins(&mut tx, i, hh);
                            }
                            if poison {
                                // touch the metadata key without changing it: write back what is there
                                let col = <$D as DatabaseDescription>::metadata_column();
                                match KeyValueInspect::get(&tx, &[], col).expect("metadata") {
                                    Some(v) => KeyValueMutate::put(&mut tx, &[], col, v).expect("poison"),
                                    None => KeyValueMutate::delete(&mut tx, &[], col).expect("poison"),
                                }
                            }
                            tx.into_changes()
                        };
                        let r = db.commit_changes(changes);
                        let tag = match &r {
                            Ok(()) => 0,
                            Err(e) => err_tag(e),
                        };
                        out.push(obs(tag, &db));
                    }
                    1 => {
                        let r = db.rollback_last_block();
                        out.push(obs(if r.is_ok() { 0 } else { 6 }, &db));
                    }
                    2 => {
                        match &dir {
                            None => {
                                let data = db.inner_storage().data.clone();
                                drop(db);
                                db = Db::new(data);
                            }
                            Some(_) => {
                                drop(db);
                                db = open(&dir);
                            }
                        }
                        out.push(obs(0, &db));
                    }
                    k => panic!("op {k}"),
                }
            }
            drop(db);
            if let Some(p) = dir {
                let _ = std::fs::remove_dir_all(p);
            }
            T::l(out)
        }
    };
}

fn h32(h: u64) -> BlockHeight {
    BlockHeight::from(u32::try_from(h).expect("height fits u32"))
}
fn h64(h: u64) -> DaBlockHeight {
    DaBlockHeight(h)
}
fn key32(h: BlockHeight) -> Vec<u8> {
    u32::from(h).to_be_bytes().to_vec()
}
fn key64(h: DaBlockHeight) -> Vec<u8> {
    h.0.to_be_bytes().to_vec()
}
/// OffChain rows are (block id -> height); removal rows address the id derived from the height
fn block_id(i: u64) -> fuel_core_types::fuel_types::Bytes32 {
    let mut b = [0u8; 32];
    b[24..].copy_from_slice(&i.to_be_bytes());
    b.into()
}

runner!(
    run_on_chain, OnChain, BlockHeight, h32,
    |tx: &mut StorageTransaction<&mut Database<OnChain>>, _i: usize, h: BlockHeight| {
        tx.storage_as_mut::<FuelBlocks>().insert(&h, &CompressedBlock::default()).expect("insert");
    },
    <FuelBlocks as TableWithBlueprint>::column(), key32
);
runner!(
    run_off_chain, OffChain, BlockHeight, h32,
    |tx: &mut StorageTransaction<&mut Database<OffChain>>, i: usize, h: BlockHeight| {
        // two rows may carry the same height: the key is the row index
        let id = block_id(1000 + i as u64);
        tx.storage_as_mut::<FuelBlockIdsToHeights>().insert(&id.into(), &h).expect("insert");
    },
    <FuelBlockIdsToHeights as TableWithBlueprint>::column(),
    |h: BlockHeight| block_id(u32::from(h) as u64).to_vec()
);
runner!(
    run_relayer, Relayer, DaBlockHeight, h64,
    |tx: &mut StorageTransaction<&mut Database<Relayer>>, _i: usize, h: DaBlockHeight| {
        tx.storage_as_mut::<EventsHistory>().insert(&h, &[]).expect("insert");
    },
    <EventsHistory as TableWithBlueprint>::column(), key64
);
runner!(
    run_gas_price, GasPriceDatabase, BlockHeight, h32,
    |tx: &mut StorageTransaction<&mut Database<GasPriceDatabase>>, _i: usize, h: BlockHeight| {
        // the commit only decodes the keys of this table
        tx.put(&key32(h), <GasPriceMetadata as TableWithBlueprint>::column(), Value::from(vec![0u8; 4]))
            .expect("put");
    },
    <GasPriceMetadata as TableWithBlueprint>::column(), key32
);
runner!(
    run_compression, CompressionDatabase, BlockHeight, h32,
    |tx: &mut StorageTransaction<&mut Database<CompressionDatabase>>, _i: usize, h: BlockHeight| {
        tx.storage_as_mut::<CompressedBlocks>().insert(&h, &Default::default()).expect("insert");
    },
    <CompressedBlocks as TableWithBlueprint>::column(), key32
);

fn run_c09(input: &T) -> T {
    let input = input.clone();
    catch(move || {
        let f = input.as_l();
        let desc = f[0].as_u64();
        let backend = f[1].as_u64();
        let ops = f[2].as_l();
        match desc {
            0 => run_on_chain(backend, ops),
            1 => run_off_chain(backend, ops),
            2 => run_relayer(backend, ops),
            3 => run_gas_price(backend, ops),
            4 => run_compression(backend, ops),
            d => panic!("description {d}"),
        }
    })
}

// ---------------------------------------------------------------------------------------
// generator

fn hmax(desc: u64) -> u64 {
    if desc == 2 { u64::MAX } else { u32::MAX as u64 }
}

fn commit(ins: &[u64], rem: &[u64], poison: bool) -> T {
    T::l(vec![T::i(0), T::list_n(ins), T::list_n(rem), T::b(poison)])
}

/// one history: tracks the height the database should be at, so that most commits are linked
fn history(rng: &mut Rng, desc: u64, backend: u64, len: u64) -> T {
    let max = hmax(desc);
    let mut ops = vec![];
    let mut cur: Option<u64> = None;
    // starting points: genesis, a snapshot height, right below the maximum
    let start = match rng.below(6) {
        0 | 1 => 0,
        2 => 1,
        3 => 5,
        4 => max - rng.below(3),
        _ => rng.below(1000),
    };
    for _ in 0..len {
        let r = rng.below(100);
        // at the maximum the "next" height repeats the maximum: advance overflow
        let next = match cur {
            None => start,
            Some(c) => c.saturating_add(1).min(max),
        };
        if r < 45 {
            // linked commit (at the maximum this repeats the height: advance overflow)
            let rem = if rng.chance(1, 5) { vec![next.saturating_sub(rng.below(3))] } else { vec![] };
            let poison = rng.chance(1, 12);
            ops.push(commit(&[next], &rem, poison));
            if !poison || backend == 2 {
                if cur.is_none() || cur.unwrap() < max {
                    cur = Some(next);
                }
            }
        } else if r < 55 {
            // no height row (with and without removal rows)
            let rem = if rng.chance(1, 2) { vec![next, next.saturating_sub(1)] } else { vec![] };
            ops.push(commit(&[], &rem, rng.chance(1, 10)));
        } else if r < 67 {
            // unlinked: repeat, skip, stale, far away
            let h = match rng.below(5) {
                0 => cur.unwrap_or(start),
                1 => next.saturating_add(1).min(max),
                2 => cur.unwrap_or(start).saturating_sub(1),
                3 => rng.below(max.min(1 << 20)),
                _ => max,
            };
            ops.push(commit(&[h], &[], false));
            if cur.is_none() {
                cur = Some(h);
            }
        } else if r < 77 {
            // two rows
            let a = next;
            let b = match rng.below(3) {
                0 => next.saturating_add(1).min(max),
                1 => next, // same height twice: one row for key tables, two rows off-chain
                _ => rng.below(max.min(1 << 20)),
            };
            ops.push(commit(&[a, b], &[], rng.chance(1, 10)));
            if a == b && desc != 1 && cur.map_or(true, |c| c < max) {
                cur = Some(a);
            }
        } else if r < 90 {
            ops.push(T::l(vec![T::i(1)]));
            if backend == 2 {
                if let Some(c) = cur {
                    cur = c.checked_sub(1);
                }
            }
        } else {
            ops.push(T::l(vec![T::i(2)]));
        }
    }
    T::l(vec![T::n(desc), T::n(backend), T::l(ops)])
}

/// directed short cases: every (previous, new) combination around the boundaries
fn directed(desc: u64, backend: u64, tails: &[u32]) -> Vec<T> {
    let max = hmax(desc);
    let mut cases = vec![];
    let firsts: Vec<Option<u64>> = vec![None, Some(0), Some(1), Some(7), Some(max - 1), Some(max)];
    for first in &firsts {
        let mut prefix = vec![];
        if let Some(h) = first {
            prefix.push(commit(&[*h], &[], false));
        }
        let p = first.unwrap_or(3);
        let seconds: Vec<Vec<u64>> = vec![
            vec![],
            vec![p],
            vec![p.saturating_add(1)],
            vec![p.saturating_add(2)],
            vec![p.saturating_sub(1)],
            vec![0],
            vec![max],
            vec![p.saturating_add(1), p.saturating_add(2)],
            vec![p.saturating_add(1), p.saturating_add(1)],
        ];
        for s in &seconds {
            let s: Vec<u64> = s.iter().map(|h| (*h).min(max)).collect();
            let s = &s;
            for tail in tails.iter().copied() {
                let mut ops = prefix.clone();
                ops.push(commit(s, &[], false));
                match tail {
                    0 => {}
                    1 => ops.push(T::l(vec![T::i(2)])),
                    2 => {
                        ops.push(T::l(vec![T::i(1)]));
                        ops.push(T::l(vec![T::i(2)]));
                    }
                    _ => {
                        ops.push(T::l(vec![T::i(1)]));
                        ops.push(commit(&[p.saturating_add(1).min(max)], &[p], false));
                        ops.push(T::l(vec![T::i(1)]));
                        ops.push(T::l(vec![T::i(1)]));
                        ops.push(commit(&[], &[], false));
                    }
                }
                cases.push(T::l(vec![T::n(desc), T::n(backend), T::l(ops)]));
            }
        }
    }
    cases
}

fn gen(prop: &str, rng: &mut Rng, n: u64, tier: &str) -> Vec<T> {
    assert_eq!(prop, "C09");
    let mut cases = vec![];
    for desc in 0..5 {
        // a RocksDB case costs ~0.5 s (open, column families, reopen), an in-memory one ~0.5 ms
        cases.extend(directed(desc, 0, &[0, 1, 2, 3]));
        if tier == "thorough" {
            cases.extend(directed(desc, 2, &[0, 1, 2, 3]));
            cases.extend(directed(desc, 1, &[0, 1, 2, 3]));
        } else if desc == 0 {
            cases.extend(directed(desc, 2, &[2, 3]));
        } else if desc == 2 {
            cases.extend(directed(desc, 2, &[2]));
        }
    }
    for i in 0..n {
        let desc = i % 5;
        let backend = match (i / 5) % 20 {
            0 | 1 => 2,
            2 => 1,
            3 | 4 | 5 if tier == "thorough" => 2,
            _ => 0,
        };
        let len = if tier == "thorough" { rng.range(3, 30) } else { rng.range(2, 14) };
        cases.push(history(rng, desc, backend, len));
    }
    cases
}

fn run(prop: &str, input: &T) -> T {
    assert_eq!(prop, "C09");
    run_c09(input)
}

fn main() {
    vcommon::main_protocol(gen, run);
}
