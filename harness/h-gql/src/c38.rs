//! C38: `fuel_core::schema::query_pagination` (private; reached through the hook
//! `schema::verif_hooks::paginate_vec`) over in-memory key lists.
//!
//! Inputs
//!   `(0 coll fail after before first last)`  one request
//!        coll   list of u64 keys in forward order
//!        fail   `()` or `(i)`: item i of the entries stream is a storage error
//!        after/before  `()` no cursor, `(k)` cursor string of key k, `(-1)` undecodable string
//!        first/last    `()` or `(z)` with z an i32
//!   `(1 coll size dir)`  full walk from the start (dir 0: first/after) or from the end
//!        (dir 1: last/before) following the cursor of the last returned edge while the flag
//!        in iteration direction (`has_next_page`, as the code defines it) is set
//! Observations
//!   request: `(0 ((edges) has_previous_page has_next_page))` or `(1 error_variant)`
//!   walk:    `(status (page ...))`, status 0 finished, 1 error, 2 stuck, 3 fuel exhausted
use fuel_core::schema::verif_hooks::{paginate_vec, PageResult};
use vcommon::{catch, Rng, T};

/// Error variants by the fixed message prefixes of schema.rs / async_graphql::query_with.
fn error_variant(msg: &str) -> u32 {
    if msg.starts_with("Either first") {
        1
    } else if msg.starts_with("After") {
        2
    } else if msg.starts_with("Before") {
        3
    } else if msg.starts_with("The queries for the whole range") {
        4
    } else if msg.starts_with("The \"first\" parameter") {
        5
    } else if msg.starts_with("The \"last\" parameter") {
        6
    } else if msg.starts_with("Either `first` or `last`") {
        9
    } else if msg.contains("invalid digit") || msg.contains("cannot parse integer") || msg.contains("number too large") {
        7
    } else {
        8
    }
}

fn page_t(p: &(Vec<u64>, bool, bool)) -> T {
    T::l(vec![T::list_n(&p.0), T::b(p.1), T::b(p.2)])
}

fn result_t(r: &PageResult) -> T {
    match r {
        Ok(p) => T::l(vec![T::i(0), page_t(p)]),
        Err(m) => T::l(vec![T::i(1), T::n(error_variant(m))]),
    }
}

fn cursor(t: &T) -> Option<String> {
    t.as_l().first().map(|x| {
        let v = x.as_i();
        if v < 0 {
            "not-a-key".to_string()
        } else {
            (v as u64).to_string()
        }
    })
}

fn count(t: &T) -> Option<i32> {
    t.as_l().first().map(|x| i32::try_from(x.as_i()).expect("count out of i32"))
}

fn coll_of(t: &T) -> Vec<u64> {
    t.as_l().iter().map(|x| x.as_u64()).collect()
}

pub fn run(input: &T) -> T {
    let input = input.clone();
    catch(move || {
        let f = input.as_l();
        match f[0].as_i() {
            0 => {
                let coll = coll_of(&f[1]);
                let fail = f[2].as_l().first().map(|x| x.as_usize());
                let r = paginate_vec(&coll, fail, cursor(&f[3]), cursor(&f[4]), count(&f[5]), count(&f[6]));
                result_t(&r)
            }
            1 => {
                let coll = coll_of(&f[1]);
                let size = i32::try_from(f[2].as_i()).expect("size");
                let rev = f[3].as_i() == 1;
                let mut cur: Option<u64> = None;
                let mut pages = vec![];
                let mut status = 3u32;
                for _ in 0..coll.len() + 2 {
                    let c = cur.map(|k| k.to_string());
                    let r = if rev {
                        paginate_vec(&coll, None, None, c, None, Some(size))
                    } else {
                        paginate_vec(&coll, None, c, None, Some(size), None)
                    };
                    match r {
                        Err(_) => {
                            status = 1;
                            break;
                        }
                        Ok(p) => {
                            pages.push(page_t(&p));
                            if !p.2 {
                                status = 0;
                                break;
                            }
                            match p.0.last() {
                                None => {
                                    status = 2;
                                    break;
                                }
                                Some(k) => cur = Some(*k),
                            }
                        }
                    }
                }
                T::l(vec![T::n(status), T::l(pages)])
            }
            k => panic!("bad kind {k}"),
        }
    })
}

fn opt_i(x: Option<i128>) -> T {
    match x {
        None => T::l(vec![]),
        Some(v) => T::l(vec![T::i(v)]),
    }
}

fn req(coll: &[u64], fail: Option<u64>, after: Option<i128>, before: Option<i128>, first: Option<i128>, last: Option<i128>) -> T {
    T::l(vec![T::i(0), T::list_n(coll), T::opt(fail), opt_i(after), opt_i(before), opt_i(first), opt_i(last)])
}

fn walk(coll: &[u64], size: u64, rev: bool) -> T {
    T::l(vec![T::i(1), T::list_n(coll), T::n(size), T::b(rev)])
}

/// one request in direction `rev` with an optional cursor
fn dreq(coll: &[u64], fail: Option<u64>, cur: Option<u64>, size: i128, rev: bool) -> T {
    let c = cur.map(|k| k as i128);
    if rev {
        req(coll, fail, None, c, None, Some(size))
    } else {
        req(coll, fail, c, None, Some(size), None)
    }
}

const I32MAX: i128 = i32::MAX as i128;
const I32MIN: i128 = i32::MIN as i128;

pub fn gen(rng: &mut Rng, n: u64, tier: &str) -> Vec<T> {
    let thorough = tier == "thorough";
    let mut cases = vec![];
    let max_len: u64 = if thorough { 9 } else { 7 };
    let max_size: u64 = if thorough { 10 } else { 8 };

    // (a) bounded-exhaustive: canonical collections [2,4,..,2n] (every order type of a
    //     collection + cursor position), all page sizes, every cursor present (even) and
    //     absent (odd, incl. before the first and after the last key), both directions
    for len in 0..=max_len {
        let coll: Vec<u64> = (1..=len).map(|i| 2 * i).collect();
        for size in 0..=max_size {
            for rev in [false, true] {
                cases.push(walk(&coll, size, rev));
                cases.push(dreq(&coll, None, None, size as i128, rev));
                for c in 1..=2 * len + 1 {
                    cases.push(dreq(&coll, None, Some(c), size as i128, rev));
                }
                // injected storage failure at every stream position (no cursor / a present cursor)
                for i in 0..=len {
                    cases.push(dreq(&coll, Some(i), None, size as i128, rev));
                    if len >= 2 {
                        cases.push(dreq(&coll, Some(i), Some(4), size as i128, rev));
                    }
                }
            }
        }
    }
    // (b) thorough: every subset of {1..8} as collection
    if thorough {
        for mask in 0u32..256 {
            let coll: Vec<u64> = (0..8).filter(|b| mask >> b & 1 == 1).map(|b| b as u64 + 1).collect();
            for size in 0..=9u64 {
                for rev in [false, true] {
                    cases.push(walk(&coll, size, rev));
                    for c in 0..=9u64 {
                        cases.push(dreq(&coll, None, Some(c), size as i128, rev));
                    }
                }
            }
        }
    }
    // (c) argument validation: every presence pattern of (after, before, first, last) with
    //     good / bad cursors and negative / zero / positive / extreme counts
    let coll: Vec<u64> = vec![2, 4, 6];
    let curs: [Option<i128>; 4] = [None, Some(4), Some(5), Some(-1)];
    let cnts: [Option<i128>; 7] = [None, Some(I32MIN), Some(-1), Some(0), Some(2), Some(5), Some(I32MAX)];
    for a in curs {
        for b in curs {
            for f in cnts {
                for l in cnts {
                    cases.push(req(&coll, None, a, b, f, l));
                }
            }
        }
    }
    // (d) random: strictly sorted collections over small and extreme keys; a tenth unsorted or
    //     with duplicate keys (model equality only); random argument patterns
    for _ in 0..n {
        let len = rng.below(if thorough { 14 } else { 10 });
        let mut coll: Vec<u64> = (0..len)
            .map(|_| match rng.below(4) {
                0 => u64::MAX - rng.below(6),
                1 => rng.next(),
                _ => rng.below(24),
            })
            .collect();
        if !rng.chance(1, 10) {
            coll.sort();
            coll.dedup();
        }
        let pick_cur = |rng: &mut Rng, coll: &[u64]| -> Option<i128> {
            match rng.below(8) {
                0 => None,
                1 => Some(-1),
                2 => Some(rng.below(26) as i128),
                3 => Some((u64::MAX - rng.below(7)) as i128),
                _ if !coll.is_empty() => Some(*rng.pick(coll) as i128),
                _ => Some(0),
            }
        };
        let pick_cnt = |rng: &mut Rng| -> i128 {
            match rng.below(12) {
                0 => -1,
                1 => I32MAX,
                2 => I32MIN,
                3 => 0,
                _ => rng.below(12) as i128,
            }
        };
        match rng.below(10) {
            0 => cases.push(walk(&coll, rng.range(0, 6), rng.chance(1, 2))),
            1 | 2 => {
                // arbitrary presence pattern
                let a = if rng.chance(1, 2) { pick_cur(rng, &coll) } else { None };
                let b = if rng.chance(1, 2) { pick_cur(rng, &coll) } else { None };
                let f = if rng.chance(1, 2) { Some(pick_cnt(rng)) } else { None };
                let l = if rng.chance(1, 2) { Some(pick_cnt(rng)) } else { None };
                let fail = if rng.chance(1, 6) { Some(rng.below(6)) } else { None };
                cases.push(req(&coll, fail, a, b, f, l));
            }
            _ => {
                let rev = rng.chance(1, 2);
                let c = pick_cur(rng, &coll);
                let s = pick_cnt(rng);
                let fail = if rng.chance(1, 8) { Some(rng.below(8)) } else { None };
                if rev {
                    cases.push(req(&coll, fail, None, c, None, Some(s)));
                } else {
                    cases.push(req(&coll, fail, c, None, Some(s), None));
                }
            }
        }
    }
    cases
}
