//! C37: coins-to-spend selection on real databases.
//!
//! input  `(mode world owner asset base target max partial excl)`
//!   mode   0 indexed: `select_coins_to_spend` over the real `coins_to_spend_index` iterators
//!          1 `largest_first`   2 `random_improve`   (both through a real `ReadView`)
//!   world  list of `(rid kind owner asset amount retryable)`: the unspent resources; kind 0 coin
//!          (UtxoId = tx id with last byte rid, output 0), kind 1 message (nonce with last byte rid,
//!          retryable = has data). The off-chain tables are filled by the real
//!          `process_executor_events` from CoinCreated / MessageImported events, the on-chain
//!          Coins / Messages tables by plain inserts.
//!   excl   list of rids (resolved to utxo ids / nonces by the kind in the world)
//! output `(stream result)`
//!   stream the admissible-coin stream the algorithm reads, as `(rid amount)`: mode 0 the index
//!          range in ascending key order, modes 1/2 `AssetQuery::coins()`
//!   result `(0 ((rid amount) ...))` or `(1 variant)`: 1 InsufficientCoins, 2 MaxCoinsReached,
//!          3 UnexpectedInternalState, 4 TooManyCoinsSelected, 9 anything else
use fuel_core::{
    coins_query::{largest_first, random_improve, select_coins_to_spend, CoinsQueryError, SpendQuery},
    database::{
        database_description::{off_chain::OffChain, on_chain::OnChain},
        Database,
    },
    fuel_core_graphql_api::{
        database::ReadDatabase, ports::OffChainDatabase, storage::coins::CoinsToSpendIndexKey,
        worker_service::process_executor_events,
    },
    query::asset_query::{AssetQuery, AssetSpendTarget, Exclude},
};
use fuel_core_storage::{
    tables::{Coins, Messages},
    transactional::{AtomicView, Modifiable, WriteTransaction},
    StorageAsMut,
};
use fuel_core_types::{
    entities::{
        coins::{
            coin::{Coin, CompressedCoin},
            CoinId, CoinType,
        },
        relayer::message::{Message, MessageV1},
    },
    fuel_tx::{Address, AssetId, Bytes32, UtxoId},
    fuel_types::Nonce,
    services::executor::Event,
};
use futures::TryStreamExt;
use std::borrow::Cow;
use vcommon::{catch, Rng, T};

pub fn b32(x: u64) -> [u8; 32] {
    let mut b = [0u8; 32];
    b[24..].copy_from_slice(&x.to_be_bytes());
    b
}
pub fn last(b: &[u8]) -> u64 {
    let mut x = [0u8; 8];
    x.copy_from_slice(&b[b.len() - 8..]);
    u64::from_be_bytes(x)
}

#[derive(Clone, Debug)]
pub struct Res {
    pub rid: u64,
    pub kind: u64,
    pub owner: u64,
    pub asset: u64,
    pub amount: u64,
    pub retry: bool,
}

pub fn res_of(t: &T) -> Res {
    let f = t.as_l();
    Res {
        rid: f[0].as_u64(),
        kind: f[1].as_u64(),
        owner: f[2].as_u64(),
        asset: f[3].as_u64(),
        amount: f[4].as_u64(),
        retry: f[5].as_bool(),
    }
}

pub fn coin_of(r: &Res) -> Coin {
    Coin {
        utxo_id: UtxoId::new(Bytes32::from(b32(r.rid)), 0),
        owner: Address::from(b32(r.owner)),
        amount: r.amount,
        asset_id: AssetId::from(b32(r.asset)),
        tx_pointer: Default::default(),
    }
}

pub fn message_of(r: &Res) -> Message {
    MessageV1 {
        sender: Default::default(),
        recipient: Address::from(b32(r.owner)),
        nonce: Nonce::from(b32(r.rid)),
        amount: r.amount,
        data: if r.retry { vec![1u8] } else { vec![] },
        da_height: 1u64.into(),
    }
    .into()
}

pub fn create_event(r: &Res) -> Event {
    if r.kind == 0 {
        Event::CoinCreated(coin_of(r))
    } else {
        Event::MessageImported(message_of(r))
    }
}

fn key_t(k: &CoinsToSpendIndexKey) -> T {
    match k {
        CoinsToSpendIndexKey::Coin { amount, utxo_id, .. } => {
            T::l(vec![T::n(last(utxo_id.tx_id().as_ref())), T::n(*amount)])
        }
        CoinsToSpendIndexKey::Message { amount, nonce, .. } => T::l(vec![T::n(last(nonce.as_ref())), T::n(*amount)]),
    }
}

fn cointype_t(c: &CoinType) -> T {
    match c {
        CoinType::Coin(c) => T::l(vec![T::n(last(c.utxo_id.tx_id().as_ref())), T::n(c.amount)]),
        CoinType::MessageCoin(m) => T::l(vec![T::n(last(m.nonce.as_ref())), T::n(m.amount)]),
    }
}

fn err_t(e: &CoinsQueryError) -> T {
    let v = match e {
        CoinsQueryError::InsufficientCoins { .. } => 1,
        CoinsQueryError::MaxCoinsReached { .. } => 2,
        CoinsQueryError::UnexpectedInternalState(_) => 3,
        CoinsQueryError::TooManyCoinsSelected { .. } => 4,
        _ => 9,
    };
    T::l(vec![T::i(1), T::i(v)])
}

pub fn run(input: &T) -> T {
    let input = input.clone();
    catch(move || {
        let f = input.as_l();
        let mode = f[0].as_u64();
        let world: Vec<Res> = f[1].as_l().iter().map(res_of).collect();
        let owner = Address::from(b32(f[2].as_u64()));
        let asset = AssetId::from(b32(f[3].as_u64()));
        let base = AssetId::from(b32(f[4].as_u64()));
        let target = f[5].as_u128();
        let max = f[6].as_u16();
        let partial = f[7].as_bool();
        let excl_ids: Vec<u64> = f[8].as_l().iter().map(|x| x.as_u64()).collect();

        // databases
        let mut on_db = Database::<OnChain>::in_memory();
        let mut off_db = Database::<OffChain>::in_memory();
        {
            let mut tx = on_db.write_transaction();
            for r in &world {
                if r.kind == 0 {
                    let c = coin_of(r);
                    let mut cc = CompressedCoin::default();
                    cc.set_owner(c.owner);
                    cc.set_amount(c.amount);
                    cc.set_asset_id(c.asset_id);
                    tx.storage_as_mut::<Coins>().insert(&c.utxo_id, &cc).expect("coin insert");
                } else {
                    let m = message_of(r);
                    tx.storage_as_mut::<Messages>().insert(m.nonce(), &m).expect("message insert");
                }
            }
            let ch = tx.into_changes();
            on_db.commit_changes(ch).expect("on-chain commit");
        }
        {
            let events: Vec<Event> = world.iter().map(create_event).collect();
            let mut tx = off_db.write_transaction();
            process_executor_events(events.iter().map(Cow::Borrowed), &mut tx, true, true, &base).expect("events");
            let ch = tx.into_changes();
            off_db.commit_changes(ch).expect("off-chain commit");
        }
        let exclude = Exclude::new(
            excl_ids
                .iter()
                .map(|id| match world.iter().find(|r| r.rid == *id) {
                    Some(r) if r.kind != 0 => CoinId::Message(Nonce::from(b32(*id))),
                    _ => CoinId::Utxo(UtxoId::new(Bytes32::from(b32(*id)), 0)),
                })
                .collect(),
        );
        let spend = AssetSpendTarget::new(asset, target, max, partial);
        if mode == 0 {
            let view = off_db.latest_view().expect("view");
            let stream: Vec<T> = view
                .coins_to_spend_index(&owner, &asset)
                .dust_coins_iter
                .map(|k| key_t(&k.expect("index key")))
                .collect();
            let iters = view.coins_to_spend_index(&owner, &asset);
            let r = futures::executor::block_on(select_coins_to_spend(iters, spend, &exclude, 3, owner));
            let rt = match &r {
                Ok(keys) => T::l(vec![T::i(0), T::l(keys.iter().map(key_t).collect())]),
                Err(e) => err_t(e),
            };
            T::l(vec![T::l(stream), rt])
        } else {
            let rdb = ReadDatabase::new(3, 0u32.into(), on_db.clone(), off_db.clone()).expect("read database");
            let view = rdb.view().expect("read view");
            let q = AssetQuery::new(&owner, &spend, &base, Some(&exclude), &view);
            let stream: Vec<CoinType> =
                futures::executor::block_on(q.clone().coins().try_collect()).expect("coins stream");
            let r = if mode == 1 {
                futures::executor::block_on(largest_first(q))
            } else {
                let sq = SpendQuery::new(owner, &[spend.clone()], Cow::Borrowed(&exclude), base).expect("spend query");
                futures::executor::block_on(random_improve(&view, &sq)).map(|mut v| v.pop().expect("one asset"))
            };
            let rt = match &r {
                Ok(cs) => T::l(vec![T::i(0), T::l(cs.iter().map(cointype_t).collect())]),
                Err(e) => err_t(e),
            };
            T::l(vec![T::l(stream.iter().map(cointype_t).collect()), rt])
        }
    })
}

fn res_t(r: &Res) -> T {
    T::l(vec![T::n(r.rid), T::n(r.kind), T::n(r.owner), T::n(r.asset), T::n(r.amount), T::b(r.retry)])
}

#[allow(clippy::too_many_arguments)]
fn case(mode: u64, world: &[Res], owner: u64, asset: u64, base: u64, target: u128, max: u64, partial: bool, excl: &[u64]) -> T {
    T::l(vec![
        T::n(mode),
        T::l(world.iter().map(res_t).collect()),
        T::n(owner),
        T::n(asset),
        T::n(base),
        T::n(target),
        T::n(max),
        T::b(partial),
        T::list_n(excl),
    ])
}

const AMOUNTS: [u64; 12] = [0, 1, 1, 2, 3, 5, 5, 8, 10, 100, u64::MAX - 1, u64::MAX];

pub fn gen(rng: &mut Rng, n: u64, tier: &str) -> Vec<T> {
    let thorough = tier == "thorough";
    let mut cases = vec![];
    // (a) bounded-exhaustive: every amount tuple over {1,2,5} of length <= 3 (thorough 4) as coins of
    //     owner 1 / base asset, every target 0..=9 (14), max 0..=3 (4), both partial flags, all modes
    let alphabet = [1u64, 2, 5];
    let max_len = if thorough { 4 } else { 3 };
    let max_target: u128 = if thorough { 14 } else { 9 };
    let max_max = if thorough { 4 } else { 3 };
    for len in 0..=max_len {
        let count = alphabet.len().pow(len as u32);
        for code in 0..count {
            let mut c = code;
            let world: Vec<Res> = (0..len)
                .map(|i| {
                    let a = alphabet[c % alphabet.len()];
                    c /= alphabet.len();
                    Res { rid: i as u64 + 1, kind: 0, owner: 1, asset: 0, amount: a, retry: false }
                })
                .collect();
            for target in 0..=max_target {
                for max in 0..=max_max {
                    for partial in [false, true] {
                        for mode in 0..3 {
                            cases.push(case(mode, &world, 1, 0, 0, target, max, partial, &[]));
                        }
                    }
                }
            }
        }
    }
    // (b) random worlds: coins and messages of two owners and two assets, equal amounts, dust and big
    //     coins, zero and extreme amounts, exclusions (incl. unknown ids), boundary targets
    for _ in 0..n {
        let len = rng.below(if thorough { 12 } else { 9 });
        let mut rid = 0u64;
        let world: Vec<Res> = (0..len)
            .map(|_| {
                rid += rng.range(1, 3);
                let kind = if rng.chance(1, 4) { 1 } else { 0 };
                Res {
                    rid,
                    kind,
                    owner: if rng.chance(5, 6) { 1 } else { 2 },
                    asset: if kind == 1 { 0 } else if rng.chance(3, 4) { 0 } else { 1 },
                    amount: if rng.chance(1, 8) { rng.below(30) } else { *rng.pick(&AMOUNTS) },
                    retry: kind == 1 && rng.chance(1, 3),
                }
            })
            .collect();
        let owner = if rng.chance(9, 10) { 1 } else { 2 };
        let asset = if rng.chance(3, 4) { 0 } else { 1 };
        let base = if rng.chance(9, 10) { 0 } else { 1 };
        let adm: Vec<u128> = world
            .iter()
            .filter(|r| r.owner == owner && (if r.kind == 0 { r.asset == asset } else { asset == base && !r.retry }))
            .map(|r| r.amount as u128)
            .collect();
        let total: u128 = adm.iter().sum();
        let target: u128 = match rng.below(12) {
            0 => 0,
            1 => total,
            2 => total + 1,
            3 => total.saturating_sub(1),
            4 => total / 2,
            5 => u64::MAX as u128,
            6 => (u64::MAX as u128) + 5,
            7 => u128::MAX,
            8 => u128::MAX / 2 + 1,
            _ => rng.below(25) as u128,
        };
        let max = match rng.below(10) {
            0 => 0,
            1 => 255,
            2 => 65535,
            3 => adm.len() as u64,
            _ => rng.below(6),
        };
        let mut excl = vec![];
        for r in &world {
            if rng.chance(1, 6) {
                excl.push(r.rid);
            }
        }
        if rng.chance(1, 10) {
            excl.push(200 + rng.below(5));
        }
        cases.push(case(rng.below(3), &world, owner, asset, base, target, max, rng.chance(1, 3), &excl));
    }
    cases
}
