//! C36: the real `process_executor_events` (balances / coins-to-spend indexation + owned
//! coin / message tables) on an in-memory `Database<OffChain>`, one event at a time, with a
//! full dump of the six tables after every event.
//!
//! input  `(balances_on coins_to_spend_on base (event ...))`
//!   event `(0 res)` CoinCreated / MessageImported, `(1 res)` CoinConsumed / MessageConsumed,
//!   res = `(rid kind owner asset amount retryable)` as in C37
//! output one entry per event: `(coin_balances message_balances coins_to_spend owned_coins
//!   owned_messages spent_messages)`, every table a sorted list of rows of integers:
//!   `(owner asset amount)`, `(owner retryable non_retryable)`,
//!   `(flag owner asset amount kind id)`, `(owner id)`, `(owner nonce)`, `(nonce)`
use crate::c37::{b32, coin_of, last, message_of, res_of, Res};
use fuel_core::{
    database::{database_description::off_chain::OffChain, Database},
    fuel_core_graphql_api::{
        storage::{
            balances::{CoinBalances, MessageBalances},
            coins::{CoinsToSpendIndex, CoinsToSpendIndexKey, OwnedCoins},
            messages::{OwnedMessageIds, SpentMessages},
        },
        worker_service::process_executor_events,
    },
};
use fuel_core_storage::{
    iter::IteratorOverTable,
    transactional::{Modifiable, WriteTransaction},
};
use fuel_core_types::{fuel_tx::AssetId, services::executor::Event};
use std::borrow::Cow;
use vcommon::{catch, Rng, T};

fn rows_t(mut rows: Vec<Vec<u128>>) -> T {
    rows.sort();
    T::l(rows.into_iter().map(|r| T::l(r.into_iter().map(T::n).collect())).collect())
}

fn dump(db: &Database<OffChain>) -> T {
    let cbal: Vec<Vec<u128>> = db
        .iter_all::<CoinBalances>(None)
        .map(|r| {
            let (k, v) = r.expect("coin balance row");
            let b: &[u8] = k.as_ref();
            vec![last(&b[..32]) as u128, last(&b[32..64]) as u128, v]
        })
        .collect();
    let mbal: Vec<Vec<u128>> = db
        .iter_all::<MessageBalances>(None)
        .map(|r| {
            let (k, v) = r.expect("message balance row");
            vec![last(k.as_ref()) as u128, v.retryable, v.non_retryable]
        })
        .collect();
    let cts: Vec<Vec<u128>> = db
        .iter_all::<CoinsToSpendIndex>(None)
        .map(|r| {
            let (k, _) = r.expect("coins to spend row");
            match k {
                CoinsToSpendIndexKey::Coin { owner, asset_id, amount, utxo_id } => vec![
                    1,
                    last(owner.as_ref()) as u128,
                    last(asset_id.as_ref()) as u128,
                    amount as u128,
                    0,
                    last(utxo_id.tx_id().as_ref()) as u128,
                ],
                CoinsToSpendIndexKey::Message { retryable_flag, owner, asset_id, amount, nonce } => vec![
                    retryable_flag as u128,
                    last(owner.as_ref()) as u128,
                    last(asset_id.as_ref()) as u128,
                    amount as u128,
                    1,
                    last(nonce.as_ref()) as u128,
                ],
            }
        })
        .collect();
    let ocoins: Vec<Vec<u128>> = db
        .iter_all::<OwnedCoins>(None)
        .map(|r| {
            let (k, _) = r.expect("owned coin row");
            // Address ++ tx id ++ output index
            vec![last(&k[..32]) as u128, last(&k[32..64]) as u128]
        })
        .collect();
    let omsgs: Vec<Vec<u128>> = db
        .iter_all::<OwnedMessageIds>(None)
        .map(|r| {
            let (k, _) = r.expect("owned message row");
            let b: &[u8] = k.as_ref();
            vec![last(&b[..32]) as u128, last(&b[32..64]) as u128]
        })
        .collect();
    let spent: Vec<Vec<u128>> = db
        .iter_all::<SpentMessages>(None)
        .map(|r| {
            let (k, _) = r.expect("spent message row");
            vec![last(k.as_ref()) as u128]
        })
        .collect();
    T::l(vec![rows_t(cbal), rows_t(mbal), rows_t(cts), rows_t(ocoins), rows_t(omsgs), rows_t(spent)])
}

fn event_of(t: &T) -> Event {
    let f = t.as_l();
    let r = res_of(&f[1]);
    match (f[0].as_i(), r.kind) {
        (0, 0) => Event::CoinCreated(coin_of(&r)),
        (0, _) => Event::MessageImported(message_of(&r)),
        (_, 0) => Event::CoinConsumed(coin_of(&r)),
        (_, _) => Event::MessageConsumed(message_of(&r)),
    }
}

pub fn run(input: &T) -> T {
    let input = input.clone();
    catch(move || {
        let f = input.as_l();
        let bal_on = f[0].as_bool();
        let cts_on = f[1].as_bool();
        let base = AssetId::from(b32(f[2].as_u64()));
        let mut db = Database::<OffChain>::in_memory();
        let mut out = vec![];
        for e in f[3].as_l() {
            let ev = event_of(e);
            let changes = {
                let mut tx = db.write_transaction();
                process_executor_events(std::iter::once(Cow::Borrowed(&ev)), &mut tx, bal_on, cts_on, &base)
                    .expect("process_executor_events");
                tx.into_changes()
            };
            db.commit_changes(changes).expect("commit");
            out.push(dump(&db));
        }
        T::l(out)
    })
}

fn res_t(r: &Res) -> T {
    T::l(vec![T::n(r.rid), T::n(r.kind), T::n(r.owner), T::n(r.asset), T::n(r.amount), T::b(r.retry)])
}

const AMOUNTS: [u64; 8] = [0, 1, 2, 3, 7, 100, u64::MAX - 1, u64::MAX];

/// A history; `consistent`: every creation fresh, every consumption of an unspent resource with
/// its exact data. Otherwise a few steps are corrupted (double create, consume of an unknown or
/// already spent resource, consume with a different amount / owner / asset / retryable flag).
fn history(rng: &mut Rng, len: u64, consistent: bool) -> Vec<T> {
    let mut unspent: Vec<Res> = vec![];
    let mut spent: Vec<Res> = vec![];
    let mut next_id = 1u64;
    let mut evs = vec![];
    for _ in 0..len {
        let corrupt = !consistent && rng.chance(1, 4);
        let create = unspent.is_empty() || rng.chance(3, 5);
        if corrupt {
            match rng.below(5) {
                0 if !unspent.is_empty() => {
                    // create again what is unspent
                    let r = rng.pick(&unspent).clone();
                    evs.push(T::l(vec![T::i(0), res_t(&r)]));
                }
                1 if !spent.is_empty() => {
                    let r = rng.pick(&spent).clone();
                    evs.push(T::l(vec![T::i(1), res_t(&r)]));
                }
                2 if !unspent.is_empty() => {
                    let mut r = rng.pick(&unspent).clone();
                    match rng.below(4) {
                        0 => r.amount = r.amount.wrapping_add(1),
                        1 => r.owner = 3 - r.owner,
                        2 if r.kind == 0 => r.asset = 1 - r.asset,
                        _ => {
                            if r.kind == 1 {
                                r.retry = !r.retry
                            } else {
                                r.amount = r.amount.wrapping_sub(1)
                            }
                        }
                    }
                    evs.push(T::l(vec![T::i(1), res_t(&r)]));
                }
                _ => {
                    let r = Res { rid: 90 + rng.below(3), kind: rng.below(2), owner: 1, asset: 0, amount: 5, retry: false };
                    evs.push(T::l(vec![T::i(1), res_t(&r)]));
                }
            }
            continue;
        }
        if create {
            let kind = if rng.chance(1, 3) { 1 } else { 0 };
            let r = Res {
                rid: next_id,
                kind,
                owner: rng.range(1, 2),
                asset: if kind == 1 { 0 } else { rng.below(2) },
                amount: *rng.pick(&AMOUNTS),
                retry: kind == 1 && rng.chance(1, 2),
            };
            next_id += 1;
            evs.push(T::l(vec![T::i(0), res_t(&r)]));
            unspent.push(r);
        } else {
            let i = rng.below(unspent.len() as u64) as usize;
            let r = unspent.remove(i);
            evs.push(T::l(vec![T::i(1), res_t(&r)]));
            spent.push(r);
        }
    }
    evs
}

pub fn gen(rng: &mut Rng, n: u64, tier: &str) -> Vec<T> {
    let thorough = tier == "thorough";
    let mut cases = vec![];
    for i in 0..n {
        let len = rng.range(1, if thorough { 24 } else { 14 });
        let consistent = i % 4 != 3;
        let evs = history(rng, len, consistent);
        let (bal_on, cts_on) = match rng.below(8) {
            0 => (false, true),
            1 => (true, false),
            2 => (false, false),
            _ => (true, true),
        };
        let base: u64 = if rng.chance(9, 10) { 0 } else { 1 };
        cases.push(T::l(vec![T::b(bal_on), T::b(cts_on), T::n(base), T::l(evs)]));
    }
    cases
}
