//! Correspondence harness for cluster Gql (C36, C37, C38): drives the real `fuel-core`
//! GraphQL helpers on generated inputs and prints canonical observations.
mod c38;

use vcommon::{Rng, T};

fn gen(prop: &str, rng: &mut Rng, n: u64, tier: &str) -> Vec<T> {
    match prop {
        "C38" => c38::gen(rng, n, tier),
        p => panic!("unknown property {p}"),
    }
}

fn run(prop: &str, input: &T) -> T {
    match prop {
        "C38" => c38::run(input),
        p => panic!("unknown property {p}"),
    }
}

fn main() {
    vcommon::main_protocol(gen, run);
}
