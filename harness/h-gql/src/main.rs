//! Correspondence harness for cluster Gql (C36, C37, C38): drives the real `fuel-core`
//! GraphQL helpers on generated inputs and prints canonical observations.
mod c36;
mod c37;
mod c38;

use vcommon::{Rng, T};

fn gen(prop: &str, rng: &mut Rng, n: u64, tier: &str) -> Vec<T> {
    match prop {
        "C36" => c36::gen(rng, n, tier),
        "C37" => c37::gen(rng, n, tier),
        "C38" => c38::gen(rng, n, tier),
        p => panic!("unknown property {p}"),
    }
}

fn run(prop: &str, input: &T) -> T {
    match prop {
        "C36" => c36::run(input),
        "C37" => c37::run(input),
        "C38" => c38::run(input),
        p => panic!("unknown property {p}"),
    }
}

fn main() {
    vcommon::main_protocol(gen, run);
}
