//! C11 / C12: the real storage backends of the `fuel-core` crate.
//!
//! C11 input : (backends commits queries)
//!   backends  list of backend ids: 0 MemoryStore, 1 RocksDb, 2 HistoricalRocksDB NoRewind,
//!             3 HistoricalRocksDB RewindFullRange, 3+k HistoricalRocksDB RewindRange{size k}
//!   commits   list of (height kind sets); height = () | (h); kind 0 StorageChanges::Changes (one set),
//!             kind 1 StorageChanges::ChangesList(sets); set = ((col ((key op) ...)) ...);
//!             key = (bytes); op = (0) Remove | (1 (bytes)) Insert; col = 0 Coins, 1 Transactions,
//!             2 ContractsState: this column has a 32-byte prefix extractor in RocksDB; a prefix shorter than
//!             the extractor is out of its domain (RocksDB then reads past the key: empty results, crashes),
//!             and the real tables only use 32-byte prefixes there.  The harness therefore stores every byte of
//!             a key / prefix / start of column 2 as a run of 32 equal bytes (order- and prefix-preserving) and
//!             contracts the returned keys again; the generator never asks for the empty prefix in column 2
//!   queries   list of (col prefix start dir kv); prefix/start = () | ((bytes)); dir 0 Forward 1 Reverse;
//!             kv 0 iter_store_keys, 1 iter_store
//! C11 output: one entry per backend: (tags contents gets results)
//!   tags      per commit: 0 Ok, 5 ConflictingChanges, 9 other error
//!   contents  per column 0..3: ((key value) ...) = iter_store(None, None, Forward)
//!   gets      KeyValueInspect::get of every (col,key) occurrence of the history, in order: () | ((bytes))
//!   results   per query: (key ...) or ((key value) ...); an Err item is the integer -9
//!
//! C12 input : (start policy ops)
//!   start     height of the first block; policy / restart policy: 0 NoRewind, 1 RewindFullRange,
//!             1+k RewindRange{size k}
//!   ops       (0 set) commit the next height; (1) rollback_block_to(latest); (2 policy) drop + reopen
//! C12 output: one entry per op: (tag latest views)
//!   tag       commit: 0 Ok / 9 error; rollback: 0 Ok, 6 NotFound (no history record), 7 nothing committed,
//!             9 other; restart: 0
//!   latest    get of every universe key on the database itself: () | ((bytes))
//!   views     for h = lo ..= hi (lo = start-1 saturating, hi = start + number of commit ops):
//!             (0) NoHistoryForRequestedHeight | (9) other error | (1 val ...) with val as above,
//!             (-7) for a get that panicked, (-9) for a get that returned Err
//!   the key universe = every (col,key) of the commits of the input, in order of first appearance
use fuel_core::{
    database::database_description::on_chain::OnChain,
    state::{
        historical_rocksdb::{HistoricalRocksDB, StateRewindPolicy},
        in_memory::memory_store::MemoryStore,
        rocks_db::{ColumnsPolicy, DatabaseConfig, RocksDb},
        TransactableStorage,
    },
};
use fuel_core_storage::{
    column::Column,
    iter::{IterDirection, IterableStore},
    kv_store::{KeyValueInspect, Value, WriteOperation},
    transactional::{Changes, ReferenceBytesKey, StorageChanges},
    Error as StorageError,
};
use fuel_core_types::fuel_types::BlockHeight;
use std::{
    collections::BTreeMap,
    num::NonZeroU64,
    path::PathBuf,
    sync::atomic::{AtomicU64, Ordering},
};
use vcommon::{catch, Rng, T};

static COUNTER: AtomicU64 = AtomicU64::new(0);

fn temp_dir() -> PathBuf {
    let n = COUNTER.fetch_add(1, Ordering::Relaxed);
    let p = PathBuf::from(format!("/verif/target/tmp/h-backend-{}-{}", std::process::id(), n));
    let _ = std::fs::remove_dir_all(&p);
    std::fs::create_dir_all(&p).expect("temp dir");
    p
}

fn config() -> DatabaseConfig {
    DatabaseConfig { cache_capacity: None, max_fds: 128, columns_policy: ColumnsPolicy::Lazy }
}

const COLS: [Column; 3] = [Column::Coins, Column::Transactions, Column::ContractsState];

fn column(c: u64) -> Column {
    COLS[c as usize]
}

const WIDE: usize = 32;

/// column 2: every byte becomes a run of 32 equal bytes
fn enc(col: u64, k: &[u8]) -> Vec<u8> {
    if col == 2 {
        k.iter().flat_map(|b| std::iter::repeat(*b).take(WIDE)).collect()
    } else {
        k.to_vec()
    }
}

/// inverse of `enc`; a key that is not a sequence of runs is returned as it is
fn dec(col: u64, k: &[u8]) -> Vec<u8> {
    if col == 2 && k.len() % WIDE == 0 && k.chunks(WIDE).all(|c| c.iter().all(|b| *b == c[0])) {
        k.chunks(WIDE).map(|c| c[0]).collect()
    } else {
        k.to_vec()
    }
}

fn err_tag(e: &StorageError) -> i128 {
    let d = format!("{e:?}");
    if d.starts_with("DatabaseError(ConflictingChanges") {
        5
    } else if d.starts_with("DatabaseError(NoHistoryForRequestedHeight") {
        0
    } else if d.starts_with("NotFound") {
        6
    } else {
        9
    }
}

fn policy_of(p: u64) -> StateRewindPolicy {
    match p {
        0 => StateRewindPolicy::NoRewind,
        1 => StateRewindPolicy::RewindFullRange,
        k => StateRewindPolicy::RewindRange { size: NonZeroU64::new(k - 1).expect("size") },
    }
}

fn set_of(t: &T) -> Changes {
    let mut changes = Changes::default();
    for colset in t.as_l() {
        let f = colset.as_l();
        let cid = f[0].as_u64();
        let col = column(cid) as u32;
        let mut tree: BTreeMap<ReferenceBytesKey, WriteOperation> = BTreeMap::new();
        for e in f[1].as_l() {
            let e = e.as_l();
            let key: ReferenceBytesKey = enc(cid, &e[0].as_bytes()).into();
            let op = e[1].as_l();
            let op = match op[0].as_i() {
                0 => WriteOperation::Remove,
                _ => WriteOperation::Insert(Value::from(op[1].as_bytes())),
            };
            tree.insert(key, op);
        }
        changes.insert(col, tree);
    }
    changes
}

/// the keys of one column of a change set in BTreeMap order (sorted, without repetitions)
fn sorted_keys(entries: &T) -> Vec<Vec<u8>> {
    let mut keys: Vec<Vec<u8>> = entries.as_l().iter().map(|e| e.as_l()[0].as_bytes()).collect();
    keys.sort();
    keys.dedup();
    keys
}

fn opt_bytes(t: &T) -> Option<Vec<u8>> {
    t.as_l().first().map(|b| b.as_bytes())
}

fn val_t(v: Option<Value>) -> T {
    match v {
        None => T::l(vec![]),
        Some(v) => T::l(vec![T::bytes(&v)]),
    }
}

enum Backend {
    Mem(MemoryStore<OnChain>),
    Rocks(RocksDb<OnChain>),
    Hist(HistoricalRocksDB<OnChain>),
}

impl Backend {
    fn commit(&self, height: Option<BlockHeight>, changes: StorageChanges) -> Result<(), StorageError> {
        match self {
            Backend::Mem(s) => s.commit_changes(height, changes),
            Backend::Rocks(s) => s.commit_changes(&changes),
            Backend::Hist(s) => TransactableStorage::commit_changes(s, height, changes),
        }
    }
    fn get(&self, key: &[u8], col: Column) -> Result<Option<Value>, StorageError> {
        match self {
            Backend::Mem(s) => s.get(key, col),
            Backend::Rocks(s) => s.get(key, col),
            Backend::Hist(s) => s.get(key, col),
        }
    }
    fn iter(&self, cid: u64, p: Option<&[u8]>, s: Option<&[u8]>, d: IterDirection, kv: bool) -> T {
        let col = column(cid);
        let p = p.map(|p| enc(cid, p));
        let s = s.map(|s| enc(cid, s));
        let (p, s) = (p.as_deref(), s.as_deref());
        macro_rules! go {
            ($st:expr) => {
                if kv {
                    T::l($st
                        .iter_store(col, p, s, d)
                        .map(|r| match r {
                            Ok((k, v)) => T::l(vec![T::bytes(&dec(cid, &k)), T::bytes(&v)]),
                            Err(_) => T::i(-9),
                        })
                        .collect())
                } else {
                    T::l($st
                        .iter_store_keys(col, p, s, d)
                        .map(|r| match r {
                            Ok(k) => T::bytes(&dec(cid, &k)),
                            Err(_) => T::i(-9),
                        })
                        .collect())
                }
            };
        }
        match self {
            Backend::Mem(st) => go!(st),
            Backend::Rocks(st) => go!(st),
            Backend::Hist(st) => go!(st),
        }
    }
}

fn run_c11(input: &T) -> T {
    let input = input.clone();
    catch(move || {
        let f = input.as_l();
        let commits = f[1].as_l();
        let queries = f[2].as_l();
        let mut out = vec![];
        for b in f[0].as_l() {
            let b = b.as_u64();
            let dir = if b == 0 { None } else { Some(temp_dir()) };
            let backend = match b {
                0 => Backend::Mem(MemoryStore::<OnChain>::default()),
                1 => Backend::Rocks(RocksDb::<OnChain>::default_open(dir.as_ref().unwrap(), config()).expect("open")),
                k => Backend::Hist(
                    HistoricalRocksDB::<OnChain>::default_open(dir.as_ref().unwrap(), policy_of(k - 2), config())
                        .expect("open"),
                ),
            };
            let mut tags = vec![];
            let mut touched: Vec<(u64, Vec<u8>)> = vec![];
            for c in commits {
                let c = c.as_l();
                let height = c[0].as_l().first().map(|h| BlockHeight::from(h.as_u32()));
                let sets = c[2].as_l();
                for s in sets {
                    for colset in s.as_l() {
                        let cs = colset.as_l();
                        for k in sorted_keys(&cs[1]) {
                            touched.push((cs[0].as_u64(), k));
                        }
                    }
                }
                let changes = if c[1].as_i() == 0 {
                    StorageChanges::Changes(set_of(&sets[0]))
                } else {
                    StorageChanges::ChangesList(sets.iter().map(set_of).collect())
                };
                tags.push(T::i(match backend.commit(height, changes) {
                    Ok(()) => 0,
                    Err(e) => err_tag(&e),
                }));
            }
            let contents: Vec<T> = (0..3u64)
                .map(|c| backend.iter(c, None, None, IterDirection::Forward, true))
                .collect();
            let gets: Vec<T> = touched
                .iter()
                .map(|(c, k)| match backend.get(&enc(*c, k), column(*c)) {
                    Ok(v) => val_t(v),
                    Err(_) => T::i(-9),
                })
                .collect();
            let results: Vec<T> = queries
                .iter()
                .map(|q| {
                    let q = q.as_l();
                    let p = opt_bytes(&q[1]);
                    let s = opt_bytes(&q[2]);
                    let d = if q[3].as_i() == 0 { IterDirection::Forward } else { IterDirection::Reverse };
                    backend.iter(q[0].as_u64(), p.as_deref(), s.as_deref(), d, q[4].as_bool())
                })
                .collect();
            drop(backend);
            if let Some(p) = dir {
                let _ = std::fs::remove_dir_all(p);
            }
            out.push(T::l(vec![T::l(tags), T::l(contents), T::l(gets), T::l(results)]));
        }
        T::l(out)
    })
}

// ---------------------------------------------------------------------------------------
// C12

fn universe(ops: &[T]) -> Vec<(u64, Vec<u8>)> {
    let mut u: Vec<(u64, Vec<u8>)> = vec![];
    for op in ops {
        let f = op.as_l();
        if f[0].as_i() != 0 {
            continue;
        }
        for colset in f[1].as_l() {
            let cs = colset.as_l();
            for k in sorted_keys(&cs[1]) {
                let item = (cs[0].as_u64(), k);
                if !u.contains(&item) {
                    u.push(item);
                }
            }
        }
    }
    u
}

fn run_c12(input: &T) -> T {
    let input = input.clone();
    catch(move || {
        let f = input.as_l();
        let start = f[0].as_u64();
        let ops = f[2].as_l();
        let uni = universe(ops);
        let n_commits = ops.iter().filter(|o| o.as_l()[0].as_i() == 0).count() as u64;
        let lo = start.saturating_sub(1);
        let hi = start + n_commits;
        let dir = temp_dir();
        let open = |p: u64| -> HistoricalRocksDB<OnChain> {
            HistoricalRocksDB::<OnChain>::default_open(&dir, policy_of(p), config()).expect("open")
        };
        let mut db = Some(open(f[1].as_u64()));
        let mut latest: Option<u64> = None;
        let mut out = vec![];
        for op in ops {
            let o = op.as_l();
            let tag: i128 = match o[0].as_i() {
                0 => {
                    let h = match latest {
                        None => start,
                        Some(l) => l + 1,
                    };
                    let r = TransactableStorage::commit_changes(
                        db.as_ref().unwrap(),
                        Some(BlockHeight::from(u32::try_from(h).expect("u32 height"))),
                        StorageChanges::Changes(set_of(&o[1])),
                    );
                    match r {
                        Ok(()) => {
                            latest = Some(h);
                            0
                        }
                        Err(_) => 9,
                    }
                }
                1 => match latest {
                    None => 7,
                    Some(l) => {
                        let r = TransactableStorage::rollback_block_to(
                            db.as_ref().unwrap(),
                            &BlockHeight::from(l as u32),
                        );
                        match r {
                            Ok(()) => {
                                latest = if l == start { None } else { Some(l - 1) };
                                0
                            }
                            Err(e) => match err_tag(&e) {
                                6 => 6,
                                _ => 9,
                            },
                        }
                    }
                },
                _ => {
                    let old = db.take();
                    drop(old);
                    db = Some(open(o[1].as_u64()));
                    0
                }
            };
            let d = db.as_ref().unwrap();
            let latest_vals: Vec<T> = uni
                .iter()
                .map(|(c, k)| match d.get(k, column(*c)) {
                    Ok(v) => val_t(v),
                    Err(_) => T::i(-9),
                })
                .collect();
            let mut views = vec![];
            for h in lo..=hi {
                let v = d.create_view_at(&BlockHeight::from(h as u32));
                views.push(match v {
                    Err(e) => T::l(vec![T::i(if err_tag(&e) == 0 { 0 } else { 9 })]),
                    Ok(view) => {
                        let mut vals = vec![T::i(1)];
                        for (c, k) in &uni {
                            let r = std::panic::catch_unwind(std::panic::AssertUnwindSafe(|| view.get(k, column(*c))));
                            vals.push(match r {
                                Err(_) => T::i(-7),
                                Ok(Err(_)) => T::i(-9),
                                Ok(Ok(v)) => val_t(v),
                            });
                        }
                        T::l(vals)
                    }
                });
            }
            out.push(T::l(vec![T::i(tag), T::l(latest_vals), T::l(views)]));
        }
        drop(db);
        let _ = std::fs::remove_dir_all(&dir);
        T::l(out)
    })
}

// ---------------------------------------------------------------------------------------
// generators

const ALPHA: [u8; 4] = [0x00, 0x01, 0xFE, 0xFF];

/// all byte strings over ALPHA of length 0..=max
fn all_keys(max: usize) -> Vec<Vec<u8>> {
    let mut out: Vec<Vec<u8>> = vec![vec![]];
    let mut layer: Vec<Vec<u8>> = vec![vec![]];
    for _ in 0..max {
        let mut next = vec![];
        for k in &layer {
            for a in ALPHA {
                let mut k2 = k.clone();
                k2.push(a);
                next.push(k2);
            }
        }
        out.extend(next.iter().cloned());
        layer = next;
    }
    out
}

fn key_t(k: &[u8]) -> T {
    T::bytes(k)
}
fn some_t(k: &[u8]) -> T {
    T::l(vec![T::bytes(k)])
}
fn none_t() -> T {
    T::l(vec![])
}

fn rand_key(rng: &mut Rng, max: u64) -> Vec<u8> {
    let len = rng.below(max + 1);
    (0..len).map(|_| *rng.pick(&ALPHA)).collect()
}

/// a key set built around one prefix: the prefix, extensions, 0xFF suffixes, the successor
/// prefix (truncated and with kept 0xFF tail), a predecessor, and random keys
fn key_pool(rng: &mut Rng, n: usize) -> Vec<Vec<u8>> {
    let mut pool: Vec<Vec<u8>> = vec![];
    let p = {
        let len = rng.range(1, 2);
        (0..len).map(|_| *rng.pick(&ALPHA)).collect::<Vec<u8>>()
    };
    let ext = |k: &Vec<u8>, b: u8| {
        let mut k = k.clone();
        k.push(b);
        k
    };
    let mut structured = vec![p.clone(), ext(&p, 0x00), ext(&p, 0xFF), ext(&ext(&p, 0xFF), 0xFF)];
    // successors: increment the last byte that is not 0xFF
    let mut succ = p.clone();
    while let Some(l) = succ.last().copied() {
        if l == 0xFF {
            succ.pop();
        } else {
            *succ.last_mut().unwrap() = if l == 0x01 { 0xFE } else { l + 1 };
            break;
        }
    }
    // over the alphabet the numeric successor byte (02, FF) is usually not a letter: use both
    let mut nsucc = p.clone();
    while let Some(l) = nsucc.last().copied() {
        if l == 0xFF {
            nsucc.pop();
        } else {
            *nsucc.last_mut().unwrap() = l + 1;
            break;
        }
    }
    if !nsucc.is_empty() {
        structured.push(nsucc.clone());
        structured.push(ext(&nsucc, 0x00));
        let mut tail = nsucc.clone();
        while tail.len() < p.len() {
            tail.push(0xFF);
        }
        structured.push(tail);
    }
    if !succ.is_empty() {
        structured.push(succ);
    }
    structured.push(p[..p.len() - 1].to_vec());
    for k in structured {
        if k.len() <= 3 && rng.chance(3, 4) && !pool.contains(&k) {
            pool.push(k);
        }
    }
    while pool.len() < n {
        let k = rand_key(rng, 3);
        if !pool.contains(&k) {
            pool.push(k);
        }
    }
    pool
}

fn op_t(rng: &mut Rng) -> T {
    if rng.chance(1, 4) {
        T::l(vec![T::i(0)])
    } else {
        let len = rng.below(3);
        let v: Vec<u8> = (0..len).map(|_| rng.below(4) as u8).collect();
        T::l(vec![T::i(1), T::bytes(&v)])
    }
}

/// one change set over the pools: list of (col ((key op)...)) with distinct columns, sorted keys
fn change_set(rng: &mut Rng, pools: &[Vec<Vec<u8>>], cols: &[u64], density: u64) -> T {
    let mut sets = vec![];
    for c in cols {
        let mut keys: Vec<Vec<u8>> =
            pools[*c as usize].iter().filter(|_| rng.chance(density, 100)).cloned().collect();
        keys.sort();
        if keys.is_empty() && rng.chance(1, 2) {
            continue;
        }
        let entries: Vec<T> = keys.iter().map(|k| T::l(vec![key_t(k), op_t(rng)])).collect();
        sets.push(T::l(vec![T::n(*c), T::l(entries)]));
    }
    T::l(sets)
}

fn neighbours(k: &[u8]) -> Vec<Vec<u8>> {
    let mut out = vec![k.to_vec()];
    let mut s = k.to_vec();
    s.push(0x00);
    out.push(s); // immediate successor
    if let Some(l) = k.last().copied() {
        if l > 0 {
            let mut p = k.to_vec();
            *p.last_mut().unwrap() = l - 1;
            p.push(0xFF);
            out.push(p); // just below
        } else {
            out.push(k[..k.len() - 1].to_vec());
        }
    }
    out
}

fn query(col: u64, p: Option<&[u8]>, s: Option<&[u8]>, d: u64, kv: bool) -> T {
    T::l(vec![
        T::n(col),
        p.map_or_else(none_t, some_t),
        s.map_or_else(none_t, some_t),
        T::n(d),
        T::b(kv),
    ])
}

fn gen_c11_case(rng: &mut Rng, tier: &str, idx: u64) -> T {
    let thorough = tier == "thorough";
    // backends: memory always; the RocksDB ones rotate so that a quick case opens at most 4
    let range_size = [1u64, 2, 5, 3][(idx % 4) as usize];
    let backends: Vec<u64> = match idx % 8 {
        7 if !thorough => vec![0],
        _ => vec![0, 1, 2, 3, 3 + range_size],
    };
    let pools: Vec<Vec<Vec<u8>>> = (0..3)
        .map(|c| {
            let n = if c == 0 { rng.range(4, 9) } else { rng.range(1, 5) };
            key_pool(rng, n as usize)
        })
        .collect();
    let n_commits = rng.range(1, if thorough { 8 } else { 5 });
    let mut commits = vec![];
    let mut h = rng.below(3);
    for ci in 0..n_commits {
        let height = if rng.chance(1, 8) { none_t() } else { T::l(vec![T::n(h)]) };
        h += 1;
        let cols: Vec<u64> = (0..3u64).filter(|c| *c == 0 || rng.chance(1, 2)).collect();
        let density = if ci == 0 { 80 } else { 45 };
        if rng.chance(1, 2) {
            commits.push(T::l(vec![height, T::i(0), T::l(vec![change_set(rng, &pools, &cols, density)])]));
        } else {
            // a list of 2..3 change sets; overlapping columns with disjoint keys are the normal
            // case; every 6th list conflicts on one key (then the later sets have one column)
            let n_sets = rng.range(2, 3);
            let conflict = rng.chance(1, 6);
            let mut used: Vec<Vec<Vec<u8>>> = vec![vec![], vec![], vec![]];
            let mut sets = vec![];
            for si in 0..n_sets {
                let cols_here: Vec<u64> = if conflict && si > 0 {
                    vec![*rng.pick(&cols)]
                } else {
                    cols.iter().copied().filter(|_| rng.chance(3, 4)).collect()
                };
                let mut colsets = vec![];
                for c in cols_here {
                    let mut keys: Vec<Vec<u8>> = pools[c as usize]
                        .iter()
                        .filter(|k| !used[c as usize].contains(k) && rng.chance(45, 100))
                        .cloned()
                        .collect();
                    if conflict && si > 0 && !used[c as usize].is_empty() && rng.chance(2, 3) {
                        keys.push(rng.pick(&used[c as usize]).clone());
                    }
                    keys.sort();
                    keys.dedup();
                    used[c as usize].extend(keys.iter().cloned());
                    let entries: Vec<T> = keys.iter().map(|k| T::l(vec![key_t(k), op_t(rng)])).collect();
                    colsets.push(T::l(vec![T::n(c), T::l(entries)]));
                }
                sets.push(T::l(colsets));
            }
            commits.push(T::l(vec![height, T::i(1), T::l(sets)]));
        }
    }
    // queries
    let prefixes = all_keys(2);
    let mut queries = vec![];
    let mut qi = 0u64;
    let mut push = |queries: &mut Vec<T>, col: u64, p: Option<&[u8]>, s: Option<&[u8]>, d: u64| {
        qi += 1;
        queries.push(query(col, p, s, d, qi % 4 == 0));
    };
    for col in 0..3u64 {
        for d in 0..2u64 {
            push(&mut queries, col, None, None, d);
            for p in &prefixes {
                if col == 2 && p.is_empty() {
                    continue;
                }
                push(&mut queries, col, Some(p), None, d);
            }
        }
        let mut starts: Vec<Vec<u8>> = vec![];
        for k in &pools[col as usize] {
            for n in neighbours(k) {
                if !starts.contains(&n) {
                    starts.push(n);
                }
            }
        }
        let cap = if col == 0 { if thorough { 40 } else { 14 } } else { 4 };
        while starts.len() > cap {
            let i = rng.below(starts.len() as u64) as usize;
            starts.swap_remove(i);
        }
        for s in &starts {
            for d in 0..2u64 {
                push(&mut queries, col, None, Some(s), d);
                if col == 0 {
                    for p in &prefixes {
                        push(&mut queries, col, Some(p), Some(s), d);
                    }
                } else {
                    for l in 0..=s.len().min(2) {
                        if col == 2 && l == 0 {
                            continue;
                        }
                        push(&mut queries, col, Some(&s[..l]), Some(s), d);
                    }
                    let p = rng.pick(&prefixes).clone();
                    if !(col == 2 && p.is_empty()) {
                        push(&mut queries, col, Some(&p), Some(s), d);
                    }
                }
            }
        }
    }
    T::l(vec![T::list_n(&backends), T::l(commits), T::l(queries)])
}

/// directed family: reorgs two or three blocks deep.  Late blocks create / remove / overwrite keys that
/// the earlier blocks did not touch, the late blocks and at least one block below them are rolled back,
/// and the replacement blocks write the same keys with other contents at EARLIER heights; constant
/// policy with a window wider than the reorg, so the history stays gap-free and every rollback succeeds
fn gen_c12_reorg(rng: &mut Rng, tier: &str) -> T {
    let thorough = tier == "thorough";
    let start = *rng.pick(&[0u64, 1, 1, 2, 7]);
    let policy = *rng.pick(&[1u64, 1, 1, 6, 7, 9]);
    let mut pool: Vec<Vec<u8>> = vec![];
    while pool.len() < 4 {
        let k = vec![*rng.pick(&ALPHA), *rng.pick(&[0x00u8, 0x01])];
        if !pool.contains(&k) {
            pool.push(k);
        }
    }
    let mut v: u8 = 0;
    // one block over column 0: (key, Some(insert) | None(remove))
    let block = |mut es: Vec<(Vec<u8>, Option<u8>)>| -> T {
        es.sort();
        es.dedup_by(|a, b| a.0 == b.0);
        let entries: Vec<T> = es
            .iter()
            .map(|(k, o)| {
                let op = match o {
                    Some(x) => T::l(vec![T::i(1), T::bytes(&[*x])]),
                    None => T::l(vec![T::i(0)]),
                };
                T::l(vec![key_t(k), op])
            })
            .collect();
        T::l(vec![T::i(0), T::l(vec![T::l(vec![T::n(0u64), T::l(entries)])])])
    };
    let mut ops = vec![];
    let rounds = rng.range(1, if thorough { 3 } else { 2 });
    for _ in 0..rounds {
        // base blocks: only the first two keys
        for _ in 0..rng.range(1, 2) {
            let mut es = vec![];
            for k in &pool[..2] {
                if rng.chance(2, 3) {
                    v = v.wrapping_add(1);
                    es.push((k.clone(), if rng.chance(1, 5) { None } else { Some(v) }));
                }
            }
            ops.push(block(es));
        }
        // late blocks: the first creates (or removes) the third key, the next ones the fourth
        let late = rng.range(1, 2);
        for i in 0..late {
            let mut es = vec![];
            v = v.wrapping_add(1);
            let fresh = &pool[2 + (i as usize).min(1)];
            es.push((fresh.clone(), if rng.chance(1, 6) { None } else { Some(v) }));
            for k in &pool[..3] {
                if rng.chance(1, 3) {
                    v = v.wrapping_add(1);
                    es.push((k.clone(), if rng.chance(1, 3) { None } else { Some(v) }));
                }
            }
            ops.push(block(es));
        }
        // roll back the late blocks and one or two blocks below them (never more than was committed)
        let depth = late + rng.range(1, 2);
        for _ in 0..depth {
            ops.push(T::l(vec![T::i(1)]));
        }
        // replacement blocks: the keys of the late blocks now appear in the earliest replaced position
        let repl = depth.min(3) + rng.below(2);
        for i in 0..repl {
            let mut es = vec![];
            for (j, k) in pool.iter().enumerate() {
                let p = if i == 0 && j >= 2 { 4 } else { 2 };
                if rng.chance(p, 5) {
                    v = v.wrapping_add(1);
                    es.push((k.clone(), if rng.chance(1, 5) { None } else { Some(v) }));
                }
            }
            ops.push(block(es));
        }
    }
    T::l(vec![T::n(start), T::n(policy), T::l(ops)])
}

fn gen_c12_case(rng: &mut Rng, tier: &str, idx: u64) -> T {
    if idx % 3 == 1 {
        return gen_c12_reorg(rng, tier);
    }
    let thorough = tier == "thorough";
    let start = *rng.pick(&[0u64, 0, 1, 1, 2, 7]);
    // keys: mostly one length per column (what the real tables have); sometimes mixed lengths
    let mixed = idx % 5 == 4;
    let pools: Vec<Vec<Vec<u8>>> = (0..2)
        .map(|_| {
            let n = rng.range(2, 4);
            let mut pool: Vec<Vec<u8>> = vec![];
            while pool.len() < n as usize {
                let k = if mixed {
                    let mut k = vec![*rng.pick(&[0x00u8, 0x01])];
                    for _ in 0..rng.below(3) {
                        k.push(*rng.pick(&[0x00u8, 0x00, 0x01]));
                    }
                    k
                } else {
                    vec![*rng.pick(&ALPHA), *rng.pick(&[0x00u8, 0x01])]
                };
                if !pool.contains(&k) {
                    pool.push(k);
                }
            }
            pool
        })
        .collect();
    // policy regime: 0 constant, 1 growing ranges, 2 free (shrinking and NoRewind interludes)
    let regime = (idx / 3) % 3;
    let pick_policy = |rng: &mut Rng, cur: u64| -> u64 {
        match regime {
            0 => cur,
            1 => match cur {
                0 => 0,
                1 => 1,
                k => *rng.pick(&[k, k + 1, k + 2, 1]),
            },
            _ => *rng.pick(&[0u64, 1, 2, 3, 4, 5, 6, 7]),
        }
    };
    let mut policy = match regime {
        0 => *rng.pick(&[1u64, 1, 2, 3, 4, 6, 0]),
        1 => *rng.pick(&[2u64, 3, 4]),
        _ => *rng.pick(&[1u64, 2, 3, 4, 5, 6, 7]),
    };
    let init_policy = policy;
    let n_ops = rng.range(3, if thorough { 30 } else { 16 });
    let mut ops = vec![];
    let mut restarts = 0;
    for _ in 0..n_ops {
        let r = rng.below(100);
        if r < 62 {
            let cols: Vec<u64> = (0..2u64).filter(|c| *c == 0 || rng.chance(1, 2)).collect();
            let mut set = change_set(rng, &pools[..], &cols, 55);
            if rng.chance(1, 10) {
                set = T::l(vec![]);
            }
            ops.push(T::l(vec![T::i(0), set]));
        } else if r < 82 {
            ops.push(T::l(vec![T::i(1)]));
        } else if restarts < (if thorough { 6 } else { 3 }) {
            restarts += 1;
            policy = pick_policy(rng, policy);
            ops.push(T::l(vec![T::i(2), T::n(policy)]));
        } else {
            ops.push(T::l(vec![T::i(1)]));
        }
    }
    T::l(vec![T::n(start), T::n(init_policy), T::l(ops)])
}

fn gen(prop: &str, rng: &mut Rng, n: u64, tier: &str) -> Vec<T> {
    match prop {
        "C11" => (0..n).map(|i| gen_c11_case(rng, tier, i)).collect(),
        "C12" => (0..n).map(|i| gen_c12_case(rng, tier, i)).collect(),
        p => panic!("unknown property {p}"),
    }
}

fn run(prop: &str, input: &T) -> T {
    match prop {
        "C11" => run_c11(input),
        "C12" => run_c12(input),
        p => panic!("unknown property {p}"),
    }
}

fn main() {
    vcommon::main_protocol(gen, run);
}
