//! C34: fuel_gas_price_algorithm::v1::AlgorithmUpdaterV1 driven by sequences of
//! update_l2_block_data / update_da_record_data calls from arbitrary (public-field) states.
//!
//! input  = (cfg tracker blocks ops)
//!   cfg     = 19 numbers: new_scaled_exec_price min_exec_gas_price exec_gas_price_change_percent
//!             l2_block_height l2_block_fullness_threshold_percent(raw u8) new_scaled_da_gas_price
//!             gas_price_factor min_da_gas_price max_da_gas_price max_da_gas_price_change_percent
//!             total_da_rewards latest_known_total_da_cost projected_total_da_cost da_p_component
//!             da_d_component last_profit second_to_last_profit latest_da_cost_per_byte
//!             unrecorded_blocks_bytes
//!   tracker = (normal_range capped_range decrease_range activity block_activity_threshold(raw u8))
//!   blocks  = ((height bytes) ...)   initial unrecorded blocks (BTreeMap)
//!   ops     = ((0 height used capacity block_bytes fee_wei) | (1 start end recorded_bytes cost) ...)
//! observation = ((state blocks calculate) ((result state blocks calculate) ...))
//!   state  = the 19 numbers above + max_activity capped_activity_threshold
//!            decrease_activity_threshold chain_activity block_activity_threshold
//!   result = 0 Ok | 1 SkippedL2Block | 2 CouldNotCalculateCostPerByte | 9 zero capacity
//!            (rejected like v1/service.rs validate_block_gas_capacity, updater not called)
use fuel_gas_price_algorithm::v1::{AlgorithmUpdaterV1, ClampedPercentage, Error, L2ActivityTracker};
use std::collections::BTreeMap;
use std::num::NonZeroU64;
use vcommon::{catch, Rng, T};

fn as_i128(t: &T) -> i128 {
    t.as_i()
}

fn state_t(u: &AlgorithmUpdaterV1) -> T {
    T::l(vec![
        T::n(u.new_scaled_exec_price),
        T::n(u.min_exec_gas_price),
        T::n(u.exec_gas_price_change_percent),
        T::n(u.l2_block_height),
        T::n(*u.l2_block_fullness_threshold_percent),
        T::n(u.new_scaled_da_gas_price),
        T::n(u.gas_price_factor.get()),
        T::n(u.min_da_gas_price),
        T::n(u.max_da_gas_price),
        T::n(u.max_da_gas_price_change_percent),
        T::n(u.total_da_rewards),
        T::n(u.latest_known_total_da_cost),
        T::n(u.projected_total_da_cost),
        T::i(u.da_p_component),
        T::i(u.da_d_component),
        T::i(u.last_profit),
        T::i(u.second_to_last_profit),
        T::n(u.latest_da_cost_per_byte),
        T::n(u.unrecorded_blocks_bytes),
        T::n(u.l2_activity.max_activity()),
        T::n(u.l2_activity.capped_activity_threshold()),
        T::n(u.l2_activity.decrease_activity_threshold()),
        T::n(u.l2_activity.current_activity()),
        T::n(*u.l2_activity.block_activity_threshold()),
    ])
}

fn blocks_t(b: &BTreeMap<u32, u64>) -> T {
    T::l(b.iter().map(|(h, x)| T::l(vec![T::n(*h), T::n(*x)])).collect())
}

fn snapshot(u: &AlgorithmUpdaterV1, b: &BTreeMap<u32, u64>) -> Vec<T> {
    vec![state_t(u), blocks_t(b), T::n(u.algorithm().calculate())]
}

pub fn run(input: &T) -> T {
    let input = input.clone();
    catch(move || {
        let f = input.as_l();
        let c = f[0].as_l();
        let t = f[1].as_l();
        let l2_activity = L2ActivityTracker::new(
            t[0].as_u16(),
            t[1].as_u16(),
            t[2].as_u16(),
            t[3].as_u16(),
            ClampedPercentage::new(t[4].as_u8()),
        );
        let mut u = AlgorithmUpdaterV1 {
            new_scaled_exec_price: c[0].as_u64(),
            min_exec_gas_price: c[1].as_u64(),
            exec_gas_price_change_percent: c[2].as_u16(),
            l2_block_height: c[3].as_u32(),
            l2_block_fullness_threshold_percent: ClampedPercentage::new(c[4].as_u8()),
            new_scaled_da_gas_price: c[5].as_u64(),
            gas_price_factor: NonZeroU64::new(c[6].as_u64()).expect("factor must be non-zero"),
            min_da_gas_price: c[7].as_u64(),
            max_da_gas_price: c[8].as_u64(),
            max_da_gas_price_change_percent: c[9].as_u16(),
            total_da_rewards: c[10].as_u128(),
            latest_known_total_da_cost: c[11].as_u128(),
            projected_total_da_cost: c[12].as_u128(),
            da_p_component: i64::try_from(as_i128(&c[13])).expect("i64"),
            da_d_component: i64::try_from(as_i128(&c[14])).expect("i64"),
            last_profit: as_i128(&c[15]),
            second_to_last_profit: as_i128(&c[16]),
            latest_da_cost_per_byte: c[17].as_u128(),
            l2_activity,
            unrecorded_blocks_bytes: c[18].as_u128(),
        };
        let mut blocks: BTreeMap<u32, u64> = BTreeMap::new();
        for hb in f[2].as_l() {
            let hb = hb.as_l();
            blocks.insert(hb[0].as_u32(), hb[1].as_u64());
        }
        let init = T::l(snapshot(&u, &blocks));
        let mut steps = vec![];
        for op in f[3].as_l() {
            let o = op.as_l();
            let res: i128 = match o[0].as_i() {
                0 => match NonZeroU64::new(o[3].as_u64()) {
                    None => 9,
                    Some(cap) => tag(u.update_l2_block_data(
                        o[1].as_u32(),
                        o[2].as_u64(),
                        cap,
                        o[4].as_u64(),
                        o[5].as_u128(),
                        &mut blocks,
                    )),
                },
                1 => tag(u.update_da_record_data(
                    o[1].as_u32()..=o[2].as_u32(),
                    o[3].as_u32(),
                    o[4].as_u128(),
                    &mut blocks,
                )),
                k => panic!("bad op {k}"),
            };
            let mut s = vec![T::i(res)];
            s.extend(snapshot(&u, &blocks));
            steps.push(T::l(s));
        }
        T::l(vec![init, T::l(steps)])
    })
}

fn tag(r: Result<(), Error>) -> i128 {
    match r {
        Ok(()) => 0,
        Err(Error::SkippedL2Block { .. }) => 1,
        Err(Error::CouldNotCalculateCostPerByte { .. }) => 2,
        Err(Error::FailedToIncludeL2BlockData(_)) => 3,
        Err(Error::L2BlockExpectedNotFound { .. }) => 4,
        Err(Error::CouldNotInsertUnrecordedBlock(_)) => 5,
        Err(Error::CouldNotRemoveUnrecordedBlock(_)) => 6,
    }
}

// ---------------------------------------------------------------------------------------
// generators

fn pick_u64(rng: &mut Rng, small: &[u64]) -> u64 {
    match rng.below(10) {
        0..=5 => *rng.pick(small),
        6 => rng.below(1000),
        7 => u64::MAX - rng.below(3),
        8 => rng.next() >> rng.below(64),
        _ => rng.next(),
    }
}

fn pick_u128(rng: &mut Rng) -> u128 {
    match rng.below(12) {
        0 => 0,
        1 => rng.below(100) as u128,
        2..=5 => rng.below(1_000_000_000_000) as u128,
        6 => (rng.next() as u128) * 1_000_000_000,
        7 => u128::MAX - rng.below(3) as u128,
        8 => i128::MAX as u128 + rng.below(3) as u128 - 1,
        9 => ((rng.next() as u128) << 64) | rng.next() as u128,
        _ => rng.next() as u128,
    }
}

fn pick_i128(rng: &mut Rng) -> i128 {
    match rng.below(12) {
        0 => 0,
        1 => i128::MIN,
        2 => i128::MAX,
        3 => i128::MIN + 1,
        4 => -(rng.below(1000) as i128),
        5 => rng.below(1000) as i128,
        6 | 7 => rng.next() as i64 as i128,
        8 => (((rng.next() as u128) << 64) | rng.next() as u128) as i128,
        _ => (rng.next() as i64 as i128) * 1_000_000,
    }
}

fn pick_i64(rng: &mut Rng) -> i64 {
    match rng.below(12) {
        0 => 0,
        1 => 1,
        2 => -1,
        3 => i64::MIN,
        4 => i64::MAX,
        5 | 6 => rng.below(100) as i64 + 1,
        7 => -(rng.below(100) as i64) - 1,
        8 => rng.next() as i64,
        _ => (rng.below(1_000_000) as i64) - 500_000,
    }
}

fn pick_pct(rng: &mut Rng) -> u16 {
    *rng.pick(&[0u16, 0, 1, 2, 5, 10, 10, 20, 50, 99, 100, 101, 150, 200, 1000, 65535])
}

fn pick_u16(rng: &mut Rng) -> u16 {
    match rng.below(6) {
        0 => 0,
        1 => rng.below(4) as u16,
        2 => rng.below(100) as u16,
        3 => u16::MAX - rng.below(2) as u16,
        _ => rng.below(12) as u16,
    }
}

const FACTORS: [u64; 10] = [1, 1, 2, 10, 100, 1_000_000_000, 1 << 32, 1 << 63, u64::MAX, u64::MAX - 1];
const PRICES: [u64; 14] = [0, 1, 2, 9, 10, 11, 99, 100, 101, 199, 1000, 12345, 1_000_000, 1_000_000_007];

struct Cfg {
    cfg: Vec<T>,
    tracker: Vec<T>,
    height: u32,
}

fn gen_cfg(rng: &mut Rng, mild: bool) -> Cfg {
    let factor = if mild { *rng.pick(&[1u64, 10, 100, 1000]) } else if rng.chance(1, 5) { rng.next().max(1) } else { *rng.pick(&FACTORS) };
    let min_exec = if mild { rng.below(20) } else { pick_u64(rng, &[0, 0, 1, 5, 10, 1000]) };
    let exec_price = if mild { rng.range(0, 5000) * factor.min(1000) } else { pick_u64(rng, &PRICES) };
    let da_price = if mild { rng.range(0, 5000) * factor.min(1000) } else { pick_u64(rng, &PRICES) };
    let min_da = if mild { rng.below(20) } else { pick_u64(rng, &[0, 0, 1, 5, 10, 1000]) };
    let max_da = if mild {
        rng.range(20, 100_000)
    } else if rng.chance(1, 5) {
        min_da.saturating_sub(rng.below(3)) // min > max or equal
    } else {
        pick_u64(rng, &[0, 1, 10, 100, 1000, 1_000_000, u64::MAX])
    };
    let height = match rng.below(8) {
        0 => u32::MAX,
        1 => u32::MAX - 1 - rng.below(6) as u32,
        2 => 0,
        _ => rng.below(1000) as u32,
    };
    let cfg = vec![
        T::n(exec_price),
        T::n(min_exec),
        T::n(if mild { *rng.pick(&[1u16, 2, 5, 10, 20]) } else { pick_pct(rng) }),
        T::n(height),
        T::n(if rng.chance(1, 6) { rng.below(256) as u8 } else { *rng.pick(&[0u8, 1, 50, 50, 80, 100, 101]) }),
        T::n(da_price),
        T::n(factor),
        T::n(min_da),
        T::n(max_da),
        T::n(if mild { *rng.pick(&[1u16, 2, 5, 10, 20]) } else { pick_pct(rng) }),
        T::n(if mild { rng.below(1_000_000) as u128 } else { pick_u128(rng) }),
        T::n(if mild { rng.below(1_000_000) as u128 } else { pick_u128(rng) }),
        T::n(if mild { rng.below(1_000_000) as u128 } else { pick_u128(rng) }),
        T::i(if mild { *rng.pick(&[1i64, -1, 2, 10, -10, 100, 0]) } else { pick_i64(rng) }),
        T::i(if mild { *rng.pick(&[1i64, -1, 2, 10, -10, 100, 0]) } else { pick_i64(rng) }),
        T::i(if mild { rng.below(2000) as i128 - 1000 } else { pick_i128(rng) }),
        T::i(if mild { rng.below(2000) as i128 - 1000 } else { pick_i128(rng) }),
        T::n(if mild { rng.below(100) as u128 } else { pick_u128(rng) }),
        T::n(if mild { rng.below(10_000) as u128 } else { pick_u128(rng) }),
    ];
    let tracker = vec![
        T::n(pick_u16(rng)),
        T::n(pick_u16(rng)),
        T::n(pick_u16(rng)),
        T::n(pick_u16(rng)),
        T::n(if rng.chance(1, 6) { rng.below(256) as u8 } else { *rng.pick(&[0u8, 1, 20, 50, 100, 200]) }),
    ];
    Cfg { cfg, tracker, height }
}

fn gen_ops(rng: &mut Rng, start_height: u32, len: u64, mild: bool) -> Vec<T> {
    let mut h = start_height;
    let mut ops = vec![];
    for _ in 0..len {
        if rng.chance(3, 4) {
            // L2 block
            let expected = h.saturating_add(1);
            let height = match rng.below(14) {
                0 => expected.saturating_add(1 + rng.below(3) as u32), // skipped
                1 => h,                                                // repeated
                2 => if rng.chance(1, 2) { rng.next() as u32 } else { expected.wrapping_sub(2) },
                _ => expected,
            };
            let capacity = match rng.below(10) {
                0 if !mild => 0,
                1 => 1,
                2 => rng.range(1, 10),
                3 if !mild => u64::MAX - rng.below(2),
                _ => *rng.pick(&[100u64, 1000, 30_000_000]),
            };
            let used = match rng.below(10) {
                0 => 0,
                1 => capacity,
                2 => capacity.saturating_add(rng.below(3)),
                3 if !mild => rng.next(),
                4 => capacity / 2,
                5 => (capacity / 2).saturating_sub(1),
                _ => rng.below(capacity.max(1).saturating_add(1).max(1)),
            };
            let bytes = if mild { rng.below(5000) } else { pick_u64(rng, &[0, 1, 100, 1000, 100_000]) };
            let fee = if mild { (rng.below(1_000_000) as u128) * 1_000_000_000 } else { pick_u128(rng) };
            if height == expected && capacity != 0 {
                h = height;
            }
            ops.push(T::l(vec![T::i(0), T::n(height), T::n(used), T::n(capacity), T::n(bytes), T::n(fee)]));
        } else {
            // DA record over a narrow range around recently produced heights
            let base = h.saturating_sub(rng.below(12) as u32);
            let (s, e) = match rng.below(10) {
                0 => (base.saturating_add(1), base),                        // empty
                1 => (base, base),                                           // singleton
                2 => (u32::MAX - rng.below(3) as u32, u32::MAX),             // at the top
                _ => (base, base.saturating_add(rng.below(12) as u32)),
            };
            let rb: u32 = match rng.below(10) {
                0 => 0,
                1 => 1,
                2 if !mild => u32::MAX,
                _ => rng.range(1, 200_000) as u32,
            };
            let cost = if mild { rng.below(10_000_000) as u128 } else { pick_u128(rng) };
            ops.push(T::l(vec![T::i(1), T::n(s), T::n(e), T::n(rb), T::n(cost)]));
        }
    }
    ops
}

fn gen_blocks(rng: &mut Rng, height: u32) -> Vec<T> {
    let mut hs: Vec<u32> = vec![];
    for _ in 0..rng.below(6) {
        let h = if rng.chance(1, 6) { rng.next() as u32 } else { height.saturating_sub(rng.below(10) as u32) };
        if !hs.contains(&h) {
            hs.push(h);
        }
    }
    hs.sort();
    hs.into_iter()
        .map(|h| {
            let b = if rng.chance(1, 8) { u64::MAX } else { rng.below(100_000) };
            T::l(vec![T::n(h), T::n(b)])
        })
        .collect()
}

pub fn gen(rng: &mut Rng, n: u64, tier: &str) -> Vec<T> {
    let mut cases = vec![];
    let thorough = tier == "thorough";
    // boundary sweep: one L2 update for every price around the percent/100 rounding boundaries,
    // every percentage class, factor 1 / huge, full / empty block
    for &price in &[0u64, 1, 49, 50, 99, 100, 101, 150, 199, 200, u64::MAX / 2, u64::MAX - 1, u64::MAX] {
        for &pct in &[0u16, 1, 50, 99, 100, 101, 200, 65535] {
            for &factor in &[1u64, 100, u64::MAX] {
                for &used in &[0u64, 100] {
                    for &(min, max) in &[(0u64, 0u64), (1, 1000), (1000, 1), (u64::MAX, 0)] {
                        let c = vec![
                            T::n(price), T::n(min), T::n(pct), T::n(7u32), T::n(50u8), T::n(price), T::n(factor),
                            T::n(min), T::n(max), T::n(pct), T::n(1000u32), T::n(500u32), T::n(700u32),
                            T::i(if used == 0 { 1 } else { -1 }), T::i(0), T::i(if used == 0 { 100_000 } else { -100_000 }),
                            T::i(0), T::n(3u32), T::n(100u32),
                        ];
                        let t = vec![T::n(10u16), T::n(0u16), T::n(0u16), T::n(10u16), T::n(0u8)];
                        let ops = vec![
                            T::l(vec![T::i(0), T::n(8u32), T::n(used), T::n(100u32), T::n(10u32), T::n(0u32)]),
                            T::l(vec![T::i(1), T::n(8u32), T::n(8u32), T::n(10u32), T::n(1000u32)]),
                        ];
                        cases.push(T::l(vec![T::l(c), T::l(t), T::l(vec![]), T::l(ops)]));
                    }
                }
            }
        }
    }
    for i in 0..n {
        let mild = i % 3 == 0; // realistic configurations where the PID part actually moves the price
        let c = gen_cfg(rng, mild);
        let len = match rng.below(20) {
            0 => rng.range(100, if thorough { 1000 } else { 300 }),
            1..=5 => rng.range(20, 60),
            _ => rng.range(1, 20),
        };
        let blocks = gen_blocks(rng, c.height);
        let ops = gen_ops(rng, c.height, len, mild);
        cases.push(T::l(vec![T::l(c.cfg), T::l(c.tracker), T::l(blocks), T::l(ops)]));
    }
    cases
}
