//! Correspondence harness for the gas price cluster: drives the real
//! fuel-gas-price-algorithm crate on generated inputs and prints canonical observations.
mod c34;
mod c35;

use vcommon::{Rng, T};

fn gen(prop: &str, rng: &mut Rng, n: u64, tier: &str) -> Vec<T> {
    match prop {
        "C34" => c34::gen(rng, n, tier),
        "C35" => c35::gen(rng, n, tier),
        p => panic!("unknown property {p}"),
    }
}

fn run(prop: &str, input: &T) -> T {
    match prop {
        "C34" => c34::run(input),
        "C35" => c35::run(input),
        p => panic!("unknown property {p}"),
    }
}

fn main() {
    vcommon::main_protocol(gen, run);
}
