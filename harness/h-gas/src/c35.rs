//! C35: fuel_gas_price_algorithm::cumulative_percentage_change and AlgorithmV1::worst_case.
//!
//! input  = (price for_height percentage (height ...) da_price da_percentage)
//! observation = ((r mbits r_da mbits_da worst) ...)   one entry per height, where
//!   r       = cumulative_percentage_change(price, for_height, percentage, height), -777 on panic
//!   mbits   = bit pattern of exp(blocks * ln(1 + percentage/100)) as computed by this binary's libm
//!             (the multiplier of the non-table branch; the model uses it only there)
//!   r_da / mbits_da = the same for (da_price, da_percentage)
//!   worst   = AlgorithmUpdaterV1{..}.algorithm().worst_case(height) with gas_price_factor 1, exec
//!             price = price, DA price = da_price; -777 on panic; -1 when a percentage exceeds u16
use fuel_gas_price_algorithm::cumulative_percentage_change;
use fuel_gas_price_algorithm::v1::{AlgorithmUpdaterV1, ClampedPercentage, L2ActivityTracker};
use std::num::NonZeroU64;
use vcommon::{Rng, T};

fn libm_multiple(blocks: u32, percentage: u64) -> f64 {
    // same expression as the non-table branch of cumulative_percentage_change
    f64::exp(blocks as f64 * (1.0 + percentage as f64 / 100.0).ln())
}

fn guarded<F: FnOnce() -> u64 + std::panic::UnwindSafe>(f: F) -> T {
    match std::panic::catch_unwind(f) {
        Ok(v) => T::n(v),
        Err(_) => T::i(-777),
    }
}

fn updater(price: u64, pct: u16, da_price: u64, da_pct: u16, height: u32) -> AlgorithmUpdaterV1 {
    AlgorithmUpdaterV1 {
        new_scaled_exec_price: price,
        min_exec_gas_price: 0,
        exec_gas_price_change_percent: pct,
        l2_block_height: height,
        l2_block_fullness_threshold_percent: ClampedPercentage::new(50),
        new_scaled_da_gas_price: da_price,
        gas_price_factor: NonZeroU64::new(1).unwrap(),
        min_da_gas_price: 0,
        max_da_gas_price: u64::MAX,
        max_da_gas_price_change_percent: da_pct,
        total_da_rewards: 0,
        latest_known_total_da_cost: 0,
        projected_total_da_cost: 0,
        da_p_component: 0,
        da_d_component: 0,
        last_profit: 0,
        second_to_last_profit: 0,
        latest_da_cost_per_byte: 0,
        l2_activity: L2ActivityTracker::new_always_normal(),
        unrecorded_blocks_bytes: 0,
    }
}

pub fn run(input: &T) -> T {
    let f = input.as_l();
    let price = f[0].as_u64();
    let for_height = f[1].as_u32();
    let pct = f[2].as_u64();
    let da_price = f[4].as_u64();
    let da_pct = f[5].as_u64();
    let mut out = vec![];
    for h in f[3].as_l() {
        let h = h.as_u32();
        let blocks = h.saturating_sub(for_height);
        let r = guarded(move || cumulative_percentage_change(price, for_height, pct, h));
        let r_da = guarded(move || cumulative_percentage_change(da_price, for_height, da_pct, h));
        let worst = if pct <= u16::MAX as u64 && da_pct <= u16::MAX as u64 {
            guarded(move || {
                updater(price, pct as u16, da_price, da_pct as u16, for_height)
                    .algorithm()
                    .worst_case(h)
            })
        } else {
            T::i(-1)
        };
        out.push(T::l(vec![
            r,
            T::n(libm_multiple(blocks, pct).to_bits()),
            r_da,
            T::n(libm_multiple(blocks, da_pct).to_bits()),
            worst,
        ]));
    }
    T::l(out)
}

// ---------------------------------------------------------------------------------------

const PRICES: [u64; 22] = [
    0,
    1,
    2,
    3,
    99,
    100,
    101,
    1_000_000_000,
    (1 << 50) - 1,
    1 << 50,
    (1 << 53) - 1,
    1 << 53,
    (1 << 53) + 1,
    10_000_000_000_000_000,
    16_948_547_188_989_277,
    16_948_547_188_989_278,
    100_000_000_000_000_000,
    1 << 62,
    (1 << 63) + 1025,
    u64::MAX / 175,
    u64::MAX - 1,
    u64::MAX,
];

fn price(rng: &mut Rng) -> u64 {
    match rng.below(8) {
        0 | 1 => *rng.pick(&PRICES),
        2 => rng.below(100_000),
        3 => rng.next() >> rng.below(64),
        4 => (1u64 << rng.range(44, 63)).wrapping_add(rng.below(5)).wrapping_sub(2),
        5 => 10u64.pow(rng.range(10, 19) as u32) + rng.below(3),
        6 => rng.below(1 << 40),
        _ => rng.next(),
    }
}

fn pct(rng: &mut Rng) -> u64 {
    match rng.below(10) {
        0..=4 => rng.below(28),
        5 => rng.range(23, 27),
        6 => rng.range(28, 300),
        7 => *rng.pick(&[65535u64, 65536, 1 << 32, u64::MAX, u64::MAX - 1, 1 << 53]),
        8 => rng.next() >> rng.below(64),
        _ => rng.below(101),
    }
}

fn case(price: u64, fh: u32, pct: u64, hs: &[u32], da_price: u64, da_pct: u64) -> T {
    T::l(vec![T::n(price), T::n(fh), T::n(pct), T::list_n(hs), T::n(da_price), T::n(da_pct)])
}

pub fn gen(rng: &mut Rng, n: u64, tier: &str) -> Vec<T> {
    let thorough = tier == "thorough";
    let mut cases = vec![];
    // exhaustive over the table region and its rim: every percentage 0..=27 x every horizon 0..=27
    // (all horizons of one (price, percentage) in one case so that monotonicity is checked across the
    // table / libm seam), for every boundary price
    let prices: Vec<u64> = if thorough { PRICES.to_vec() } else { PRICES.iter().step_by(2).copied().collect() };
    for (i, &p) in prices.iter().enumerate() {
        for pc in 0..=27u64 {
            let fh = [0u32, 5, 1000, u32::MAX - 27][(i + pc as usize) % 4];
            let hs: Vec<u32> = (0..=27u32).map(|b| fh.saturating_add(b)).collect();
            cases.push(case(p, fh, pc, &hs, PRICES[(i * 7 + pc as usize) % PRICES.len()], 27 - pc));
        }
    }
    for _ in 0..n {
        let fh = match rng.below(6) {
            0 => 0,
            1 => u32::MAX - rng.below(40) as u32,
            _ => rng.next() as u32 >> rng.below(32),
        };
        let k = rng.range(1, 8);
        let mut hs: Vec<u32> = (0..k)
            .map(|_| match rng.below(12) {
                0 => fh.saturating_sub(rng.below(5) as u32),             // target below best height
                1 => fh.saturating_add(rng.range(23, 27) as u32),        // around the table size
                2 => fh.saturating_add(rng.range(28, 300) as u32),
                3 => fh.saturating_add(rng.range(300, 100_000) as u32),
                4 => u32::MAX,
                5 => rng.next() as u32,
                _ => fh.saturating_add(rng.below(28) as u32),
            })
            .collect();
        if rng.chance(3, 4) {
            hs.sort();
        }
        cases.push(case(price(rng), fh, pct(rng), &hs, price(rng), pct(rng)));
    }
    cases
}
