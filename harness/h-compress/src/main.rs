//! C33 correspondence harness: real `fuel_core_compression::{compress, decompress}` driven through the
//! storage-backed ports of fuel-core-compression-service (CompressionContext / DecompressionContext over
//! the in-memory test storage, one store for the compressor, an independent one for the decompressor).
//!
//! input  = (retention_secs retention_nanos (op ...))
//!   op   = (0 height time (tx ...) (mint_contract mint_asset))     a block
//!        | (1 keyspace key)                                        EvictorDb::set_latest_assigned_key on the compressor
//!   tx   = (script (input ...) (output ...)) | (script (input ...) (output ...) mal)
//!          mal != 0: the transaction is in "executed" form, i.e. its malleable compress(skip) fields
//!          (script receipts_root, contract-input utxo_id / roots / tx_pointer, change amount, variable
//!          output, contract-output roots) are non-default; the mint may carry a third element likewise
//!   input  = (0 contract) | (1 predicate) message-coin predicate | (2 predicate) coin predicate | (3) coin signed
//!   output = (0 addr asset) coin | (1 addr asset) change | (2 contract) contract created | (3) variable | (4) contract
//!   all registry values are small ids; id 0 = the type's default value.
//! observation = one entry per op:
//!   block, compressed:  (0 ((ks key) ...per tx...) (regs x5) dstatus hdr_eq txs_eq ids_eq ctables dtables)
//!                       txs_eq: decompressed transactions == original; ids_eq: same transaction ids
//!   block, compress failed: (1 ctables dtables)
//!   cursor op: (2)
//!   tables = per keyspace ((key val ts) ...sorted) ((val key) ...sorted) [latest-assigned-key option, compressor only]
mod gen;

use fuel_core_compression::{
    compress::compress, decompress::decompress, ports::EvictorDb, Config, VersionedBlockPayload,
    VersionedCompressedBlock,
};
use fuel_core_compression_service::{
    storage::{
        column::CompressionColumn,
        evictor_cache::MetadataKey,
        registry_index::ReverseKey,
        timestamps::{TimestampKey, TimestampKeyspace},
    },
    temporal_registry::{CompressionContext, CompressionStorageWrapper, DecompressionContext},
};
use fuel_core_storage::{
    column::Column,
    kv_store::{StorageColumn, WriteOperation},
    merkle::column::MerkleizedColumn,
    structured_storage::test::InMemoryStorage,
    tables::{Coins, FuelBlocks, Messages},
    transactional::{IntoTransaction, ReadTransaction, StorageTransaction, WriteTransaction},
    StorageAsMut,
};
use fuel_core_types::{
    blockchain::{
        block::{Block, PartialFuelBlock},
        header::{ApplicationHeader, ConsensusHeader, PartialBlockHeader},
        primitives::{DaBlockHeight, Empty},
    },
    entities::{
        coins::coin::{CompressedCoin, CompressedCoinV1},
        relayer::message::{Message, MessageV1},
    },
    fuel_compression::{Compressible, RegistryKey},
    fuel_crypto::Hasher,
    fuel_tx::{
        self, input::PredicateCode, policies::Policies, Address, AssetId, Bytes32, CompressedTransaction,
        field::ReceiptsRoot, ContractId, Input, Output, ScriptCode, Transaction, TxPointer, UniqueIdentifier, UtxoId,
    },
    fuel_types::{BlockHeight, ChainId, Nonce},
    tai64::Tai64,
};
use futures::FutureExt;
use std::collections::BTreeMap;
use vcommon::{catch, Rng, T};

type CCol = MerkleizedColumn<CompressionColumn>;
type CStore = StorageTransaction<InMemoryStorage<CCol>>;
type OnChain = StorageTransaction<InMemoryStorage<Column>>;
type CInput = <Input as Compressible>::Compressed;
type COutput = <Output as Compressible>::Compressed;

const KS_ADDRESS: u32 = 0;
const KS_ASSET: u32 = 1;
const KS_CONTRACT: u32 = 2;
const KS_SCRIPT: u32 = 3;
const KS_PREDICATE: u32 = 4;

fn b32(id: u32) -> [u8; 32] {
    let mut b = [0u8; 32];
    b[28..32].copy_from_slice(&id.to_be_bytes());
    b
}
fn id_of32(b: &[u8]) -> i128 {
    if b.len() == 32 && b[..28].iter().all(|x| *x == 0) {
        u32::from_be_bytes([b[28], b[29], b[30], b[31]]) as i128
    } else {
        -2
    }
}
/// code bytes of a script / predicate id: empty for the default, else the id repeated (length varies with the id)
fn code(id: u32) -> Vec<u8> {
    if id == 0 {
        return vec![];
    }
    let reps = 1 + (id % 3) as usize;
    let mut v = vec![];
    for _ in 0..reps {
        v.extend_from_slice(&id.to_be_bytes());
    }
    v
}
fn id_of_code(b: &[u8]) -> i128 {
    if b.is_empty() {
        return 0;
    }
    if b.len() >= 4 {
        let id = u32::from_be_bytes([b[0], b[1], b[2], b[3]]);
        if code(id) == b {
            return id as i128;
        }
    }
    -2
}

fn key(raw: u32) -> RegistryKey {
    RegistryKey::try_from(raw).expect("24-bit key")
}

/// the single on-chain transaction all coins of the harness come from (block 0, index 0)
fn origin_tx() -> Transaction {
    Transaction::Script(Transaction::script(1, vec![7u8; 4], vec![], Policies::new(), vec![], vec![], vec![]))
}
fn origin_tx_id() -> Bytes32 {
    origin_tx().id(&ChainId::default())
}
fn empty_block() -> Block {
    let header = PartialBlockHeader {
        application: ApplicationHeader::<Empty>::default(),
        consensus: ConsensusHeader::<Empty> { height: BlockHeight::new(0), ..Default::default() },
    };
    PartialFuelBlock::new(header, vec![]).generate(&[], Default::default()).expect("block")
}
const N_COINS: u16 = 6;
const N_MSGS: u8 = 6;
fn coin_info(j: u16) -> (Address, u64, AssetId) {
    (Address::new(b32(1000 + j as u32)), 500 + j as u64, AssetId::new(b32(2000 + j as u32)))
}
fn msg_nonce(j: u8) -> Nonce {
    Nonce::new([j + 1; 32])
}
fn msg_info(j: u8) -> (Address, Address, u64) {
    (Address::new(b32(3000 + j as u32)), Address::new(b32(4000 + j as u32)), 70 + j as u64)
}

fn onchain_db() -> OnChain {
    let mut db: OnChain = InMemoryStorage::<Column>::default().into_transaction();
    // block 0 with the one origin transaction id
    let header = PartialBlockHeader {
        application: ApplicationHeader::<Empty>::default(),
        consensus: ConsensusHeader::<Empty> { height: BlockHeight::new(0), ..Default::default() },
    };
    let block: Block =
        PartialFuelBlock::new(header, vec![origin_tx()]).generate(&[], Default::default()).expect("block");
    let compressed = block.compress(&ChainId::default());
    assert_eq!(compressed.transactions(), &[origin_tx_id()]);
    db.storage_as_mut::<FuelBlocks>().insert(&BlockHeight::new(0), &compressed).expect("insert block");
    for j in 0..N_COINS {
        let (owner, amount, asset_id) = coin_info(j);
        let coin: CompressedCoin =
            CompressedCoinV1 { owner, amount, asset_id, tx_pointer: TxPointer::default() }.into();
        db.storage_as_mut::<Coins>().insert(&UtxoId::new(origin_tx_id(), j), &coin).expect("insert coin");
    }
    for j in 0..N_MSGS {
        let (sender, recipient, amount) = msg_info(j);
        let m: Message = MessageV1 {
            sender,
            recipient,
            nonce: msg_nonce(j),
            amount,
            data: vec![],
            da_height: DaBlockHeight(0),
        }
        .into();
        db.storage_as_mut::<Messages>().insert(&msg_nonce(j), &m).expect("insert message");
    }
    db
}

fn build_tx(t: &T, salt: u64) -> Transaction {
    let f = t.as_l();
    let script = code(f[0].as_u32());
    let mal: u8 = if f.len() > 3 { f[3].as_u64() as u8 } else { 0 };
    let mroot = |d: u8| if mal == 0 { Bytes32::default() } else { Bytes32::new([mal.wrapping_add(d); 32]) };
    let mut inputs = vec![];
    for (i, inp) in f[1].as_l().iter().enumerate() {
        let o = inp.as_l();
        let sel = (salt as usize + i) as u64;
        inputs.push(match o[0].as_i() {
            0 => Input::contract(
                if mal == 0 { UtxoId::default() } else { UtxoId::new(mroot(2), 1) },
                mroot(0),
                mroot(1),
                if mal == 0 { TxPointer::default() } else { TxPointer::new(BlockHeight::new(mal as u32), 1) },
                ContractId::new(b32(o[1].as_u32())),
            ),
            1 => {
                let j = (sel % N_MSGS as u64) as u8;
                let (sender, recipient, amount) = msg_info(j);
                Input::message_coin_predicate(
                    sender,
                    recipient,
                    amount,
                    msg_nonce(j),
                    sel % 5,
                    code(o[1].as_u32()),
                    vec![sel as u8; (sel % 3) as usize],
                )
            }
            2 => {
                let j = (sel % N_COINS as u64) as u16;
                let (owner, amount, asset_id) = coin_info(j);
                Input::coin_predicate(
                    UtxoId::new(origin_tx_id(), j),
                    owner,
                    amount,
                    asset_id,
                    TxPointer::default(),
                    sel % 7,
                    code(o[1].as_u32()),
                    vec![sel as u8; (sel % 4) as usize],
                )
            }
            3 => {
                let j = (sel % N_COINS as u64) as u16;
                let (owner, amount, asset_id) = coin_info(j);
                Input::coin_signed(UtxoId::new(origin_tx_id(), j), owner, amount, asset_id, TxPointer::default(), 0)
            }
            k => panic!("bad input kind {k}"),
        });
    }
    let mut outputs = vec![];
    for (i, out) in f[2].as_l().iter().enumerate() {
        let o = out.as_l();
        outputs.push(match o[0].as_i() {
            0 => Output::coin(Address::new(b32(o[1].as_u32())), salt + i as u64, AssetId::new(b32(o[2].as_u32()))),
            1 => Output::change(Address::new(b32(o[1].as_u32())), mal as u64, AssetId::new(b32(o[2].as_u32()))),
            2 => Output::contract_created(ContractId::new(b32(o[1].as_u32())), Bytes32::new([salt as u8; 32])),
            3 => {
                if mal == 0 {
                    Output::variable(Address::default(), 0, AssetId::default())
                } else {
                    Output::variable(Address::new(b32(mal as u32)), mal as u64, AssetId::new(b32(mal as u32)))
                }
            }
            4 => Output::contract(i as u16, mroot(3), mroot(4)),
            k => panic!("bad output kind {k}"),
        });
    }
    let mut tx = Transaction::script(
        salt % 1000,
        script,
        vec![salt as u8; (salt % 4) as usize],
        Policies::new().with_max_fee(salt % 13),
        inputs,
        outputs,
        vec![vec![salt as u8; 2].into()],
    );
    if mal != 0 {
        *tx.receipts_root_mut() = mroot(5);
    }
    Transaction::Script(tx)
}

fn build_block(op: &[T], idx: usize) -> Block {
    let height = op[1].as_u32();
    let time = op[2].as_u64();
    let mut txs: Vec<Transaction> =
        op[3].as_l().iter().enumerate().map(|(i, t)| build_tx(t, (idx * 31 + i * 7 + 3) as u64)).collect();
    let m = op[4].as_l();
    let mm: u8 = if m.len() > 2 { m[2].as_u64() as u8 } else { 0 };
    let mint = Transaction::mint(
        TxPointer::new(BlockHeight::new(height), txs.len() as u16),
        if mm == 0 {
            fuel_tx::input::contract::Contract {
                contract_id: ContractId::new(b32(m[0].as_u32())),
                ..Default::default()
            }
        } else {
            fuel_tx::input::contract::Contract {
                utxo_id: UtxoId::new(Bytes32::new([mm; 32]), 2),
                balance_root: Bytes32::new([mm; 32]),
                state_root: Bytes32::new([mm.wrapping_add(1); 32]),
                tx_pointer: TxPointer::new(BlockHeight::new(mm as u32), 0),
                contract_id: ContractId::new(b32(m[0].as_u32())),
            }
        },
        if mm == 0 {
            fuel_tx::output::contract::Contract { input_index: 0, ..Default::default() }
        } else {
            fuel_tx::output::contract::Contract {
                input_index: 0,
                balance_root: Bytes32::new([mm.wrapping_add(2); 32]),
                state_root: Bytes32::new([mm.wrapping_add(3); 32]),
            }
        },
        idx as u64 + 11,
        AssetId::new(b32(m[1].as_u32())),
        idx as u64 % 3,
    );
    txs.push(Transaction::Mint(mint));
    let header = PartialBlockHeader {
        application: ApplicationHeader::<Empty> {
            da_height: DaBlockHeight(idx as u64 * 3),
            consensus_parameters_version: idx as u32 % 2,
            state_transition_bytecode_version: idx as u32 % 3,
            generated: Empty,
        },
        consensus: ConsensusHeader::<Empty> {
            prev_root: Bytes32::new([idx as u8; 32]),
            height: BlockHeight::new(height),
            time: Tai64(time),
            generated: Empty,
        },
    };
    PartialFuelBlock::new(header, txs).generate(&[], Default::default()).expect("block")
}

/// registry keys of one compressed transaction, in traversal order, with their keyspace
fn keys_of(tx: &CompressedTransaction) -> Vec<T> {
    let mut v = vec![];
    let mut push = |ks: u32, k: RegistryKey| v.push(T::l(vec![T::n(ks), T::n(k.as_u32())]));
    match tx {
        CompressedTransaction::Script(s) => {
            push(KS_SCRIPT, s.body.script);
            for i in &s.inputs {
                match i {
                    CInput::Contract(c) => push(KS_CONTRACT, c.contract_id),
                    CInput::CoinPredicate(c) => push(KS_PREDICATE, c.predicate),
                    CInput::MessageCoinPredicate(m) => push(KS_PREDICATE, m.predicate),
                    CInput::CoinSigned(_) => {}
                    _ => panic!("unexpected compressed input"),
                }
            }
            for o in &s.outputs {
                match o {
                    COutput::Coin { to, asset_id, .. } => {
                        push(KS_ADDRESS, *to);
                        push(KS_ASSET, *asset_id);
                    }
                    COutput::Change { to, asset_id, .. } => {
                        push(KS_ADDRESS, *to);
                        push(KS_ASSET, *asset_id);
                    }
                    COutput::ContractCreated { contract_id, .. } => push(KS_CONTRACT, *contract_id),
                    COutput::Variable { .. } => {}
                    COutput::Contract(_) => {}
                }
            }
        }
        CompressedTransaction::Mint(m) => {
            push(KS_CONTRACT, m.input_contract.contract_id);
            push(KS_ASSET, m.mint_asset_id);
        }
        _ => panic!("unexpected compressed transaction"),
    }
    v
}

fn regs_of(cb: &VersionedCompressedBlock) -> T {
    let r = cb.registrations();
    let a: Vec<T> = r.address.iter().map(|(k, v)| T::l(vec![T::n(k.as_u32()), T::i(id_of32(v.as_ref()))])).collect();
    let b: Vec<T> = r.asset_id.iter().map(|(k, v)| T::l(vec![T::n(k.as_u32()), T::i(id_of32(v.as_ref()))])).collect();
    let c: Vec<T> =
        r.contract_id.iter().map(|(k, v)| T::l(vec![T::n(k.as_u32()), T::i(id_of32(v.as_ref()))])).collect();
    let d: Vec<T> =
        r.script_code.iter().map(|(k, v)| T::l(vec![T::n(k.as_u32()), T::i(id_of_code(&v.bytes))])).collect();
    let e: Vec<T> =
        r.predicate_code.iter().map(|(k, v)| T::l(vec![T::n(k.as_u32()), T::i(id_of_code(&v.bytes))])).collect();
    T::l(vec![T::l(a), T::l(b), T::l(c), T::l(d), T::l(e)])
}

fn col(c: CompressionColumn) -> u32 {
    MerkleizedColumn::TableColumn(c).id()
}

fn live_rows(store: &CStore, column: u32) -> Vec<(Vec<u8>, Vec<u8>)> {
    let mut out = vec![];
    if let Some(rows) = store.changes().get(&column) {
        for (k, op) in rows.iter() {
            if let WriteOperation::Insert(v) = op {
                let kb: &[u8] = k.as_ref();
                out.push((kb.to_vec(), v.as_ref().to_vec()));
            }
        }
    }
    out
}

/// Sorted dump of the registry tables, the timestamps, the reverse index and the evictor cursor.
fn dump(store: &CStore, code_ids: &BTreeMap<Bytes32, u32>, with_latest: bool) -> T {
    let ks_cols = [
        CompressionColumn::Address,
        CompressionColumn::AssetId,
        CompressionColumn::ContractId,
        CompressionColumn::ScriptCode,
        CompressionColumn::PredicateCode,
    ];
    // timestamps per (keyspace, key)
    let mut ts: BTreeMap<(u32, u32), i128> = BTreeMap::new();
    for (k, v) in live_rows(store, col(CompressionColumn::Timestamps)) {
        let tk: TimestampKey = postcard::from_bytes(&k).expect("timestamp key");
        let t: Tai64 = postcard::from_bytes(&v).expect("timestamp value");
        let ks = match tk.keyspace {
            TimestampKeyspace::Address => KS_ADDRESS,
            TimestampKeyspace::AssetId => KS_ASSET,
            TimestampKeyspace::ContractId => KS_CONTRACT,
            TimestampKeyspace::ScriptCode => KS_SCRIPT,
            TimestampKeyspace::PredicateCode => KS_PREDICATE,
        };
        ts.insert((ks, tk.key.as_u32()), t.0 as i128);
    }
    // reverse index per keyspace
    let mut idx: Vec<BTreeMap<i128, u32>> = vec![BTreeMap::new(); 5];
    for (k, v) in live_rows(store, col(CompressionColumn::RegistryIndex)) {
        let rk: ReverseKey = postcard::from_bytes(&k).expect("reverse key");
        let key: RegistryKey = postcard::from_bytes(&v).expect("index value");
        let (ks, id) = match rk {
            ReverseKey::Address(a) => (KS_ADDRESS, id_of32(a.as_ref())),
            ReverseKey::AssetId(a) => (KS_ASSET, id_of32(a.as_ref())),
            ReverseKey::ContractId(a) => (KS_CONTRACT, id_of32(a.as_ref())),
            ReverseKey::ScriptCode(h) => (KS_SCRIPT, code_ids.get(&h).map(|x| *x as i128).unwrap_or(-2)),
            ReverseKey::PredicateCode(h) => (KS_PREDICATE, code_ids.get(&h).map(|x| *x as i128).unwrap_or(-2)),
        };
        idx[ks as usize].insert(id, key.as_u32());
    }
    let mut latest: BTreeMap<u32, u32> = BTreeMap::new();
    for (k, v) in live_rows(store, col(CompressionColumn::EvictorCache)) {
        let mk: MetadataKey = postcard::from_bytes(&k).expect("metadata key");
        let key: RegistryKey = postcard::from_bytes(&v).expect("evictor value");
        let ks = match mk {
            MetadataKey::Address => KS_ADDRESS,
            MetadataKey::AssetId => KS_ASSET,
            MetadataKey::ContractId => KS_CONTRACT,
            MetadataKey::ScriptCode => KS_SCRIPT,
            MetadataKey::PredicateCode => KS_PREDICATE,
        };
        latest.insert(ks, key.as_u32());
    }
    let mut out = vec![];
    for (ks, c) in ks_cols.iter().enumerate() {
        let ks = ks as u32;
        let mut rows: BTreeMap<u32, (i128, i128)> = BTreeMap::new();
        for (k, v) in live_rows(store, col(*c)) {
            let key: RegistryKey = postcard::from_bytes(&k).expect("registry key");
            let id = if ks >= KS_SCRIPT { id_of_code(&v) } else { id_of32(&v) };
            rows.insert(key.as_u32(), (id, -1));
        }
        for ((tks, k), t) in ts.iter() {
            if *tks == ks {
                rows.entry(*k).or_insert((-1, -1)).1 = *t;
            }
        }
        let rows_t: Vec<T> = rows.iter().map(|(k, (v, t))| T::l(vec![T::n(*k), T::i(*v), T::i(*t)])).collect();
        let idx_t: Vec<T> = idx[ks as usize].iter().map(|(v, k)| T::l(vec![T::i(*v), T::n(*k)])).collect();
        let mut entry = vec![T::l(rows_t), T::l(idx_t)];
        if with_latest {
            entry.push(T::opt(latest.get(&ks).copied()));
        }
        out.push(T::l(entry));
    }
    T::l(out)
}

fn collect_code_ids(t: &T, acc: &mut BTreeMap<Bytes32, u32>) {
    // every integer of the input that can be a script / predicate id
    match t {
        T::I(z) => {
            if *z >= 0 && *z <= u32::MAX as i128 {
                let id = *z as u32;
                acc.insert(Hasher::hash(code(id)), id);
            }
        }
        T::L(l) => l.iter().for_each(|x| collect_code_ids(x, acc)),
        _ => {}
    }
}

fn set_cursor(store: &mut CStore, ks: u32, k: RegistryKey) {
    let dummy = empty_block();
    let mut tx = store.write_transaction();
    {
        let mut ctx = CompressionContext::create_from_block(&mut tx, &dummy, ChainId::default()).expect("context");
        match ks {
            KS_ADDRESS => EvictorDb::<Address>::set_latest_assigned_key(&mut ctx, k),
            KS_ASSET => EvictorDb::<AssetId>::set_latest_assigned_key(&mut ctx, k),
            KS_CONTRACT => EvictorDb::<ContractId>::set_latest_assigned_key(&mut ctx, k),
            KS_SCRIPT => EvictorDb::<ScriptCode>::set_latest_assigned_key(&mut ctx, k),
            KS_PREDICATE => EvictorDb::<PredicateCode>::set_latest_assigned_key(&mut ctx, k),
            x => panic!("bad keyspace {x}"),
        }
        .expect("set cursor");
    }
    tx.commit().expect("commit");
}

pub fn run(input: &T) -> T {
    let input = input.clone();
    catch(move || {
        let f = input.as_l();
        let cfg = Config {
            temporal_registry_retention: core::time::Duration::new(f[0].as_u64(), f[1].as_u32()),
        };
        let mut code_ids = BTreeMap::new();
        collect_code_ids(&f[2], &mut code_ids);
        let chain_id = ChainId::default();
        let mut cstore: CStore = InMemoryStorage::<CCol>::default().into_transaction();
        let mut dstore: CStore = InMemoryStorage::<CCol>::default().into_transaction();
        let onchain = onchain_db();
        let mut out = vec![];
        for (idx, op) in f[2].as_l().iter().enumerate() {
            let o = op.as_l();
            match o[0].as_i() {
                1 => {
                    set_cursor(&mut cstore, o[1].as_u32(), key(o[2].as_u32()));
                    out.push(T::l(vec![T::i(2)]));
                }
                0 => {
                    let block = build_block(o, idx);
                    // ---- compressor
                    let mut tx = cstore.write_transaction();
                    let res = {
                        let ctx =
                            CompressionContext::create_from_block(&mut tx, &block, chain_id).expect("context");
                        compress(&cfg, ctx, &block).now_or_never().expect("compress resolves instantly")
                    };
                    let cb = match res {
                        Ok(cb) => {
                            tx.commit().expect("commit");
                            cb
                        }
                        Err(_) => {
                            drop(tx);
                            out.push(T::l(vec![
                                T::i(1),
                                dump(&cstore, &code_ids, true),
                                dump(&dstore, &code_ids, false),
                            ]));
                            continue;
                        }
                    };
                    let keys: Vec<T> = cb.transactions().iter().map(|t| T::l(keys_of(t))).collect();
                    let regs = regs_of(&cb);
                    // ---- over the wire
                    let bytes = postcard::to_allocvec(&cb).expect("serialize");
                    let wire: VersionedCompressedBlock = postcard::from_bytes(&bytes).expect("deserialize");
                    // ---- decompressor
                    let mut dtx = dstore.write_transaction();
                    let dres = {
                        let ctx = DecompressionContext {
                            compression_storage: CompressionStorageWrapper { storage_tx: &mut dtx },
                            onchain_db: onchain.read_transaction(),
                        };
                        decompress(cfg, ctx, wire).now_or_never().expect("decompress resolves instantly")
                    };
                    let (dstatus, hdr_eq, txs_eq, ids_eq) = match dres {
                        Ok(pb) => {
                            dtx.commit().expect("commit");
                            let orig: PartialFuelBlock = block.clone().into();
                            let chain = ChainId::default();
                            let ids_eq = pb.transactions.len() == orig.transactions.len()
                                && pb.transactions.iter().zip(orig.transactions.iter()).all(|(a, b)| a.id(&chain) == b.id(&chain));
                            (0, pb.header == orig.header, pb.transactions == orig.transactions, ids_eq)
                        }
                        Err(_) => {
                            drop(dtx);
                            (1, false, false, false)
                        }
                    };
                    out.push(T::l(vec![
                        T::i(0),
                        T::l(keys),
                        regs,
                        T::i(dstatus),
                        T::b(hdr_eq),
                        T::b(txs_eq),
                        T::b(ids_eq),
                        dump(&cstore, &code_ids, true),
                        dump(&dstore, &code_ids, false),
                    ]));
                }
                k => panic!("bad op {k}"),
            }
        }
        T::l(out)
    })
}

fn gen(prop: &str, rng: &mut Rng, n: u64, tier: &str) -> Vec<T> {
    match prop {
        "C33" => gen::gen(rng, n, tier),
        p => panic!("unknown property {p}"),
    }
}

fn run_prop(prop: &str, input: &T) -> T {
    match prop {
        "C33" => run(input),
        p => panic!("unknown property {p}"),
    }
}

fn main() {
    vcommon::main_protocol(gen, run_prop);
}
