//! Case generator for C33: block histories over a SMALL pool of addresses / asset ids / contract ids /
//! scripts / predicates (so registry keys are reused), timestamps straddling the retention window
//! (delta in {0, 1, r-1, r, r+1, 2r+1}), the evictor cursor preset next to the 24-bit wrap point
//! (and back onto live keys) through EvictorDb::set_latest_assigned_key, blocks with many distinct
//! new values, default (zero) values, and now and then a block older than its predecessor.
use vcommon::{Rng, T};

/// number of writable keys = raw value of RegistryKey::DEFAULT_VALUE
pub const KS: u64 = (1 << 24) - 1;

struct Ctx {
    pool: [u64; 5],
    fresh: u64,
    /// the history contains transactions in executed form (non-default malleable fields)
    executed: bool,
}

fn val(rng: &mut Rng, cx: &mut Ctx, ks: usize) -> u64 {
    if rng.chance(1, 10) {
        0
    } else if rng.chance(1, 14) {
        cx.fresh += 1;
        cx.fresh
    } else {
        1 + rng.below(cx.pool[ks])
    }
}

fn tx(rng: &mut Rng, cx: &mut Ctx, fresh_heavy: bool) -> T {
    let v = |rng: &mut Rng, cx: &mut Ctx, ks: usize| -> u64 {
        if fresh_heavy && rng.chance(2, 3) {
            cx.fresh += 1;
            cx.fresh
        } else {
            val(rng, cx, ks)
        }
    };
    let script = v(rng, cx, 3);
    let n_in = rng.below(4);
    let mut inputs = vec![];
    for _ in 0..n_in {
        inputs.push(match rng.below(7) {
            0 | 1 => T::l(vec![T::i(0), T::n(v(rng, cx, 2))]),
            2 | 3 => T::l(vec![T::i(1), T::n(v(rng, cx, 4))]),
            4 | 5 => T::l(vec![T::i(2), T::n(v(rng, cx, 4))]),
            _ => T::l(vec![T::i(3)]),
        });
    }
    let n_out = rng.below(4);
    let mut outputs = vec![];
    for _ in 0..n_out {
        outputs.push(match rng.below(8) {
            0 | 1 | 2 => T::l(vec![T::i(0), T::n(v(rng, cx, 0)), T::n(v(rng, cx, 1))]),
            3 | 4 => T::l(vec![T::i(1), T::n(v(rng, cx, 0)), T::n(v(rng, cx, 1))]),
            5 => T::l(vec![T::i(2), T::n(v(rng, cx, 2))]),
            6 => T::l(vec![T::i(3)]),
            _ => T::l(vec![T::i(4)]),
        });
    }
    if cx.executed && rng.chance(1, 2) {
        T::l(vec![T::n(script), T::l(inputs), T::l(outputs), T::n(1 + rng.below(3))])
    } else {
        T::l(vec![T::n(script), T::l(inputs), T::l(outputs)])
    }
}

fn block(height: u64, time: u64, txs: Vec<T>, mint_contract: u64, mint_asset: u64) -> T {
    T::l(vec![
        T::i(0),
        T::n(height),
        T::n(time),
        T::l(txs),
        T::l(vec![T::n(mint_contract), T::n(mint_asset)]),
    ])
}

fn cursor(ks: u64, key: u64) -> T {
    T::l(vec![T::i(1), T::n(ks), T::n(key)])
}

fn cursor_key(rng: &mut Rng) -> u64 {
    match rng.below(8) {
        0 | 1 => KS - 1, // MAX_WRITABLE: the next key wraps to 0
        2 => KS - 2,
        3 => KS - 3,
        4 => 0,
        5 => 1,
        _ => rng.below(6),
    }
}

fn random_case(rng: &mut Rng, thorough: bool) -> T {
    let r = *rng.pick(&[0u64, 1, 3, 10, 50]);
    let nanos = *rng.pick(&[0u64, 0, 1, 999_999_999]);
    let mut cx = Ctx { pool: [0; 5], fresh: 100, executed: rng.chance(1, 8) };
    for k in 0..5 {
        cx.pool[k] = 1 + rng.below(4);
    }
    let nblocks = if thorough { rng.range(2, 16) } else { rng.range(2, 9) };
    let mut time = *rng.pick(&[0u64, 5, 1000, 1 << 40]);
    let bad_block = if rng.chance(1, 10) { Some(rng.below(nblocks)) } else { None };
    let mut ops = vec![];
    if rng.chance(1, 2) {
        for ks in 0..5u64 {
            if rng.chance(1, 2) {
                ops.push(cursor(ks, cursor_key(rng)));
            }
        }
    }
    for b in 0..nblocks {
        if rng.chance(1, 6) {
            let ks = rng.below(5);
            ops.push(cursor(ks, cursor_key(rng)));
        }
        let deltas = [0, 0, 1, r.saturating_sub(1), r, r + 1, 2 * r + 1];
        time += *rng.pick(&deltas);
        let mut t = time;
        if bad_block == Some(b) {
            t = time.saturating_sub(*rng.pick(&[1, r + 1]));
        }
        let big = rng.chance(1, 12);
        let ntx = if big {
            if thorough {
                rng.range(20, 60)
            } else {
                rng.range(8, 22)
            }
        } else {
            rng.below(4)
        };
        let txs: Vec<T> = (0..ntx).map(|_| tx(rng, &mut cx, big)).collect();
        let mc = val(rng, &mut cx, 2);
        let ma = val(rng, &mut cx, 1);
        if cx.executed && rng.chance(1, 3) {
            let mm = 1 + rng.below(3);
            ops.push(T::l(vec![
                T::i(0),
                T::n(b + 1),
                T::n(t),
                T::l(txs),
                T::l(vec![T::n(mc), T::n(ma), T::n(mm)]),
            ]));
        } else {
            ops.push(block(b + 1, t, txs, mc, ma));
        }
    }
    T::l(vec![T::n(r), T::n(nanos), T::l(ops)])
}

/// one script transaction whose coin outputs carry the given (address, asset) pairs
fn tx_out(script: u64, outs: &[(u64, u64)]) -> T {
    T::l(vec![
        T::n(script),
        T::l(vec![]),
        T::l(outs.iter().map(|(a, s)| T::l(vec![T::i(0), T::n(*a), T::n(*s)])).collect()),
    ])
}

fn directed() -> Vec<T> {
    let case = |r: u64, ops: Vec<T>| T::l(vec![T::n(r), T::n(0u64), T::l(ops)]);
    let mut v = vec![];
    // wrap-around inside one block: keys KS-1, 0, 1, 2
    v.push(case(
        10,
        vec![
            cursor(0, KS - 2),
            block(1, 100, vec![tx_out(1, &[(1, 1), (2, 1), (3, 1), (4, 1)])], 1, 1),
            block(2, 101, vec![tx_out(1, &[(4, 1), (1, 1), (5, 2)])], 1, 1),
        ],
    ));
    // cursor put back onto live keys: kept keys are skipped, the others are evicted while live
    v.push(case(
        10,
        vec![
            block(1, 100, vec![tx_out(1, &[(1, 1), (2, 2), (3, 3)])], 1, 1),
            cursor(0, KS - 1),
            cursor(1, KS - 1),
            block(2, 105, vec![tx_out(1, &[(2, 2), (4, 4), (5, 5)])], 1, 1),
            block(3, 106, vec![tx_out(1, &[(1, 1), (3, 3), (2, 2), (4, 4)])], 1, 1),
        ],
    ));
    // expiry: the timestamp of a key is the registration time, reuse does not refresh it
    v.push(case(
        5,
        vec![
            block(1, 0, vec![tx_out(1, &[(1, 1)])], 1, 1),
            block(2, 5, vec![tx_out(1, &[(1, 1)])], 1, 1),
            block(3, 6, vec![tx_out(1, &[(1, 1)])], 1, 1),
            block(4, 11, vec![tx_out(1, &[(1, 1)])], 1, 1),
            block(5, 12, vec![tx_out(1, &[(1, 1)])], 1, 1),
        ],
    ));
    // an expired value moves to a new key while its old key is overwritten in the same block:
    // the final reverse index depends on the order of the registrations
    v.push(case(
        3,
        vec![
            block(1, 0, vec![tx_out(1, &[(1, 1)])], 1, 1),
            cursor(0, KS - 1),
            block(2, 4, vec![tx_out(1, &[(2, 1), (1, 1)])], 1, 1),
            block(3, 5, vec![tx_out(1, &[(1, 1), (2, 1)])], 1, 1),
        ],
    ));
    // a block older than a registry entry it looks up: compression is refused, nothing changes
    v.push(case(
        3,
        vec![
            block(1, 10, vec![tx_out(1, &[(1, 1)])], 1, 1),
            block(2, 9, vec![tx_out(1, &[(1, 1)])], 1, 1),
            block(3, 10, vec![tx_out(1, &[(1, 1), (2, 2)])], 1, 1),
        ],
    ));
    // retention 0: only same-second reuse
    v.push(case(
        0,
        vec![
            block(1, 7, vec![tx_out(2, &[(1, 1)])], 1, 1),
            block(2, 7, vec![tx_out(2, &[(1, 1)])], 1, 1),
            block(3, 8, vec![tx_out(2, &[(1, 1)])], 1, 1),
        ],
    ));
    // executed form: malleable fields (receipts root, contract input roots / utxo id / tx pointer, change
    // amount, variable output, contract output roots, mint contract roots) are dropped by compression:
    // the decompressed transactions have the same ids but are not equal (known finding K-C33-malleable)
    v.push(case(
        10,
        vec![
            block(1, 100, vec![tx_out(1, &[(1, 1)])], 1, 1),
            T::l(vec![
                T::i(0),
                T::n(2u64),
                T::n(101u64),
                T::l(vec![T::l(vec![
                    T::n(1u64),
                    T::l(vec![T::l(vec![T::i(0), T::n(1u64)])]),
                    T::l(vec![
                        T::l(vec![T::i(1), T::n(1u64), T::n(1u64)]),
                        T::l(vec![T::i(3)]),
                        T::l(vec![T::i(4)]),
                    ]),
                    T::n(2u64),
                ])]),
                T::l(vec![T::n(1u64), T::n(1u64), T::n(3u64)]),
            ]),
            block(3, 102, vec![tx_out(1, &[(1, 1)])], 1, 1),
        ],
    ));
    // only default values
    v.push(case(3, vec![block(1, 1, vec![tx_out(0, &[(0, 0)])], 0, 0), block(2, 2, vec![], 0, 0)]));
    v
}

/// bounded-exhaustive family (thorough tier): three blocks over one keyspace, every choice of two
/// addresses per block from five pairs, every pair of time deltas from {0, r, r+1}, with and
/// without the cursor put back onto the live keys before the second block
fn exhaustive() -> Vec<T> {
    let r = 2u64;
    let pairs: [(u64, u64); 5] = [(1, 1), (1, 2), (2, 1), (0, 1), (2, 3)];
    let deltas = [0u64, r, r + 1];
    let mut v = vec![];
    for p1 in pairs {
        for p2 in pairs {
            for p3 in pairs {
                for d2 in deltas {
                    for d3 in deltas {
                        for preset in 0..2 {
                            let mut ops = vec![block(1, 10, vec![tx_out(1, &[(p1.0, 1), (p1.1, 1)])], 1, 1)];
                            if preset == 1 {
                                ops.push(cursor(0, KS - 1));
                            }
                            ops.push(block(2, 10 + d2, vec![tx_out(1, &[(p2.0, 1), (p2.1, 1)])], 1, 1));
                            ops.push(block(3, 10 + d2 + d3, vec![tx_out(1, &[(p3.0, 1), (p3.1, 1)])], 1, 1));
                            v.push(T::l(vec![T::n(r), T::n(0u64), T::l(ops)]));
                        }
                    }
                }
            }
        }
    }
    v
}

pub fn gen(rng: &mut Rng, n: u64, tier: &str) -> Vec<T> {
    let thorough = tier == "thorough";
    let mut cases = directed();
    if thorough {
        cases.extend(exhaustive());
    }
    while (cases.len() as u64) < n {
        cases.push(random_case(rng, thorough));
    }
    cases.truncate(n as usize);
    cases
}
