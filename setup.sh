#!/bin/bash
# MANIFEST.setup_cmd: build everything the claimed checks need, from files on disk, offline.
set -u
cd "$(dirname "$0")"
export CARGO_NET_OFFLINE=true
mkdir -p target evidence replay ocaml/gen
[ -f harness/Cargo.lock ] || cp /repo/Cargo.lock harness/Cargo.lock
python3 - <<'PY'
import json, os, sys
sys.path.insert(0, 'lib')
import vcheck
from props import PROPS
claimed = set(json.load(open('lib/claimed.json')))
props = {k: v for k, v in PROPS.items() if k in claimed}
bad = 0
vcheck.ensure_makefile()
for tr in sorted(set(tuple(t) for p in props.values() for t in p.get('translators', []))):
    r, out = vcheck.sh(list(tr), 300, cwd=vcheck.ROOT)
    print('translator', ' '.join(tr), 'ok' if r == 0 else 'FAILED')
    if r != 0:
        print(out[-1500:]); bad = 1
clusters = sorted(set(p['cluster'] for p in props.values()))
r, out = vcheck.sh(['make', '-k', '-j16'] + ['%s/Properties.vo' % c for c in clusters], 5400, cwd=vcheck.COQ)
print('coq', 'ok' if r == 0 else 'FAILED')
if r != 0:
    print(out[-3000:]); bad = 1
for cl in clusters:
    r, out = vcheck.build_model(cl)
    print('model', cl, 'ok' if r == 0 else 'FAILED')
    if r != 0:
        print(out[-2000:]); bad = 1
seen = set()
for p in props.values():
    for prof in p.get('profiles', ['dev']):
        if (p['crate'], prof) in seen:
            continue
        seen.add((p['crate'], prof))
        r, out = vcheck.build_harness(p['crate'], prof, timeout=10800)
        print('harness', p['crate'], prof, 'ok' if r == 0 else 'FAILED')
        if r != 0:
            print(out[-3000:]); bad = 1
sys.exit(bad)
PY
