#!/bin/bash
# MANIFEST.setup_cmd: build everything from files on disk, offline.
set -u
cd "$(dirname "$0")"
export CARGO_NET_OFFLINE=true
mkdir -p target evidence replay ocaml/gen
[ -f harness/Cargo.lock ] || cp /repo/Cargo.lock harness/Cargo.lock
rc=0
python3 -c "import sys; sys.path.insert(0,'lib'); import vcheck; vcheck.ensure_makefile()" || rc=1
( cd coq && timeout 3000 make -k -j16 2>&1 | grep -v "^Closed under\|^COQ\|WARNING" | tail -20 ) || rc=1
python3 - <<'PY' || rc=1
import os, sys
sys.path.insert(0, 'lib')
import vcheck
from props import PROPS
bad = 0
for cl in sorted(set(p['cluster'] for p in PROPS.values())):
    r, out = vcheck.build_model(cl)
    print('model', cl, 'ok' if r == 0 else 'FAILED')
    if r != 0:
        print(out[-2000:]); bad = 1
seen = set()
for p in PROPS.values():
    for prof in p.get('profiles', ['dev']):
        if (p['crate'], prof) in seen:
            continue
        seen.add((p['crate'], prof))
        r, out = vcheck.build_harness(p['crate'], prof, timeout=7200)
        print('harness', p['crate'], prof, 'ok' if r == 0 else 'FAILED')
        if r != 0:
            print(out[-3000:]); bad = 1
sys.exit(bad)
PY
exit $rc
