#!/usr/bin/env python3
"""Regenerate MANIFEST.json from the property registry (lib/props.py + lib/props.d) and
lib/not_applicable.json (reasons for unclaimed properties)."""
import json
import os
import subprocess
import sys

HERE = os.path.dirname(os.path.abspath(__file__))
ROOT = os.path.dirname(HERE)
sys.path.insert(0, HERE)
from props import PROPS as ALL_PROPS  # noqa: E402

# only integrated (reviewed, green on the unchanged tree) properties are claimed
CLAIMED = json.load(open(os.path.join(HERE, 'claimed.json')))
PROPS = {k: v for k, v in ALL_PROPS.items() if k in CLAIMED}

LEVELS = ['exploration', 'fault_enumeration', 'model_checking', 'proof', 'translation_validation', 'other']


def norm_level(x):
    if x in LEVELS:
        return x
    for l in LEVELS:
        if str(x).startswith(l):
            return l
    return 'other'


props = [json.loads(l) for l in open(os.path.join(ROOT, 'properties.jsonl'))]
na_path = os.path.join(HERE, 'not_applicable.json')
na = json.load(open(na_path)) if os.path.exists(na_path) else {}
hooks = []
try:
    out = subprocess.run(['git', '-C', '/repo', 'log', '--format=%h %s'], stdout=subprocess.PIPE, text=True).stdout
    hooks = [l.split()[0] for l in out.splitlines() if l.split(' ', 1)[1].startswith('verif hook')]
except Exception:
    pass
man = {
    'version': 1, 'setup_cmd': './setup.sh',
    'hooks': {
        'guard': 'cargo feature `verif` (declared per crate that carries a hook)',
        'enable': 'the harness crates under /verif/harness depend on the /repo crates by path with features=["verif"]; nothing in /repo enables it',
        'baseline_off_cmd': 'cd /repo && (cargo nextest run --workspace --no-fail-fast --test-threads 8 --offline || cargo test --workspace --no-fail-fast --offline)',
        'source_commits': list(reversed(hooks)), 'add_only': True},
    'engines': [{
        'name': 'coq-proof+correspondence', 'path': '/verif/check', 'serves_properties': sorted(PROPS),
        'kind_free_text': 'Coq 8.16.1 theorems over hand-written executable Gallina models (coq/<Cluster>), tied to /repo on every '
                          'run by a correspondence check: a Rust harness (harness/) drives the real crates, the extracted OCaml model '
                          '(ExtrOcamlBasic only) replays the same inputs, outputs are diffed, and the proved decidable checker is '
                          'evaluated on the implementation\'s traces; three source translators regenerate model parts where the text is the fact'}],
    'checks': [], 'not_applicable': [],
    'notes': 'See DESIGN.md. known_findings.json lists recorded findings and fixed defects. seeded/ holds confirmed property-breaking changes used to test the checks.'}
for p in props:
    i = p['id']
    if i in PROPS:
        s = PROPS[i]
        thms = ', '.join(s.get('theorems', []))
        man['checks'].append({
            'property_id': i, 'quick_cmd': './check %s --tier quick' % i, 'thorough_cmd': './check %s --tier thorough' % i,
            'evidence_file': 'evidence/%s.json' % i, 'replay_cmd_template': './check %s --replay {path}' % i,
            'engine': 'coq-proof+correspondence',
            'level_claimed': {
                'category': norm_level(s.get('level', 'proof')),
                'text': s.get('level_text', 'Machine-checked Coq theorems (%s) over an executable model of the anchored code, for all inputs; '
                              'the model is tied to the code on every run by differential correspondence (model output = implementation '
                              'output on generated and bounded-exhaustive cases) and the proved decidable checker is evaluated on every '
                              'implementation trace.' % thms),
                'design_ref': 'DESIGN.md section 6, ' + i},
            'level_note': s.get('level_note', 'Trusted: Coq kernel, extraction (ExtrOcamlBasic only), OCaml driver, harness generators; the '
                                'refinement model=code is sampled, not proved. ' + '; '.join(s.get('assumptions', []))),
            'technique': s.get('technique', 'Coq proof over hand-written Gallina model + differential correspondence with the Rust implementation')})
    else:
        man['not_applicable'].append({
            'property_id': i,
            'reason': na.get(i, 'not built yet: model, theorems and correspondence harness for this property are not implemented in this '
                               'revision (see DESIGN.md section 6 for the plan); the technique applies')})
json.dump(man, open(os.path.join(ROOT, 'MANIFEST.json'), 'w'), indent=1)
print('claimed:', len(man['checks']), 'unclaimed:', len(man['not_applicable']))
