"""Backend cluster: C11 all backends store and iterate identically, C12 historical views and rollbacks
(coq/Backend, harness/h-backend; RocksDB temp dirs under /verif/target/tmp)."""

_BK = {0: 'memory', 1: 'rocksdb', 2: 'hist_norewind', 3: 'hist_full'}


def _is_prefix(p, k):
    return len(p) <= len(k) and k[:len(p)] == p


def _c11_classes(i, o):
    cls = []
    for b in i[0]:
        cls.append('backend=%s' % _BK.get(b, 'hist_range%d' % (b - 3)))
    conflict = False
    for c in i[1]:
        cls.append('commit=%s%s' % ('list%d' % len(c[2]) if c[1] == 1 else 'single', '' if c[0] else '+no_height'))
        if c[1] == 1:
            seen = set()
            cols = []
            for s in c[2]:
                for cs in s:
                    cols.append(cs[0])
                    for e in cs[1]:
                        kk = (cs[0], tuple(e[0]))
                        if kk in seen:
                            conflict = True
                        seen.add(kk)
            if len(cols) != len(set(cols)):
                cls.append('list_with_overlapping_columns')
    if conflict:
        cls.append('conflicting_list')
    nonempty = 0
    res0 = o[0][3] if isinstance(o, list) and o and isinstance(o[0], list) and len(o[0]) == 4 else None
    for n, q in enumerate(i[2]):
        p = q[1][0] if q[1] else None
        s = q[2][0] if q[2] else None
        kind = ('prefix' if p is not None else 'noprefix') + ('+start' if s is not None else '') + ('/rev' if q[3] else '/fwd')
        cls.append('q=' + kind)
        if p is not None and s is not None and not _is_prefix(p, s):
            cls.append('q=start_outside_prefix')
        if p is not None and p and all(b == 255 for b in p):
            cls.append('q=prefix_all_ff')
        if p is not None and p and p[-1] == 255 and not all(b == 255 for b in p) and q[3]:
            cls.append('q=rev_prefix_with_ff_tail')
        if res0 is not None and n < len(res0) and res0[n]:
            nonempty += 1
    if i[2]:
        cls.append('queries_nonempty_result=%d%%' % (10 * (10 * nonempty // max(1, len(i[2])))))
    return sorted(set(cls))


def _c12_classes(i, o):
    cls = ['start=%d' % i[0], 'policy0=%d' % i[1], 'ops=%d' % min(len(i[2]), 30)]
    pol = i[1]
    lens = {}
    for op, ob in zip(i[2], o if isinstance(o, list) else []):
        if not (isinstance(ob, list) and len(ob) == 3):
            continue
        if op[0] == 0:
            cls.append('commit[%s]' % ('empty' if not op[1] else 'cols%d' % len(op[1])))
            for cs in op[1]:
                for e in cs[1]:
                    lens.setdefault(cs[0], set()).add(len(e[0]))
                    cls.append('write=%s' % ('remove' if e[1] == [0] else 'insert'))
        elif op[0] == 1:
            cls.append('rollback=%s' % {0: 'ok', 6: 'no_record', 7: 'nothing_committed'}.get(ob[0], 'err'))
        else:
            new = op[1]
            kind = 'same' if new == pol else 'to_norewind' if new == 0 else 'to_full' if new == 1 else \
                   'from_norewind' if pol == 0 else 'from_full' if pol == 1 else 'grow' if new > pol else 'shrink'
            cls.append('restart=' + kind)
            pol = new
        views = ob[2]
        if any(v == [0] for v in views):
            cls.append('view=no_history')
        if any(isinstance(v, list) and v and v[0] == 1 for v in views):
            cls.append('view=state')
    if any(len(s) > 1 for s in lens.values()):
        cls.append('mixed_key_lengths')
    return sorted(set(cls))


PROPS = {
    'C11': dict(
        id='C11', cluster='Backend', crate='h-backend', tag=11,
        n={'quick': 40, 'thorough': 600},
        shard=2, workers=16,
        theorems=['btree_iter_eq_spec', 'rocks_iter_eq_spec', 'iter_spec_is_selection', 'original_iterators_wrong',
                  'rocks_commit_eq_spec', 'commit_same_contents_partial', 'commit_same_contents_refuted',
                  'backends_eq_spec_partial', 'c11_checker_sound', 'model_obs_accepted_partial'],
        classify=_c11_classes,
        no_shrink=False,
        rule='one case = one commit history (1..5, thorough 1..8 commits: single change sets and lists of 2..3 change sets with '
             'overlapping columns, inserts of 0..2-byte values and removals, with and without a height; every 6th list writes one '
             '(column,key) twice = the known class) applied to MemoryStore, RocksDb and HistoricalRocksDB under NoRewind, '
             'RewindFullRange and RewindRange{1,2,5,3 rotating} in temp dirs; keys = byte strings of length 0..3 over {00,01,FE,FF} '
             'built around a prefix (extensions, 0xFF tails, numeric and alphabet successors with and without kept tail, the parent) '
             'in three columns (Coins, Transactions, ContractsState = 32-byte prefix extractor in RocksDB); then on every backend: '
             'contents of each column, get of every touched key, and the queries: every prefix over the alphabet of length <= 2 or '
             'none x both directions without start, and for the main column every such prefix x every start among keys and their '
             'neighbours (key, key++00, just below; 14 quick / 40 thorough) x both directions; other columns: prefixes of the start '
             'and one random prefix. iter_store and iter_store_keys alternate. non-trivial = distinct case with a non-panic observation',
        assumptions=['RocksDB is modelled as a cursor (seek, seek_for_prev, seek_to_first/last, next, prev) over the sorted column; '
                     'read options (total_order_seek, prefix_same_as_start) and the prefix extractor are assumed not to change that',
                     'BTreeMap::range is modelled as drop-while/take-while on the sorted association list',
                     'the column order inside one HashMap change set is not modelled: in a conflicting list the generator gives the '
                     'later change sets one column, so that MemoryStore\'s partial write is deterministic',
                     'keys are byte strings (each element <= 255); metrics and error items of the iterators are not modelled'],
        profiles=['dev'],
        level='proof'),
    'C12': dict(
        id='C12', cluster='Backend', crate='h-backend', tag=12,
        n={'quick': 45, 'thorough': 900},
        shard=2, workers=16,
        theorems=['view_exact_or_nohistory_partial', 'view_exact_or_nohistory_refuted', 'view_mixed_lengths_original_wrong',
                  'rollback_restores_prev', 'rollback_undoes_commit_step', 'c12_checker_sound', 'model_trace_accepted_partial'],
        classify=_c12_classes,
        rule='one case = one HistoricalRocksDB<OnChain> in a temp dir, first block height in {0,1,2,7}, initial policy and a '
             'history of 3..16 (thorough 3..30) steps: commit of the next height (overlapping writes, removals, no-op overwrites, '
             'empty change sets over 2..4 keys per column in two columns), rollback_block_to(latest), restart with a policy from '
             'one of three regimes (constant; growing ranges; free = none/full/ranges 1..6 growing and shrinking); every 5th case '
             'uses keys of mixed lengths where one key is a prefix of another. Every 3rd case is a directed deep reorg (constant policy, '
             'window wider than the reorg): base blocks over two keys, 1-2 late blocks that create / remove / overwrite further keys, '
             'rollback of the late blocks plus 1-2 blocks below them, replacement blocks writing the same keys with other contents at the '
             'earliest replaced heights, 1-2 (thorough 1-3) rounds. After every step: get of every key on the database '
             'and view_at(h).get of every key for every h from start-1 to start+#commits. non-trivial = distinct case with a '
             'non-panic observation',
        assumptions=['the database is created by this version (no ModificationsHistoryV1 entries)',
                     'heights are committed consecutively (what Database::commit_changes_with_height_update enforces); the '
                     'harness drives HistoricalRocksDB directly through TransactableStorage',
                     'RocksDB is modelled as a cursor over the sorted column (see C11)'],
        profiles=['dev'],
        level='proof'),
}
