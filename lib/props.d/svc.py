"""Svc cluster: C41 (ServiceRunner life cycle), C42 (sequence lock)."""


def _c42_classes(i, o):
    cls = []
    if i[0] == 1:
        return ['stress readers=%d%s' % (i[2], ' after a panicked write' if len(i) > 4 and i[4] else '')]
    nw = len(i[3])
    cls.append('writers=%d' % nw)
    cls.append('k=%d' % i[1])
    cls.append('readers=%d' % i[4])
    if any(len(c) == 2 and c[1] for q in i[3] for c in q):
        cls.append('a write closure panics')
    if isinstance(o, list) and len(o) == 3 and isinstance(o[0], list):
        evs = o[0]
        cls.append('returns=%d' % min(len(evs), 6))
        # a read that overlapped a write: completed count moved between begin and return
        if any(isinstance(e, list) and len(e) == 4 and e[2] > e[1] for e in evs):
            cls.append('read overlapped a completed write')
        # positions: threads parked in the middle of write (1,2) / read (4,5)
        if isinstance(o[2], list):
            if any(p in (1, 2) for p in o[2][:nw]):
                cls.append('ends with a write in progress')
            if any(p in (4, 5) for p in o[2][nw:]):
                cls.append('ends with a read in progress')
    return cls


def _c41_classes(i, o):
    cls = ['into=%s' % {0: 'ok', 1: 'err', 2: 'panic'}.get(i[0]), 'shutdown=%s' % {0: 'ok', 1: 'err', 2: 'panic'}.get(i[2])]
    ops = i[3]
    cls.append('ops=%d' % min(len(ops), 12))
    if isinstance(o, list) and o and isinstance(o[-1], list) and len(o[-1]) == 6:
        last = o[-1]
        cls.append('final=%s' % ['not-started', 'starting', 'started', 'stopping', 'stopped', 'stopped-with-error'][last[1]])
        cls.append('run_calls=%d' % min(last[3], 4))
        cls.append('shutdown_calls=%d' % last[4])
        if any(isinstance(x, list) and x[0] == 0 and k > 0 for k, x in enumerate(o) if ops[k] == 0):
            cls.append('start rejected')
        if ops.count(1) >= 2:
            cls.append('stop twice')
        seen_stop = False
        for k, op in enumerate(ops):
            if op == 1:
                seen_stop = True
            if op == 0 and seen_stop:
                cls.append('start after stop')
                break
        if any(len(x[5]) > 0 and any(len(r) > 0 for r in x[5]) for x in o if isinstance(x, list) and len(x) == 6):
            cls.append('an awaiter returned')
    return cls


PROPS = {
    'C41': dict(
        id='C41', cluster='Svc', crate='h-svc', tag=41,
        n={'quick': 3000, 'thorough': 60000},
        translators=[['python3', 'translators/seqlock2coq.py']],
        theorems=['state_forward_only', 'stopped_never_runs', 'shutdown_at_most_once', 'await_stop_returns',
                  'await_stop_result', 'every_await_returns', 'background_step_facts', 'service_trace_checker_sound'],
        classify=_c41_classes,
        rule='real ServiceRunner on a current-thread tokio runtime with a scripted task whose into_task/run/shutdown '
             'calls wait for a permit: every sequence of <= 4 (thorough 6) ops over {start, stop, permit, await_stop} x '
             'every (into_task, first run, shutdown) outcome; the unit-test life cycles with stop twice / start after '
             'stop / stop before start for every outcome; StateWatcher::while_started / wait_stopping_or_stopped '
             'spawned while NotStarted / Starting / Started / Stopping for every outcome; random sequences of 3..14 (24) ops with random scripts. '
             'non-trivial = distinct input with a non-empty observation trace',
        assumptions=['PARTIAL: tokio watch / task scheduling are modelled as atomic steps on (cell, version); '
                     'the user task is a script of outcomes behind a permit gate',
                     'the ServiceRunner handle is alive while awaiters wait (the watch channel is not closed)'],
        level='proof',
        shard=2000,
    ),
    'C42': dict(
        id='C42', cluster='Svc', crate='h-svc', tag=42,
        n={'quick': 600, 'thorough': 12000},
        translators=[['python3', 'translators/seqlock2coq.py']],
        theorems=['read_returns_complete_value', 'read_not_stale', 'counter_even_when_idle', 'read_checker_sound',
                  'macro_step_is_micro_schedule', 'two_writers_read_returns_complete_value_refuted'],
        classify=_c42_classes,
        nontrivial=lambda i, o: isinstance(o, list) and o != [-777] and (
            (i[0] == 0 and len(o) == 3 and len(o[0]) > 0) or (i[0] == 1 and len(o) == 4 and o[3] > 0)),
        rule='deterministic runs of the real SeqLock under a controlled scheduler (threads park at the '
             'verif_hooks points; writer closure stores word by word): every interleaving of the 8 grants of 1 writer x 2 writes x 2 words '
             'with 6 (thorough 9) grants of 1 reader, the same with a first closure that panics after 1 of 2 words (7 x 6 grants), directed '
             'panicked-write-then-held-write cases, directed overlap cases, random schedules (a fifth of the closures panic) with k 1..8 words, '
             '0..5 writes, 1..3 readers, two non-overlapping writer threads on the one handle; plus free-running '
             'multi-thread stress runs with 8-word payloads (counts of torn/stale/non-monotone reads). '
             'non-trivial = distinct input with at least one read return',
        assumptions=['PARTIAL: the theorem covers the protocol logic under SC only. '
                     'sequentially consistent interleavings of the atomic steps; hardware weak memory and the '
                     'UnsafeCell data race are outside the model (memory orderings are translated but ignored)',
                     'the sequence counter does not wrap (fewer than 2^63 writes)',
                     'exactly one writer thread (two writers: refuted, see the _refuted theorem)',
                     'a panicking write closure: what it leaves in the cell counts as the value of that call (closure contract)',
                     'translators/seqlock2coq.py is trusted to list the atomic steps of write/read in program order'],
        trusted=['translators/seqlock2coq.py (syntactic extraction of the step lists from seqlock.rs)'],
        level='proof',
        shard=400,
    ),
}
