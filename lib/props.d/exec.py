"""Registry entries of the Exec cluster (block executor): C02, C06, C03, C05, C04, C01, C45."""

LATE = (14, 15, 16, 17, 18, 19, 20)


def _blocks(o):
    return o[1] if isinstance(o, list) and len(o) == 2 else []


def _hist_classes(i, o):
    cls = ['flags=%d' % i[3]]
    nb = 0
    for b in _blocks(o):
        nb += 1
        prod = b[0][0]
        if len(prod) == 1:
            cls.append('produce_err=%d' % prod[0])
            continue
        cls.append('txs=%d' % min(len(prod[1]), 8))
        for s in prod[2]:
            cls.append('skip=%d' % s[1])
        for st in prod[3]:
            cls.append('status=%s' % ('failed' if st[1] else 'ok'))
        for e in prod[4]:
            cls.append('event=%d' % e[0])
        if isinstance(b[1], list) and len(b[1]) == 1:
            cls.append('validate_err=%d' % b[1][0])
    cls.append('blocks=%d' % nb)
    return cls


def _nontrivial(i, o):
    return any(len(b[0][0]) > 1 and len(b[0][0][1]) > 1 for b in _blocks(o))


_COMMON = dict(cluster='Exec', crate='h-exec', shard=8, workers=16, classify=_hist_classes, nontrivial=_nontrivial)

_RULE = ('generated chains: 5-10 genesis coins, 2-4 messages, 1-4 (thorough 6) blocks of 0-6 (10) script transactions '
         '(empty/ret/rvrt/tro/smo scripts; coin, message-coin, message-data inputs; coin/change/variable outputs; '
         'missing, mismatching, doubly spent inputs; unsigned, expired, immature; resubmitted ids) built with '
         'TransactionBuilder, delivered by sources that respect or ignore the limits, executed by the real '
         'Executor::native produce -> validate -> commit. flags: 8 tiny gas limit, 16 tiny size limit, 64 missing '
         'coinbase contract, 2 genesis coin on a future utxo id, 4 fees near u64::MAX. non-trivial = a block with at '
         'least one executed transaction besides the mint')

_ASSUME = ['FuelVM, into_checked_basic, signature/predicate checks, into_ready and total_fee_paid are oracles: their '
           'answers are recorded from the real run (verif hooks) and fed to the model per attempt',
           '32-byte identifiers are interned to small naturals by the harness',
           'model scope: script + mint transactions, coin/message/contract inputs, all output kinds; create/upgrade/'
           'upload/blob are handled as generic chargeable transactions but not generated']

PROPS = {
    'C02': dict(_COMMON, id='C02', tag=2,
                n={'quick': 160, 'thorough': 4000},
                theorems=['block_conserves', 'history_conserves', 'conserve_okb_sound'],
                rule=_RULE, assumptions=_ASSUME + ['theorems: forbid_fake_coins = true, relayer disabled'],
                level='proof'),
}
