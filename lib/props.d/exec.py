"""Registry entries of the Exec cluster (block executor): C02, C06, C03, C05, C04, C01, C45."""

LATE = (14, 15, 16, 17, 18, 19, 20)


def _blocks(o):
    return o[1] if isinstance(o, list) and len(o) == 2 else []


def _hist_classes(i, o):
    cls = ['flags=%d' % i[3]]
    nb = 0
    for b in _blocks(o):
        nb += 1
        prod = b[0][0]
        if len(prod) == 1:
            cls.append('produce_err=%d' % prod[0])
            continue
        cls.append('txs=%d' % min(len(prod[1]), 8))
        for s in prod[2]:
            cls.append('skip=%d' % s[1])
        for st in prod[3]:
            cls.append('status=%s' % ('failed' if st[1] else 'ok'))
        for e in prod[4]:
            cls.append('event=%d' % e[0])
        if isinstance(b[1], list) and len(b[1]) == 1:
            cls.append('validate_err=%d' % b[1][0])
    cls.append('blocks=%d' % nb)
    return cls


def _nontrivial(i, o):
    return any(len(b[0][0]) > 1 and len(b[0][0][1]) > 1 for b in _blocks(o))


_COMMON = dict(cluster='Exec', crate='h-exec', shard=8, workers=16, classify=_hist_classes, nontrivial=_nontrivial)

_RULE = ('generated chains: 5-10 genesis coins, 2-4 messages, 1-4 (thorough 6) blocks of 0-6 (10) script transactions '
         '(empty/ret/rvrt/tro/smo scripts; coin, message-coin, message-data inputs; coin/change/variable outputs; '
         'missing, mismatching, doubly spent inputs; unsigned, expired, immature; resubmitted ids) built with '
         'TransactionBuilder, delivered by sources that respect or ignore the limits, executed by the real '
         'Executor::native produce -> validate -> commit. flags: 8 tiny gas limit, 16 tiny size limit, 64 missing '
         'coinbase contract, 2 genesis coin on a future utxo id, 4 fees near u64::MAX, 128 block gas limit = max_gas of the '
         'first transaction, 1 (C06 only) utxo validation off. non-trivial = a block with at '
         'least one executed transaction besides the mint')

_ASSUME = ['FuelVM, into_checked_basic, signature/predicate checks, into_ready and total_fee_paid are oracles: their '
           'answers are recorded from the real run (verif hooks) and fed to the model per attempt',
           '32-byte identifiers are interned to small naturals by the harness',
           'model scope: script + mint transactions, coin/message/contract inputs, all output kinds; create/upgrade/'
           'upload/blob are handled as generic chargeable transactions but not generated']

PROPS = {
    'C02': dict(_COMMON, id='C02', tag=2,
                n={'quick': 160, 'thorough': 4000},
                theorems=['block_conserves', 'history_conserves', 'conserve_okb_sound'],
                rule=_RULE, assumptions=_ASSUME + ['theorems: forbid_fake_coins = true, relayer disabled'],
                level='proof'),
    'C06': dict(_COMMON, id='C06', tag=6,
                n={'quick': 160, 'thorough': 4000},
                theorems=['produce_block_ids', 'validate_rejects_duplicate', 'no_reexecution'],
                rule=_RULE + '; every produced block is also validated in tampered variants (a transaction repeated '
                     'inside the block, a transaction of an earlier block appended, two mints, ...)',
                assumptions=_ASSUME + ['regenesis (export/import of ProcessedTransactions) is not covered'],
                level='proof'),
    'C03': dict(_COMMON, id='C03', tag=3,
                n={'quick': 160, 'thorough': 4000},
                theorems=['mint_last_and_exact', 'limits_respected', 'size_limit_refuted', 'validate_rejects_bad_mint'],
                rule=_RULE + '; every produced block is also validated with a mutated mint (amount+1, price+1, '
                     'index+1, missing, not last, doubled)',
                assumptions=_ASSUME + ['gas bound: the VM oracle reports used gas <= max_gas (hypothesis gas_ok)',
                                       'theorems: relayer disabled (forced transactions are executed without a gas '
                                       'pre-check by the code)'],
                level='proof'),
    'C04': dict(_COMMON, id='C04', tag=4,
                n={'quick': 160, 'thorough': 4000},
                theorems=['reverted_effects', 'skipped_storage_unchanged', 'skipped_changes_nothing_partial',
                          'skipped_changes_nothing_refuted'],
                rule=_RULE, assumptions=_ASSUME + ['what the VM wrote before reverting is oracle data; the model '
                                                   'states that it is not committed'],
                level='proof'),
    'C01': dict(_COMMON, id='C01', tag=1,
                n={'quick': 160, 'thorough': 4000},
                theorems=['produce_then_validate_partial', 'produce_then_validate_refuted'],
                rule=_RULE, assumptions=_ASSUME + ['theorem: relayer disabled; the oracles answer in validation as '
                                                   'in production (checked on the implementation by Pcheck: equal '
                                                   'statuses, events, counters and full storage Changes)',
                                                   'header hashing / state roots are compared by the implementation, '
                                                   'not modelled'],
                level='proof'),
    'C05': dict(_COMMON, id='C05', tag=5,
                n={'quick': 120, 'thorough': 3000},
                theorems=['da_range_exact', 'da_heights', 'da_no_advance', 'imported_once',
                          'forced_executed_or_reported', 'relayer_disabled'],
                rule=_RULE + '; flag 32: relayer enabled - a real Database<Relayer> holds 10 consecutive DA heights '
                     'with 0-3 events each (messages incl. re-delivered nonces and, in 1 case of 10, wrong DA heights; '
                     'forced transactions: undecodable bytes, a mint, too small claimed max_gas, valid scripts), the '
                     'parent DA height is 0, 2, u64::MAX-2 or u64::MAX, the block at height 0 is missing in 1 case of '
                     '12, every block advances the DA height by 0..5',
                assumptions=_ASSUME + ['SHA-256 / binary Merkle root are the executable Common/Sha256.v, Common/Merkle.v',
                                       'events are written with EventsHistory inserts + height-checked commits (the '
                                       'write path of RelayerDb::insert_events, which itself refuses wrong DA heights)',
                                       'forced-transaction validity (decode, max_gas, into_checked) is an oracle '
                                       'computed by the harness with the public fuel-tx / fuel-vm API'],
                level='proof'),
    'C45': dict(_COMMON, id='C45', tag=45,
                n={'quick': 120, 'thorough': 3000},
                theorems=['dry_run_function'],
                rule=_RULE + '; before every block 1-2 dry-run requests (random subsets of the block\'s transactions, '
                     'utxo validation default/on/off, with and without storage-read recording) are executed twice; every '
                     'column of the on-chain and relayer databases is digested before and after',
                assumptions=_ASSUME + ['the model carries only the call-graph argument (dry_run is a function of view '
                                       'and request); the weight is on the digest comparison over all columns',
                                       'txpool SpentInputs and the off-chain database are not reachable from '
                                       'Executor::dry_run and are not instantiated',
                                       'dry runs are issued one at a time against Executor::dry_run: interference between '
                                       'CONCURRENT Producer calls (locks taken by Producer::dry_run, a dry run in flight during '
                                       'block production) is not explored; the seeded change C45-1 is therefore missed (open gap)'],
                level='translation_validation'),
}
