_RES = {0: 'ok', 1: 'semaphore', 2: 'genesis_on_nonempty', 3: 'root_moved', 4: 'overflow', 5: 'zero_height',
        6: 'incorrect_height', 8: 'verification', 9: 'execution', 10: 'execute_genesis', 11: 'not_unique',
        12: 'backpressure', 13: 'write_port', 16: 'storage_not_found', 17: 'storage_other', -1: 'in_flight'}


def _c08_classes(i, o):
    cls = ['ops=%d' % min(len(i[3]), 40)]
    if i[1] or i[2]:
        cls.append('prepopulated')
    for op in i[3]:
        cls.append('op=' + {0: 'call', 1: 'concurrent', 2: 'release', 3: 'parked_on_backpressure'}.get(op[0], '?'))
        for c in (op[1:] if op[0] != 3 else [op[1]] + op[2]):
            cls.append('call=' + {0: 'commit_result', 1: 'execute_and_commit'}.get(c[0], '?'))
    if isinstance(o, list):
        for ph in o:
            if not isinstance(ph, list):
                continue
            for p in ph:
                if isinstance(p, list) and len(p) == 3 and p[0]:
                    cls.append('res=' + _RES.get(p[0][0], 'other%s' % p[0][0]))
    return cls


PROPS = {
    'C08': dict(
        id='C08', cluster='Importer', crate='h-importer', tag=8,
        n={'quick': 1500, 'thorough': 20000}, shard=100,
        theorems=['commit_ok_iff', 'failure_leaves_db', 'busy_rejects', 'busy_rejects_concurrent', 'parked_call_rejects_others',
                  'parks_meaning', 'broadcast_trace',
                  'model_refines_spec', 'trace_okb_sound', 'replay_meaning'],
        classify=_c08_classes,
        rule='random histories of 1..25 (thorough 40) operations on the real Importer: commit_result (local/network source) and '
             'execute_and_commit calls with the correct next block (85%), a duplicate of the tip, a skipped, stale, zero or random height, '
             'the wrong consensus kind, genesis at 0/1/5/113/u32::MAX-1/u32::MAX, 0..3 transactions (fresh, already stored, repeated inside '
             'the block), an execution change set that overwrites the block Merkle metadata or inserts a foreign block row, injected '
             'verifier / executor / write-port / storage-commit failures, notification buffer 1..3 (or 64) with subscriber release ops, '
             'a second call while the first is held inside a port (guard taken); when the notification buffer is full: a call that parks on the '
             'back-pressure wait (driven step by step by its wake-ups), 1..3 further calls attempted meanwhile (same height as the parked one, the '
             'next height, anything), then the release and the completion of the parked call; orphan consensus / transaction rows pre-inserted in a fifth of '
             'the cases. Observed per call: result variant, latest height, sorted keys of FuelBlocks / SealedBlockConsensus / Transactions / '
             'marker rows, root marker (index of first appearance), held results, ordered log of write-port calls, storage commits and '
             'announcements (drained inside the storage commit and after the call). non-trivial = distinct history with a non-empty observation',
        assumptions=['block heights fit u32',
                     'the ImporterDatabase port is an in-memory store mirroring crates/fuel-core/src/service/adapters/block_importer.rs '
                     '(latest height = last FuelBlocks key, latest root = metadata Latest row, commit = apply the change list in order); the '
                     'height-linked commit of the real Database is property C09',
                     'a change set either leaves the Latest row of the block Merkle metadata alone or writes a different value; distinct '
                     'blocks give distinct Merkle roots (root marker = number of roots seen)',
                     'one subscriber that drains after every call and keeps the results until a release op',
                     'the Merklized FuelBlocks table refuses to replace a stored key (C13)'],
    ),
}
