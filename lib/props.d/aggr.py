"""Aggr cluster: C43 (block aggregator fuel <-> protobuf conversions, StorageDB::store_block)."""

_IN = ['coin-signed', 'coin-predicate', 'contract', 'msg-coin-signed', 'msg-coin-predicate',
       'msg-data-signed', 'msg-data-predicate']
_OUT = ['coin', 'contract', 'change', 'variable', 'contract-created']


def _c43_classes(i, o):
    form = i[0]
    if form == 0:
        cls = ['store len=%d' % min(len(i[1]), 10)]
        if isinstance(o, list):
            acc = [x[0] for x in o if isinstance(x, list) and len(x) == 2]
            cls.append('store accepted=%d rejected=%d' % (min(acc.count(1), 5), min(acc.count(0), 5)))
            if 4294967295 in i[1]:
                cls.append('store height u32::MAX present')
        return cls
    if form == 3:
        rss = i[2]
        cls = ['block txs=%d' % min(len(rss), 5)]
        rev = [any(r[0] in (1, 2) for r in rs) for rs in rss]
        msg = [any(r[0] == 3 for r in rs) for rs in rss]
        if any(rev):
            cls.append('block with a reverted/panicked tx')
        if any(m and not r for m, r in zip(msg, rev)):
            cls.append('block with a message from a successful tx')
        if any(rev) and any(m and not r for m, r in zip(msg, rev)):
            cls.append('block: revert in one tx, message in another')
        if any(m and r for m, r in zip(msg, rev)):
            cls.append('block: message in a reverted tx')
        return cls
    cls = ['roundtrip' if form == 1 else 'overridden proto']
    for m in i[2]:
        cls.append('input ' + _IN[m[0]])
    for m in i[3]:
        cls.append('output ' + _OUT[m[0]])
    cls.append('policies set=%d' % sum(1 for p in i[1] if p))
    if form == 2 and isinstance(o, list) and o:
        cls.append('from_proto -> %s' % {1: 'ok', 0: 'error', -777: 'panic'}.get(o[0], '?'))
    return cls


PROPS = {
    'C43': dict(
        id='C43', cluster='Aggr', crate='h-aggr', tag=43,
        n={'quick': 1200, 'thorough': 30000},
        theorems=['from_proto_to_proto', 'from_proto_to_proto_message', 'narrowing_is_checked',
                  'store_contiguous', 'store_accepts_iff', 'store_checker_sound', 'outbox_ids_recomputed'],
        classify=_c43_classes,
        rule='store: every sequence of <= 3 heights over {0,1,2,3,u32::MAX-1,u32::MAX} on an empty in-memory '
             'database + random walks; conversions: Script transactions carrying every input variant (7) / output '
             'variant (5) alone and random mixtures, integer fields at 0/1/width boundaries, policies subsets: real '
             'to_proto read back field by field through a visitor and compared with the model, real round trip flag; '
             'overridden proto messages (every narrow field at 65535/65536/u32::MAX, ignored fields, policy bits '
             'incl. unknown bits) through the real from_proto vs the model (ok / error / panic); whole blocks: every '
             'assignment of 6 receipt shapes (none/return/revert/panic/message/message+revert) to 2 (thorough 3) '
             'transactions + random blocks of 0..5 transactions, outbox ids derived per transaction as the producer '
             'does, real convert_block -> decode -> fuel_block_from_protobuf compared with the original block '
             '(equality, message_receipt_count, message_outbox_root, id). '
             'non-trivial = distinct input with a non-empty, non-panic observation',
        assumptions=['PARTIAL: modelled = policies, all 7 input variants, all 5 output variants, utxo id, tx pointer, '
                     'store_block height rule, the outbox-id recomputation rule of fuel_block_from_protobuf. NOT modelled = block header fields (compared on the implementation only), script/create/mint/upgrade/upload/blob '
                     'specific fields, witnesses, storage slots, upgrade purpose, receipts',
                     'byte arrays and integers are carried as values; protobuf wire encoding (prost) is outside the model',
                     'the model is hand-mirrored per field (schema in Aggr/Model.v)'],
        level='proof',
        shard=1000,
    ),
}
