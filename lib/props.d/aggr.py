"""Aggr cluster: C43 (block aggregator fuel <-> protobuf conversions, StorageDB::store_block)."""

_IN = ['coin-signed', 'coin-predicate', 'contract', 'msg-coin-signed', 'msg-coin-predicate',
       'msg-data-signed', 'msg-data-predicate']
_OUT = ['coin', 'contract', 'change', 'variable', 'contract-created']


def _c43_classes(i, o):
    form = i[0]
    if form == 0:
        cls = ['store len=%d' % min(len(i[1]), 10)]
        if isinstance(o, list):
            acc = [x[0] for x in o if isinstance(x, list) and len(x) == 2]
            cls.append('store accepted=%d rejected=%d' % (min(acc.count(1), 5), min(acc.count(0), 5)))
            if 4294967295 in i[1]:
                cls.append('store height u32::MAX present')
        return cls
    cls = ['roundtrip' if form == 1 else 'overridden proto']
    for m in i[2]:
        cls.append('input ' + _IN[m[0]])
    for m in i[3]:
        cls.append('output ' + _OUT[m[0]])
    cls.append('policies set=%d' % sum(1 for p in i[1] if p))
    if form == 2 and isinstance(o, list) and o:
        cls.append('from_proto -> %s' % {1: 'ok', 0: 'error', -777: 'panic'}.get(o[0], '?'))
    return cls


PROPS = {
    'C43': dict(
        id='C43', cluster='Aggr', crate='h-aggr', tag=43,
        n={'quick': 1200, 'thorough': 30000},
        theorems=['from_proto_to_proto', 'from_proto_to_proto_message', 'narrowing_is_checked',
                  'store_contiguous', 'store_accepts_iff', 'store_checker_sound'],
        classify=_c43_classes,
        rule='store: every sequence of <= 3 heights over {0,1,2,3,u32::MAX-1,u32::MAX} on an empty in-memory '
             'database + random walks; conversions: Script transactions carrying every input variant (7) / output '
             'variant (5) alone and random mixtures, integer fields at 0/1/width boundaries, policies subsets: real '
             'to_proto read back field by field through a visitor and compared with the model, real round trip flag; '
             'overridden proto messages (every narrow field at 65535/65536/u32::MAX, ignored fields, policy bits '
             'incl. unknown bits) through the real from_proto vs the model (ok / error / panic). '
             'non-trivial = distinct input with a non-empty, non-panic observation',
        assumptions=['PARTIAL: modelled = policies, all 7 input variants, all 5 output variants, utxo id, tx pointer, '
                     'store_block height rule. NOT modelled = block header, script/create/mint/upgrade/upload/blob '
                     'specific fields, witnesses, storage slots, upgrade purpose, receipts',
                     'byte arrays and integers are carried as values; protobuf wire encoding (prost) is outside the model',
                     'the model is hand-mirrored per field (schema in Aggr/Model.v)'],
        level='proof',
        shard=1000,
    ),
}
