"""P2P cluster: C31 (peer slots, ConnectionState flag, reputation)."""


def _c31_classes(i, o):
    nres, mx, ops = i
    cls = ['max=%d' % mx, 'reserved=%d' % nres, 'ops=%d' % min(len(ops), 30) if len(ops) < 10 else 'ops>=10']
    kinds = {0: 'connect', 1: 'identify', 2: 'disconnect', 3: 'score', 4: 'decay', 5: 'gossip'}
    for k in sorted(set(op[0] for op in ops)):
        cls.append('op=' + kinds.get(k, '?'))
    if isinstance(o, list) and o and o != [-777]:
        full = any(isinstance(s, list) and len(s) >= 4 and isinstance(s[-2], list) and len(s[-2]) == mx and mx > 0 for s in o)
        if full:
            cls.append('table-full-reached')
        if any(isinstance(s, list) and len(s) == 6 and s[1] for s in o):
            cls.append('ban-issued')
        if any(isinstance(s, list) and len(s) == 6 and s[0] == 1 and op[0] == 0 for s, op in zip(o[1:], ops)):
            cls.append('connect-refused')
        for before, after, op in zip(o, o[1:], ops):
            if op[0] == 2 and isinstance(before, list) and isinstance(after, list):
                if len(before[-2]) == mx and len(after[-2]) == mx - 1:
                    cls.append('full-table-lost-a-peer')
                    break
    return cls


PROPS = {
    'C31': dict(
        id='C31', cluster='P2P', crate='h-p2p', tag=31,
        n={'quick': 1500, 'thorough': 30000},
        theorems=['stub_trace_nonempty'],
        classify=_c31_classes,
        rule='stub',
        assumptions=[],
        level='proof'),
}
