"""P2P cluster: C31 (peer slots, ConnectionState flag, reputation)."""


def _c31_classes(i, o):
    nres, mx, ops = i
    cls = ['max=%d' % mx, 'reserved=%d' % nres, ('ops=%d' % len(ops)) if len(ops) < 10 else 'ops>=10']
    kinds = {0: 'connect', 1: 'identify', 2: 'disconnect', 3: 'score', 4: 'decay', 5: 'gossip'}
    for k in sorted(set(op[0] for op in ops)):
        cls.append('op=' + kinds.get(k, '?'))
    if isinstance(o, list) and o and o != [-777]:
        if mx > 0 and any(isinstance(s, list) and len(s) >= 4 and len(s[-2]) == mx for s in o):
            cls.append('table-full-reached')
        if any(isinstance(s, list) and len(s) == 6 and s[1] for s in o):
            cls.append('ban-issued')
        if any(isinstance(s, list) and len(s) == 6 and s[0] == 1 and op[0] == 0 for s, op in zip(o[1:], ops)):
            cls.append('connect-refused')
        for before, after, op in zip(o, o[1:], ops):
            if op[0] == 2 and isinstance(before, list) and isinstance(after, list):
                if mx > 0 and len(before[-2]) == mx and len(after[-2]) == mx - 1:
                    cls.append('full-table-lost-a-peer')
                    break
        if any(isinstance(s, list) and any(r[1] == [75, 1] for r in s[-2]) for s in o):
            cls.append('score-clamped-at-max')
    return cls


def _c32_classes(i, o):
    kind = i[0]
    cls = ['kind=%s' % {0: 'cache', 1: 'request', 2: 'response'}.get(kind, '?')]
    if kind == 0:
        cls.append('capacity=%d' % i[1])
        cls.append('db_mode=%s' % ('all-or-nothing' if i[3] == 0 else 'partial'))
        if any(op[0] == 1 for op in i[4]):
            cls.append('cache-poisoned')
        if isinstance(o, list):
            for op, ob in zip(i[4], o):
                if op[0] == 0 and isinstance(ob, list) and len(ob) == 4:
                    cls.append('answer=%s' % ('none' if ob[2] == [0] else 'some'))
                    cls.append('db_calls=%d' % len(ob[3]))
                    if ob[3] and ob[3][0][0] > op[2]:
                        cls.append('partly-from-cache')
                    if len(ob[1]) < len(ob[0]) + (ob[3][0][1] - ob[3][0][0] if ob[3] and ob[2] != [0] else 0):
                        cls.append('eviction-observed')
    elif kind == 1:
        cls.append('request=%d' % i[1][0])
        if isinstance(o, list) and len(o) == 4:
            cls.append('fits-cap=%d' % o[3])
            cls.append('bytes=%d' % min(len(o[0]), 12))
    else:
        cls.append('variant=%d' % i[1])
        cls.append('protocol=%d' % i[5])
        cls.append('payload=%s' % ('ok' if i[2] == 1 else 'err%d' % i[4]))
        if isinstance(o, list) and len(o) == 2:
            cls.append('read=%s' % ('error' if o[1] == [0] else 'message'))
    return cls


PROPS = {
    'C31': dict(
        id='C31', cluster='P2P', crate='h-p2p', tag=31,
        n={'quick': 1500, 'thorough': 30000},
        theorems=['slots_bounded', 'reserved_always_admitted', 'reserved_never_banned_by_score', 'score_le_max',
                  'flag_iff_free_slot_partial', 'flag_iff_free_slot_refuted', 'new_peer_admitted_iff_free_slot',
                  'peer_trace_ok', 'trace_checker_sound'],
        classify=_c31_classes,
        rule='replays of defect N1 (fill the table, lose a peer, lose a second one) for limits 1..3; bounded-exhaustive: every '
             'connect/disconnect word of length 4 (5 thorough) over 3 non-reserved + 1 reserved peer for limits 0..3; score '
             'boundaries (150, 150.5, 151, -50, -50.5, -51, +-2^-60) on a non-reserved and a reserved peer; gossip scores around '
             '-16000; decay chains of 60 steps; plus random histories of 3..30 (60) events over 7 peers (0..2 reserved, limit 0..3) '
             'with dyadic score deltas. non-trivial = distinct input with a non-empty observation',
        assumptions=['scores and score deltas are finite f64 values in the normal range (no NaN, infinity, overflow, subnormal): '
                     'the model computes every f64 operation as the exact dyadic result rounded to 53 bits, ties to even',
                     'ConnectionTracker::allow_peer is observed through the hook config::verif_hooks (same SeqLock reader the '
                     'service hands to the tracker); libp2p itself is not exercised',
                     'flag <=> free slot is proved for limits >= 1 only; for the limit 0 the flag is never cleared (known finding)'],
        level='proof'),
    'C32': dict(
        id='C32', cluster='P2P', crate='h-p2p', tag=32,
        n={'quick': 1500, 'thorough': 30000},
        theorems=['served_eq_db', 'served_one_and_consistency_preserved', 'oversize_refused_partial', 'request_roundtrip',
                  'request_read_within_cap', 'response_roundtrip', 'response_v1_conversion'],
        classify=_c32_classes,
        rule='three kinds of case. cache: bounded-exhaustive (every cached subset of 4 heights x every range inside 0..=4 x chain '
             'length 0..=4, each range asked twice) plus random histories of 1..8 (16) requests / cache loads / poisoned entries '
             'over 12 heights and both tables, capacities 1, 2, 3, 5, 64 (eviction), database all-or-nothing or partial. request: '
             'every varint boundary (2^7, 2^14, 2^21, 2^28, u32::MAX) in both range requests with size caps around the encoded '
             'length, plus random requests incl. 0..5 / 127..129 transaction ids with edge bytes. response: every variant x '
             'Ok(0..2 items) / every error code incl. Unknown x both protocols x small and large size caps. non-trivial = distinct '
             'input with a non-empty observation',
        assumptions=['quick_cache eviction is an oracle: the cache content is read (peek) before and after every op and the model '
                     'only requires it to be a subset of what it predicts',
                     'items are identified by a value code (DA height field of a header, number of transactions); the scripted '
                     'database holds heights below chain_len',
                     'the model decoder accepts some byte strings postcard rejects (varints above the integer width); only '
                     'decode(encode m), strict-prefix rejection and the size cap are compared',
                     'response payloads are not modelled at byte level: their encoded length is taken from the observation and the '
                     'payload codec is a Section variable with a round-trip hypothesis (response codec: partial)',
                     'handle_db_request / handle_full_transactions_request need the running libp2p Task and are NOT exercised: '
                     'oversize_refused_partial is a statement about the two comparisons only'],
        level='proof (partial)'),
}
