"""P2P cluster: C31 (peer slots, ConnectionState flag, reputation)."""


def _c31_classes(i, o):
    nres, mx, ops = i
    cls = ['max=%d' % mx, 'reserved=%d' % nres, ('ops=%d' % len(ops)) if len(ops) < 10 else 'ops>=10']
    kinds = {0: 'connect', 1: 'identify', 2: 'disconnect', 3: 'score', 4: 'decay', 5: 'gossip'}
    for k in sorted(set(op[0] for op in ops)):
        cls.append('op=' + kinds.get(k, '?'))
    if isinstance(o, list) and o and o != [-777]:
        if mx > 0 and any(isinstance(s, list) and len(s) >= 4 and len(s[-2]) == mx for s in o):
            cls.append('table-full-reached')
        if any(isinstance(s, list) and len(s) == 6 and s[1] for s in o):
            cls.append('ban-issued')
        if any(isinstance(s, list) and len(s) == 6 and s[0] == 1 and op[0] == 0 for s, op in zip(o[1:], ops)):
            cls.append('connect-refused')
        for before, after, op in zip(o, o[1:], ops):
            if op[0] == 2 and isinstance(before, list) and isinstance(after, list):
                if mx > 0 and len(before[-2]) == mx and len(after[-2]) == mx - 1:
                    cls.append('full-table-lost-a-peer')
                    break
        if any(isinstance(s, list) and any(r[1] == [75, 1] for r in s[-2]) for s in o):
            cls.append('score-clamped-at-max')
    return cls


PROPS = {
    'C31': dict(
        id='C31', cluster='P2P', crate='h-p2p', tag=31,
        n={'quick': 1500, 'thorough': 30000},
        theorems=['slots_bounded', 'reserved_always_admitted', 'reserved_never_banned_by_score', 'score_le_max',
                  'flag_iff_free_slot_partial', 'flag_iff_free_slot_refuted', 'new_peer_admitted_iff_free_slot',
                  'peer_trace_ok', 'trace_checker_sound'],
        classify=_c31_classes,
        rule='replays of defect N1 (fill the table, lose a peer, lose a second one) for limits 1..3; bounded-exhaustive: every '
             'connect/disconnect word of length 4 (5 thorough) over 3 non-reserved + 1 reserved peer for limits 0..3; score '
             'boundaries (150, 150.5, 151, -50, -50.5, -51, +-2^-60) on a non-reserved and a reserved peer; gossip scores around '
             '-16000; decay chains of 60 steps; plus random histories of 3..30 (60) events over 7 peers (0..2 reserved, limit 0..3) '
             'with dyadic score deltas. non-trivial = distinct input with a non-empty observation',
        assumptions=['scores and score deltas are finite f64 values in the normal range (no NaN, infinity, overflow, subnormal): '
                     'the model computes every f64 operation as the exact dyadic result rounded to 53 bits, ties to even',
                     'ConnectionTracker::allow_peer is observed through the hook config::verif_hooks (same SeqLock reader the '
                     'service hands to the tracker); libp2p itself is not exercised',
                     'flag <=> free slot is proved for limits >= 1 only; for the limit 0 the flag is never cleared (known finding)'],
        level='proof'),
}
