"""Transaction pool cluster (C16..C21): coq/Pool, harness h-pool."""


def _classes(i, o):
    cls = []
    ops = i[3]
    kinds = {0: 'insert', 1: 'extract', 2: 'block', 3: 'preconf', 4: 'expire', 5: 'dbapply'}
    cls.append('ops=%d' % (10 * (len(ops) // 10)))
    seen = set()
    for op in ops:
        seen.add(kinds.get(op[0], '?'))
    for k in sorted(seen):
        cls.append('has-' + k)
    if isinstance(o, list) and len(o) > 1 and o != [-777]:
        errs = set()
        evicted = False
        lru_full = False
        maxnodes = 0
        chain = False
        for op, ob in zip(ops, o[1:]):
            if not isinstance(ob, list) or len(ob) < 3:
                continue
            res, log, dump = ob[0], ob[1], ob[2]
            if len(ob) > 3 and ob[3] == 1:
                cls.append('stale-accept(K-C19 class)')
            if op[0] == 0:
                if res == [0]:
                    errs.add('ok')
                elif len(res) == 2:
                    errs.add('err%d' % res[1])
            if op[0] == 1 and res:
                cls.append('extracted=%d' % min(len(res), 4))
            for r, _ in log[1]:
                cls.append('squeezed-reason%d' % r)
            if log[1]:
                evicted = True
            if len(dump[13]) >= dump[14]:
                lru_full = True
            maxnodes = max(maxnodes, len(dump[0]))
            if dump[1]:
                chain = True
        for e in sorted(errs):
            cls.append('insert-' + e)
        if evicted:
            cls.append('some-squeezed-out')
        if lru_full:
            cls.append('lru-full')
        if chain:
            cls.append('has-dependency-edge')
        cls.append('max-pool=%d' % maxnodes)
    return sorted(set(cls))


_RULE = ('random histories over a small universe (10 database coins, 2 messages, 2+3 contracts, 3 blob ids, 2 owners, '
         '3 amounts): 5..13 (thorough 18) generated transactions (fresh / spending pool outputs / colliding / replacing with '
         'higher tip / duplicate id / missing, spent or mismatching inputs / blobs / contract creations), 8..32 (50) operations: '
         'insert, extract with random constraints (zero limits, excluded contracts, min gas price), block import (stale and '
         'future heights, unknown ids), preconfirmations (success/failure/squeezed-out, with and without resolved outputs, '
         'late heights), expiry, database application; pool limits max_txs 3..8, chain 2..4, gas/bytes 15..200 so that '
         'eviction, limit hits and LRU overflow occur. After EVERY operation the full state of the real pool (graph nodes '
         'with cumulative fields, edges, creator caches, 5 collision indexes, executable order, tx map, accounting, stats, '
         'LRU in order, spender/tentative maps, extracted outputs, tentative preconfirmations, canonical height) and the '
         'status-manager calls are compared with the model. non-trivial = distinct input whose trace is not a panic')

_ASSUME = ['pending pool disabled (max_pending_pool_size_percentage = 0): missing inputs are reported, never parked',
           'empty black list, metrics off',
           'transaction ids, max_gas, max_gas_price and metered size are supplied through the pool metadata (verif hook '
           'Metadata::new_verif); inputs/outputs are installed in a Checked<Script>/Checked<Blob> through the test-helpers AsMut',
           'creation instants strictly increase between insertions (the harness waits for the clock to advance)',
           'a block never contains a pooled transaction together with one of its static descendants (the debug assertion in '
           'process_committed_transactions would fire depending on HashSet iteration order)',
           'well-formed commit order: a transaction appears in a block / successful preconfirmation only after all its '
           'static pool parents were committed or preconfirmed (valid chains); a preconfirmation rolled back by a block '
           'un-commits its transaction; otherwise Pool::process_committed_transactions leaves stale cumulative fields in '
           'the remaining ancestors (observed, see K-C17-stale-cumulative-after-lru-overflow)',
           'inputs of a generated transaction are pairwise distinct, as are its created contracts (fuel-tx validity)',
           'the iteration order of the HashSet of confirmed ids is read back from the LRU recency order and given to the model',
           'which colliding / ancestor-check error variant is reported depends on HashMap order in the code: collapsed to one tag']


def _spec(pid, tag, theorems, partial=None, level='proof'):
    return dict(id=pid, cluster='Pool', crate='h-pool', tag=tag,
                n={'quick': 1000, 'thorough': 20000},
                theorems=theorems, classify=_classes, rule=_RULE,
                assumptions=_ASSUME + ([partial] if partial else []),
                profiles=['dev'], level=level, shard=250, workers=16)


PROPS = {
    'C16': _spec('C16', 16, ['no_conflicts_all_histories', 'core_inv_step', 'core_inv_no_conflict',
                             'pool_invb_no_conflict', 'no_conflictb_sound'],
                 partial='theorem over all histories assumes the true gas/size totals fit u64 (saturating counters)'),
    'C17': _spec('C17', 17, ['can_store_bounds_partial', 'remove_subtree_exact', 'inv_edges_sound_acyclic',
                             'cascadeb_sound', 'parents_first_sound', 'graph_wellformed_all_histories',
                             'hist_inv_step', 'hist_inv_initial', 'hist_inv_meaning', 'cascade_all_histories_partial',
                             'cascade_step_partial', 'remove_subtree_cascades_partial', 'chain_bound_all_histories',
                             'diamond_free_all_histories', 'cascade_all_histories', 'hist_inv2_step', 'cascade_step',
                             'extraction_parents_first_all_histories', 'hist_inv3_step'],
                 partial='MOSTLY PROVED OVER ALL HISTORIES (induction over every operation list from the empty pool, no hypothesis): '
                         'inv_edges holds in every reachable state - no dangling edge, every parent of a stored transaction is stored, '
                         'each dependency created strictly before its dependent, graph acyclic, creator caches name stored transactions '
                         '(graph_wellformed_all_histories); no diamond below any node and the subtree removal never meets a vanished node '
                         '(diamond_free_all_histories); removal cascades to all dependents = the checker cascadeb holds on every step of '
                         'every model history (cascade_all_histories); every extraction from a reachable state hands out parents before '
                         'children = the checker parents_first (extraction_parents_first_all_histories); the counter '
                         'number_dependents_in_chain of every stored transaction is <= max(1, max_txs_chain_count) '
                         '(chain_bound_all_histories); the invariants are kept by every operation from any state satisfying them '
                         '(hist_inv_step, hist_inv2_step, hist_inv3_step). STILL ONLY decided by the checker pool_invb (inside step17) on every '
                         'implementation/model trace: the walk-based shape test inv_shape (real ancestor-count bound, diamond test above '
                         'a node), exactness of the cumulative counters (false after an LRU overflow: K-C17), completeness of the creator '
                         'caches and of the collision indexes (inv_creators, inv_cm), LRU length, and that the panic flag of the '
                         'remaining debug assertions stays false (inv_exec is proved, see C18)'),
    'C18': _spec('C18', 18, ['extraction_respects', 'gather_best_txs_respects', 'ratio_order_partial',
                             'sorted_keys_ratio', 'key_order_transitive', 'exec_insert_keeps_sorted_partial',
                             'exec_remove_keeps_sorted_partial', 'exec_sorted_all_histories',
                             'ratio_order_all_histories', 'exec_exact_all_histories',
                             'extraction_parents_first_all_histories', 'exec_complete_all_histories',
                             'inv_exec_all_histories'],
                 partial='MOSTLY PROVED: limits, price, excluded contracts, conflict-freedom and removal proved for all states; '
                         'PROVED for every reachable state by induction over all operation lists (no hypothesis): the checker inv_exec '
                         '(inv_exec_all_histories) - the executable list is sorted with positive max_gas (exec_sorted_all_histories), every '
                         'key is exactly the key of a stored transaction without pool dependencies (exec_exact_all_histories), every stored '
                         'transaction without pool dependencies is in it (exec_complete_all_histories); hence the ratio order of the keys '
                         'selected by a pass holds without hypothesis (ratio_order_all_histories); every extraction hands out parents before '
                         'children (extraction_parents_first_all_histories). Still only checked by extraction_okb on every trace: the '
                         'relative order of transactions selected in DIFFERENT passes of one extraction (a promoted child may have a '
                         'better ratio than an earlier pick)'),
    'C19': _spec('C19', 19, ['insert_rejects', 'insert_rejection_is_noop', 'collision_rule',
                             'handed_out_inputs_rejected_refuted', 'handed_out_inputs_recorded_partial',
                             'lru_put_no_eviction_partial'],
                 partial='PARTIAL PROOF + KNOWN FINDING K-C19-spent-lru-overflow: the handed-out-and-unsettled clause is refuted '
                         '(handed_out_inputs_rejected_refuted); the no-overflow ingredients are proved but not assembled over histories'),
    'C20': _spec('C20', 20, ['late_preconf_noop', 'block_included_leave', 'rollback_clears', 'rollback_evicts_dependents',
                             'block_preserves_core'],
                 partial='PARTIAL PROOF: included transactions leave, rollback clears its traces, late preconfirmation is the '
                         'identity, core invariant preserved, coin dependents of a rolled back preconfirmation evicted; the users of a '
                         'contract it created and the marking of committed inputs as spent are checked by block_okb on every trace'),
    'C21': _spec('C21', 21, ['squeezed_exactly_once', 'leaves_exactly_once', 'expiry_reports_exactly',
                             'removed_exactly_once']),
}
