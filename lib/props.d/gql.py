def _c38_classes(i, o):
    cls = []
    if i[0] == 1:
        cls.append('walk')
        cls.append('walk:len=%d' % min(len(i[1]), 10))
        cls.append('walk:size=%d' % min(i[2], 10))
        cls.append('walk:dir=%s' % ('rev' if i[3] else 'fwd'))
        if isinstance(o, list) and o and isinstance(o[0], int):
            cls.append('walk:status=%s' % {0: 'finished', 1: 'error', 2: 'stuck', 3: 'fuel'}.get(o[0], '?'))
            if len(o) > 1 and isinstance(o[1], list):
                cls.append('walk:pages=%d' % min(len(o[1]), 10))
        return cls
    coll, fail, after, before, first, last = i[1:7]
    cls.append('req:len=%d' % min(len(coll), 10))
    cls.append('req:args=%s%s%s%s' % ('a' if after else '-', 'b' if before else '-', 'f' if first else '-', 'l' if last else '-'))
    cur = after or before
    if cur:
        cls.append('cursor=%s' % ('bad' if cur[0] < 0 else 'present' if cur[0] in coll else 'absent'))
    else:
        cls.append('cursor=none')
    cnt = first or last
    if cnt:
        c = cnt[0]
        cls.append('count=%s' % ('neg' if c < 0 else 'zero' if c == 0 else 'i32max' if c == 2147483647 else
                                 'lt_len' if c < len(coll) else 'eq_len' if c == len(coll) else 'gt_len'))
    if fail:
        cls.append('storage_failure_injected')
    if isinstance(o, list) and len(o) == 2:
        if o[0] == 1:
            cls.append('err=%d' % o[1])
        elif o[0] == 0 and isinstance(o[1], list) and len(o[1]) == 3:
            cls.append('page:edges=%d prev=%d next=%d' % (min(len(o[1][0]), 10), o[1][1], o[1][2]))
    return cls


PROPS = {
    'C38': dict(
        id='C38', cluster='Gql', crate='h-gql', tag=38,
        n={'quick': 3000, 'thorough': 60000},
        theorems=['pages_enumerate_once', 'walk_exactly_once', 'walk_code_sound', 'has_more_flag_exact',
                  'request_conforms', 'req_code_sound', 'page_okb_sound', 'rest_spec', 'validation_table',
                  'zero_size_stuck', 'storage_error_swallowed', 'storage_failure_not_masked_refuted', 'ssortedb_sound'],
        classify=_c38_classes,
        rule='bounded-exhaustive through the real (hooked) schema::query_pagination: every collection size 0..7 (thorough 0..9, '
             'plus every subset of {1..8}), every page size 0..8 (10), every cursor position (each key and each gap incl. before the '
             'first / after the last key, and no cursor), both directions, as single requests and as full cursor-following walks; '
             'every presence pattern of (after, before, first, last) with decodable/undecodable cursor strings and counts '
             'i32::MIN, -1, 0, 2, 5, i32::MAX; an injected storage error at every stream position (known-finding class); plus random '
             'collections with keys up to u64::MAX (a tenth unsorted / with duplicate keys: model equality only). '
             'non-trivial = distinct input with a non-empty observation',
        assumptions=['the `entries` callback behaves like the database iterators used by the resolvers: keys strictly increasing, '
                     'iteration starts at the first key not before the start key (start key included)',
                     'error variants are recognised by the fixed message prefixes of schema.rs / async_graphql::connection::query_with',
                     'async_graphql::connection::query_with (argument decoding) is modelled from its source in the vendored crate 7.2.1'],
    ),
}
