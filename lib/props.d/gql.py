def _c38_classes(i, o):
    cls = []
    if i[0] == 1:
        cls.append('walk')
        cls.append('walk:len=%d' % min(len(i[1]), 10))
        cls.append('walk:size=%d' % min(i[2], 10))
        cls.append('walk:dir=%s' % ('rev' if i[3] else 'fwd'))
        if isinstance(o, list) and o and isinstance(o[0], int):
            cls.append('walk:status=%s' % {0: 'finished', 1: 'error', 2: 'stuck', 3: 'fuel'}.get(o[0], '?'))
            if len(o) > 1 and isinstance(o[1], list):
                cls.append('walk:pages=%d' % min(len(o[1]), 10))
        return cls
    coll, fail, after, before, first, last = i[1:7]
    cls.append('req:len=%d' % min(len(coll), 10))
    cls.append('req:args=%s%s%s%s' % ('a' if after else '-', 'b' if before else '-', 'f' if first else '-', 'l' if last else '-'))
    cur = after or before
    if cur:
        cls.append('cursor=%s' % ('bad' if cur[0] < 0 else 'present' if cur[0] in coll else 'absent'))
    else:
        cls.append('cursor=none')
    cnt = first or last
    if cnt:
        c = cnt[0]
        cls.append('count=%s' % ('neg' if c < 0 else 'zero' if c == 0 else 'i32max' if c == 2147483647 else
                                 'lt_len' if c < len(coll) else 'eq_len' if c == len(coll) else 'gt_len'))
    if fail:
        cls.append('storage_failure_injected')
    if isinstance(o, list) and len(o) == 2:
        if o[0] == 1:
            cls.append('err=%d' % o[1])
        elif o[0] == 0 and isinstance(o[1], list) and len(o[1]) == 3:
            cls.append('page:edges=%d prev=%d next=%d' % (min(len(o[1][0]), 10), o[1][1], o[1][2]))
    return cls


def _c37_classes(i, o):
    mode, world, owner, asset, base, target, mx, partial, excl = i
    cls = ['mode=%s' % {0: 'indexed', 1: 'largest_first', 2: 'random_improve'}.get(mode, '?')]
    cls.append('world=%d' % min(len(world), 12))
    cls.append('max=%s' % ('0' if mx == 0 else 'small' if mx < 10 else 'large'))
    cls.append('partial=%d' % partial)
    cls.append('excl=%d' % min(len(excl), 4))
    adm = [r[4] for r in world if r[2] == owner and ((r[1] == 0 and r[3] == asset) or (r[1] != 0 and asset == base and not r[5]))
           and r[0] not in excl]
    tot = sum(adm)
    cls.append('target=%s' % ('zero' if target == 0 else 'lt_total' if target < tot else 'eq_total' if target == tot else 'gt_total'))
    if any(r[1] != 0 for r in world):
        cls.append('has_messages')
    if len(set(adm)) < len(adm):
        cls.append('equal_amounts')
    if isinstance(o, list) and len(o) == 2 and isinstance(o[1], list) and o[1]:
        if o[1][0] == 0:
            cls.append('answer=ok%d' % min(len(o[1][1]), 8))
        else:
            cls.append('answer=err%d' % o[1][1])
    return cls


def _c36_classes(i, o):
    bal_on, cts_on, base, evs = i
    cls = ['events=%d' % min(len(evs), 25), 'flags=%d%d' % (bal_on, cts_on)]
    for e in evs:
        cls.append('ev=%s_%s' % ('create' if e[0] == 0 else 'consume', 'coin' if e[1][1] == 0 else ('retryable_msg' if e[1][5] else 'msg')))
    # consistency of the history (same definition as the model's consistentb)
    unspent = []
    ok = True
    for e in evs:
        r = e[1]
        if e[0] == 0:
            if any(x[0] == r[0] and (x[1] == 0) == (r[1] == 0) for x in unspent):
                ok = False
                break
            unspent.append(r)
        else:
            if r in unspent:
                unspent.remove(r)
            else:
                ok = False
                break
    cls.append('history=%s' % ('consistent' if ok else 'inconsistent'))
    return cls


PROPS = {
    'C36': dict(
        id='C36', cluster='Gql', crate='h-gql', tag=36,
        n={'quick': 1500, 'thorough': 30000},
        theorems=['index_eq_utxo', 'index_step', 'trace_code_complete', 'inv_code_sound'],
        classify=_c36_classes,
        rule='random event histories of 1..14 (thorough 24) events (CoinCreated / CoinConsumed / MessageImported / MessageConsumed; two '
             'owners, two assets, retryable and non-retryable messages, amounts 0, small, u64::MAX) fed one event at a time through the real '
             'process_executor_events on an in-memory Database<OffChain>; after every event all six tables (CoinBalances, MessageBalances, '
             'CoinsToSpendIndex, OwnedCoins, OwnedMessageIds, SpentMessages) are dumped and compared with the model. Three quarters of the '
             'histories are consistent (Pcheck: tables = unspent set after every event), one quarter corrupted (double create, consume of a '
             'spent / unknown resource, consume with a different amount / owner / asset / retryable flag: model equality incl. the skipped '
             'coins-to-spend update after a balance error). One case in four runs with one or both indexations disabled. '
             'non-trivial = distinct input with a non-empty observation',
        assumptions=['consistent history = what the executor emits (C02): creations fresh, consumptions of unspent resources with exact data',
                     'the sum of all created amounts stays below 2^128 (saturating_add never saturates)',
                     'IndexationError values are only logged by the worker; the tie observes their effect on the tables, not the variant',
                     'theorem stated for both indexations enabled; disabled-flag runs are checked for model equality only'],
    ),
    'C37': dict(
        id='C37', cluster='Gql', crate='h-gql', tag=37,
        n={'quick': 2500, 'thorough': 40000},
        theorems=['indexed_answer_sound_partial', 'indexed_answer_sound_refuted', 'indexed_error_only_if_infeasible',
                  'largest_first_answer_sound', 'random_improve_answer_sound', 'nonindexed_error_only_if_infeasible',
                  'topk_dominates', 'topk_perm', 'outcome_spec_partial', 'sel_code_sound'],
        classify=_c37_classes,
        rule='real in-memory on-chain/off-chain databases filled from the generated set of unspent resources (off-chain tables through '
             'the real process_executor_events); the real select_coins_to_spend over the real coins_to_spend_index iterators, and '
             'largest_first / random_improve through a real ReadView. Bounded-exhaustive: every amount tuple over {1,2,5} of length <= 3 '
             '(thorough 4) x target 0..9 (14) x max 0..3 (4) x allow_partial x the three algorithms; random: coins and messages '
             '(retryable or not) of two owners and two assets, equal amounts, zero / u64::MAX amounts, exclusion lists (incl. unknown ids), '
             'targets at total-1/total/total+1, u64::MAX, 2^64+5, u128::MAX, max 0/small/255/65535. The observation carries the stream the '
             'algorithm reads (checked against the model) and the answer; the random draw is not controllable, so the model answer is the '
             'one of an admissible oracle value reproducing the observed answer (all dust counts; the shuffles consistent with it), and '
             'Pcheck (soundness / error only if infeasible) is evaluated on the implementation answer. '
             'non-trivial = distinct input with a non-empty observation',
        assumptions=['resource ids are unique over coins and messages (utxo id = tx id with the rid in the last bytes, output 0; nonce likewise)',
                     'sums of amounts stay below 2^128 (fewer than 2^64 resources)'],
    ),
    'C38': dict(
        id='C38', cluster='Gql', crate='h-gql', tag=38,
        n={'quick': 3000, 'thorough': 60000},
        theorems=['pages_enumerate_once', 'walk_exactly_once', 'walk_code_sound', 'has_more_flag_exact',
                  'request_conforms', 'req_code_sound', 'page_okb_sound', 'rest_spec', 'validation_table',
                  'zero_size_stuck', 'storage_error_swallowed', 'storage_failure_not_masked_refuted', 'ssortedb_sound'],
        classify=_c38_classes,
        rule='bounded-exhaustive through the real (hooked) schema::query_pagination: every collection size 0..7 (thorough 0..9, '
             'plus every subset of {1..8}), every page size 0..8 (10), every cursor position (each key and each gap incl. before the '
             'first / after the last key, and no cursor), both directions, as single requests and as full cursor-following walks; '
             'every presence pattern of (after, before, first, last) with decodable/undecodable cursor strings and counts '
             'i32::MIN, -1, 0, 2, 5, i32::MAX; an injected storage error at every stream position (known-finding class); plus random '
             'collections with keys up to u64::MAX (a tenth unsorted / with duplicate keys: model equality only). '
             'non-trivial = distinct input with a non-empty observation',
        assumptions=['the `entries` callback behaves like the database iterators used by the resolvers: keys strictly increasing, '
                     'iteration starts at the first key not before the start key (start key included)',
                     'error variants are recognised by the fixed message prefixes of schema.rs / async_graphql::connection::query_with',
                     'async_graphql::connection::query_with (argument decoding) is modelled from its source in the vendored crate 7.2.1'],
    ),
}
