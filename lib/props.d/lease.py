"""Lease cluster: C25 (Redis leader lease: replicated sequencers never fork)."""


def _c25_classes(i, o):
    cls = []
    if i[0] == 0:
        cmds = i[1]
        cls.append('node: cmds=%d' % min(len(cmds) // 10 * 10, 80))
        for c in cmds:
            cls.append('node cmd %s' % ['check', 'promote', 'release', 'write', 'latest', 'entries', 'tick', 'trim', 'wipe'][c[0]])
        if isinstance(o, list) and len(o) == 2:
            for c, r in zip(cmds, o[0]):
                if c[0] == 3 and isinstance(r, list) and r and isinstance(r[0], list):
                    rep = r[0]
                    if rep[0] == 2:
                        cls.append('write: written')
                    elif rep[0] == 4:
                        txt = bytes(rep[1]).decode(errors='replace')
                        cls.append('write: ' + txt.split(':')[0] + (' stale' if 'stale' in txt else ''))
                if c[0] == 1 and isinstance(r, list) and r and isinstance(r[0], list):
                    cls.append('promote: ' + ('acquired' if r[0][0] == 1 else 'held'))
        return sorted(set(cls))
    cfg, steps = i[1], i[2]
    cls.append('sys: nodes=%d replicas=%d budget=%d ttl=%d maxlen=%d attempts=%d' % tuple(cfg))
    for s in steps:
        cls.append('sys step %s' % ['round', 'release', 'tick', 'wipe', 'crash', 'held-exec', 'held-drop', 'trim'][s[0]])
        if s[0] in (0, 1):
            fl = [f for n in s[2] for f in n]
            for f in set(fl):
                if f:
                    cls.append('fate %s' % {1: 'dropped', 2: 'held', 3: 'reply lost'}.get(f, f))
    if isinstance(o, list) and len(o) == 2 and isinstance(o[0], list):
        for st in o[0]:
            if isinstance(st, list) and len(st) == 2:
                for d in st[1]:
                    if d[0] == 0:
                        cls.append('leader_state=%s' % {0: 'follower', 1: 'leader', 2: 'unreconciled blocks'}.get(d[1], 'Err class %d' % (d[1] - 10)))
                    elif d[0] == 1:
                        cls.append('publish %s' % ('Ok' if d[2] else 'Err'))
                    elif d[0] == 2:
                        cls.append('release %s' % ('Ok' if d[1] else 'Err'))
                for nd in st[0]:
                    for e in nd:
                        if e[0] == 0 and e[1][0] == 3:
                            rep = e[2]
                            if rep[0] == 2:
                                cls.append('adapter write: written')
                            elif rep[0] == 4:
                                txt = bytes(rep[1]).decode(errors='replace')
                                cls.append('adapter write: ' + txt.split(':')[0] + (' stale' if 'stale' in txt else ''))
        chains = o[1][0]
        if any(len(c) > 0 for c in chains):
            cls.append('some replica committed')
        if len(set(tuple(map(tuple, c)) for c in chains if c)) > 1:
            cls.append('replicas at different heights or blocks')
    return sorted(set(cls))


PROPS = {
    'C25': dict(
        id='C25', cluster='Lease', crate='h-lease', tag=25,
        n={'quick': 150, 'thorough': 4000},
        translators=[['python3', 'translators/lua2coq.py']],
        theorems=['readonly_scripts_leave_node_unchanged', 'epoch_monotone', 'epoch_monotone_run', 'write_requires_owner', 'write_only_appends', 'height_unique_per_node',
                  'write_scan_is_early_stop', 'height_unique_per_node_sorted', 'height_unique_per_node_refuted',
                  'quorums_intersect', 'calculate_quorum_is_intersecting', 'read_entries_sound', 'no_fork_sorted', 'no_fork_refuted', 'lease_checkers_sound'],
        classify=_c25_classes,
        nontrivial=lambda i, o: isinstance(o, list) and len(o) == 2 and o != [-777] and len(o[0]) > 0,
        rule='(a) the six Lua scripts are re-translated on every run (translators/lua2coq.py) and every theorem is '
             're-checked against the translated text; (b) kind 1: the REAL RedisLeaderLeaseAdapter, 2-3 instances in one '
             'process, against 1/2/3/5 in-process RESP servers under schedules of PoA production rounds, releases, '
             'per-request fates (lost / held back and executed later / reply lost), lease expiry per node, node data loss, '
             'replica restarts: every script invocation (node, script, KEYS, ARGV), every reply, every node epoch and every '
             'adapter decision (leader_state variant and blocks, publish Ok/Err, release Ok/Err, commits) must equal what the '
             'Coq transition system computes with the Coq interpreter running the translated Lua; the L1 counter-schedule is '
             'the first case; one such schedule per 25 script-level cases; (c) kind 0: random typed script invocations on one '
             'node (3 owners, epochs/heights around the current ones, ttl 1/50/1000 and clock steps around them, MAXLEN 1..3/100 '
             'with trim choices 0/1/2, data loss), stand-in vs interpreter. non-trivial = distinct input with a non-empty trace',
        assumptions=[
            'no_fork is proved for the runs in which every node stream stays sorted by height, no node loses data and XTRIM never '
            'evicts (no_fork_sorted, hypotheses sorted_run / n < 2q stated in the theorem); for the scripts and adapter as written '
            'no_fork is REFUTED (no_fork_refuted, known finding L1: repair appends an older height after a newer one); the variant '
            'with bounded data loss (disruption budget > 0) and with trimming is not proved',
            'Redis is MODELLED (string keys with expiry against a logical per-node clock, INCR, streams with XADD */XRANGE - +/'
            'XREVRANGE + - [COUNT]/XTRIM MAXLEN ~ with an arbitrary eviction choice, TIME, PEXPIRE, DEL, SET [NX] [PX]); no '
            'redis-server and no Lua interpreter exist in this sandbox: the Rust stand-in that answers the real adapter is '
            'checked against the Coq interpreter of the translated Lua text on every invocation, real Redis/Lua is not',
            'Lua numbers are exact integers in the model (real Lua: doubles; epochs/heights below 2^53); tonumber accepts only '
            '[0-9]+ (the adapter only sends decimal renderings); string comparison with < and arithmetic on numeric strings are '
            'outside the subset (runtime error in the model)',
            'keys are the adapter keys for lease_key = "poa:leader:lock"; promotion round trips take ~0 ms against the lease '
            '(calculate_remaining_validity_millis with elapsed = 0; the generator uses ttl 1000/5000 or 2)',
            'the reaction of the PoA service (release after a failed production, commit order of reconciled blocks, publish '
            'before commit) is replayed by hand in the harness and in the model from service.rs / importer.rs; MainTask itself is '
            'not run; P2P block sync between replicas is not modelled',
            'nondeterminism of the real adapter that the schedule cannot fix (arrival order of write replies, HashMap order on '
            'an epoch tie) is resolved from the observation: the model tries its oracle values and must reproduce the observed step',
            'translators/lua2coq.py is trusted to parse the Lua subset faithfully (it rejects anything outside it)',
        ],
        trusted=['translators/lua2coq.py (Lua subset -> AST)', 'harness/h-lease fake RESP servers and the stand-in node (transport only: '
                 'its replies are compared with the interpreter)'],
        profiles=['dev'],
        level='proof',
        shard=40, workers=4,
        no_shrink=True,
    ),
}
