"""Producer cluster: C30 (DA height selection of the block producer)."""

U64MAX = 18446744073709551615


def _c30_classes(i, o):
    prev, highest, gl, tl, table = i
    cls = []
    if highest < prev:
        cls.append('highest<prev')
    elif highest == prev:
        cls.append('highest=prev')
    else:
        cls.append('gap=%d' % min(highest - prev, 12))
    if isinstance(o, list) and len(o) == 2 and isinstance(o[0], list) and o[0]:
        k = o[0][0]
        cls.append('hook=%s' % {0: 'ok', 1: 'invalid', 2: 'nonew'}.get(k, 'other'))
        if k == 0 and highest > prev:
            cls.append('ok=%s' % ('highest' if o[0][1] == highest else 'cut'))
        if isinstance(o[1], list) and o[1]:
            cls.append('block=%s' % {0: 'ok', 1: 'invalid', 2: 'nonew'}.get(o[1][0], 'other'))
            cls.append('hook%sblock' % ('==' if o[0] == o[1] else '!='))
    if gl == U64MAX:
        cls.append('gas_limit=u64max')
    if tl == 65534:
        cls.append('tx_limit=65534')
    if highest == U64MAX:
        cls.append('highest=u64max')
    if any(e[1] == U64MAX or e[2] == U64MAX for e in table):
        cls.append('value=u64max')
    return cls


PROPS = {
    'C30': dict(
        id='C30', cluster='Producer', crate='h-prod', tag=30,
        n={'quick': 3000, 'thorough': 60000},
        theorems=['da_height_max_prefix', 'da_height_errors_exact', 'new_header_da_height_max_prefix',
                  'within_prefix', 'da_checker_sound'],
        classify=_c30_classes,
        rule='the crate\'s unit-test scenarios; bounded-exhaustive: prev 3, highest 1..=6, three DA blocks with costs/counts '
             'in {0,1,2}, both limits 0..=3; saturation cases (two blocks whose true sum overflows u64, limits u64::MAX-2..MAX, '
             'also at DA heights next to u64::MAX); tx-count sums at 65534 +-1; plus random cases: prev small / 100 / next to '
             'u64::MAX / random, highest behind, equal or ahead by 1..12 (40 thorough), per-block values from profiles '
             '(zeros, small, around 2^16, huge, u64::MAX), absent and duplicate heights, limits at an exact prefix sum -1/0/+1, '
             '0, max. non-trivial = distinct input with a two-result observation',
        assumptions=['relayer port calls succeed (a port error is propagated unchanged by `?`; not modelled)',
                     'the hooked call exposes the private select_new_da_height unchanged; the second observation is the DA height '
                     'of the header that produce_and_execute_block_transactions hands to the executor port (tx limit u16::MAX-1)',
                     'gaps highest-prev are kept small by the generator (the real loop is linear in the gap)'],
        level='proof'),
}
