"""Genesis cluster: C40 resumable import, C39 export -> regenesis (coq/Genesis, harness/h-genesis)."""

_KIND = {0: 'read_error', 1: 'handler_before', 2: 'handler_mid_group', 3: 'handler_after_group'}
_RES = {0: 'ok', 1: 'cancelled', 2: 'error'}


def _c40_classes(i, o):
    cls = ['mode=%s' % ('recording' if i[0] == 0 else 'real_handlers'), 'plans=%d' % min(len(i[3]), 6)]
    if i[2]:
        cls.append('preset_progress')
    if i[0] == 1:
        cls.append('group_size=%d' % i[1][1])
        if i[1][6]:
            cls.append('invalid_coin')
        if any(c[0] > i[1][1] for c in i[1][5]):
            cls.append('contract_state_spans_groups')
    for p in i[3]:
        if p[0]:
            cls.append('cancel')
        if p[1]:
            cls.append('fail=%s' % _KIND.get(p[1][2], '?'))
    if not (isinstance(o, list) and len(o) == 5):
        return cls
    for s in o[0]:
        cls.append('session=%s' % _RES.get(s[0], '?'))
        if not any(e[2] for e in s[1]):
            cls.append('session_without_progress')
    cls.append('final=%s' % _RES.get(o[1][0], '?'))
    n = sum(1 for s in o[0] if any(e[2] for e in s[1]))
    cls.append('sessions_with_progress=%d' % min(n, 4))
    return sorted(set(cls))


_ON_COLS = {0: 'Metadata', 1: 'ContractsRawCode', 2: 'ContractsState', 3: 'ContractsLatestUtxo', 4: 'ContractsAssets',
            5: 'Coins', 6: 'Transactions', 7: 'FuelBlocks', 8: 'FuelBlockMerkleData', 9: 'FuelBlockMerkleMetadata',
            14: 'Messages', 15: 'ProcessedTransactions', 16: 'FuelBlockConsensus', 20: 'Blobs', 21: 'GenesisMetadata'}


def _c39_classes(i, o):
    enc = 'json' if i[0] == 0 else 'parquet'
    cls = ['enc=%s' % enc, '%s:export_group=%d' % (enc, i[1]), 'blocks=%d' % (i[3] + 1)]
    if i[0] == 0:
        cls.append('json:import_group=%d' % i[2])
    t = i[5]
    g = i[2] if i[0] == 0 else i[1]
    for name, tb in zip(('coins', 'msgs', 'blobs', 'contracts'), t[:4]):
        cls.append('%s=%s' % (name, '0' if not tb else ('1..g' if len(tb) <= g else '>g')))
    per = {}
    for k, _ in t[5]:
        per[k >> 32] = per.get(k >> 32, 0) + 1
    if any(v > g for v in per.values()):
        cls.append('contract_state_spans_groups')
    if len(per) < len(t[3]):
        cls.append('contract_without_state')
    if t[7]:
        cls.append('processed_tx_ids')
    if isinstance(o, list) and len(o) == 5:
        cls.append('regenesis=%s' % ('ok' if o[0] else 'failed'))
        for c in o[4]:
            if not c[1] and c[0] < 1000:
                cls.append('%s:column_differs=%s' % (enc, _ON_COLS.get(c[0], c[0])))
    return sorted(set(cls))


PROPS = {
    'C40': dict(
        id='C40', cluster='Genesis', crate='h-genesis', tag=40,
        n={'quick': 400, 'thorough': 6000},
        theorems=['resume_equiv', 'resume_applies_each_group_once', 'resume_needs_memoryless',
                  'c40_checker_sound', 'c40_model_passes'],
        classify=_c40_classes,
        shard=200, workers=16,
        rule='(a) recording handlers (Coins -> Coins, Messages -> Messages reading Coins) over explicit groups with fresh and '
             'colliding keys; (b) the real on-chain/off-chain handlers in run_workers order over generated JSON snapshots '
             '(coins, messages, blobs, contracts with state/balances spanning several groups, group sizes 1,2,3,7, sometimes one '
             'invalid coin: tx-pointer above the genesis height or a duplicate UTXO id). For a few imports of each kind EVERY '
             'single interruption is run: each of {group read error, handler error before writing, after half of the group, '
             'after the whole group} at each group of each table, and cancellation after each number of completed groups; plus '
             'random schedules of 0..6 interrupted sessions (cancellation and/or failure, also unreachable or repeated '
             'positions, sessions without progress), sometimes with preset progress rows (0, len-1, len, usize::MAX). Each '
             'case ends with a run to completion and is compared with the uninterrupted import of a fresh database: table '
             'digests of all on-chain and off-chain columns, committed (task, group) lists, progress rows, results. '
             'non-trivial = distinct case with a non-panic trace',
        assumptions=['theorem hypothesis (validated by the digest comparison, not proved of the Rust handlers): ImportTable::process '
                     'depends only on (group, transaction view), not on handler memory kept across groups',
                     'the migration names (progress rows) of the tasks of one database are pairwise distinct (asserted by the '
                     'harness for the 26 tasks of run_workers); a table has at most usize::MAX groups',
                     'tasks run in place one after the other as TaskManager::run does for tables with fewer than 10 groups; '
                     'the harness replicates that sequencing (and the num_groups == 0 shortcut) of spawn_worker_* around the real '
                     'ImportTask::{new, run}; concurrent spawn_blocking tasks of larger tables are not modelled',
                     'failures are injected by a wrapper around the real handler and around the group iterator; storage-level '
                     'commit failures are not injected (in-memory databases)',
                     'real handlers: the model treats the database as opaque (digests are the oracle of the implementation); '
                     'it predicts results, committed groups and progress rows'],
        profiles=['dev'],
        level='proof'),
    'C39': dict(
        id='C39', cluster='Genesis', crate='h-genesis', tag=39,
        n={'quick': 64, 'thorough': 1500},
        theorems=['concat_chunks', 'chunks_sizes', 'import_independent_of_grouping', 'import_export_id',
                  'import_export_id_json_partial', 'import_export_id_json_refuted', 'codec_roundtrip',
                  'c39_checker_sound', 'c39_model_passes'],
        classify=_c39_classes,
        shard=8, workers=16,
        rule='generated chain states: 1..4 blocks committed one by one into an in-memory CombinedDatabase together with coins, '
             'messages, blobs, contracts (code, latest UTXO, 0..2m state slots and 0..3 balances each, so that the slots of one '
             'contract span several groups), processed transaction ids, off-chain statuses / owned transactions / spent '
             'messages; the real Exporter::write_full_snapshot with group size in {1,2,3,7}, JSON and parquet (zstd level 1), '
             'SnapshotReader::open_w_config with json group size in {1,2,3,7} (the first 32 cases sweep every pair of sizes for '
             'both encodings), SnapshotImporter::import into fresh genesis databases. Compared: the modelled tables as (key '
             'index, tx-pointer / DA height) lists against the model, last block height / DA height read from the snapshot, '
             'and per-column digests (keys and value bytes) before and after. non-trivial = distinct case whose round trip ran',
        assumptions=['the value bytes of the entries and the byte encoders (serde_json, postcard, parquet/zstd) are not modelled: '
                     'the model compares keys and heights of the modelled tables; values are covered by the per-column digest '
                     'equality of the implementation run (codec_roundtrip states what the model needs of an encoder)',
                     'compared by digest: Coins, Messages, Blobs, ContractsRawCode, ContractsLatestUtxo, ContractsState, '
                     'ContractsAssets (both encodings); ProcessedTransactions, FuelBlockMerkleData, FuelBlockMerkleMetadata and the '
                     'off-chain TransactionStatuses, OwnedTransactions, SpentMessages (parquet). Not compared: on-chain FuelBlocks / '
                     'Transactions / SealedBlockConsensus (they move to the off-chain Old* tables by design), Metadata, '
                     'GenesisMetadata, and the off-chain indexes regenerated from coins and messages (OwnedCoins, OwnedMessageIds, '
                     'balances, coins-to-spend): the generated source node has no such indexes to compare with',
                     'the genesis block handed to SnapshotImporter::import is built by the harness the way create_genesis_block '
                     'does (height = last height + 1, DA height and prev_root from the snapshot); the import is observed before the '
                     'genesis block itself is committed',
                     'wf_sdb (theorem hypothesis, guaranteed by the generator): no coin / contract UTXO above the last block, no '
                     'message above the last DA height, code and UTXO rows for the same contracts, slots and balances only for '
                     'contracts with code'],
        profiles=['dev'],
        level='proof'),
}
