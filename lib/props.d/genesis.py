"""Genesis cluster: C40 resumable import, C39 export -> regenesis (coq/Genesis, harness/h-genesis)."""

_KIND = {0: 'read_error', 1: 'handler_before', 2: 'handler_mid_group', 3: 'handler_after_group'}
_RES = {0: 'ok', 1: 'cancelled', 2: 'error'}


def _c40_classes(i, o):
    cls = ['mode=%s' % ('recording' if i[0] == 0 else 'real_handlers'), 'plans=%d' % min(len(i[3]), 6)]
    if i[2]:
        cls.append('preset_progress')
    if i[0] == 1:
        cls.append('group_size=%d' % i[1][1])
        if i[1][6]:
            cls.append('invalid_coin')
        if any(c[0] > i[1][1] for c in i[1][5]):
            cls.append('contract_state_spans_groups')
    for p in i[3]:
        if p[0]:
            cls.append('cancel')
        if p[1]:
            cls.append('fail=%s' % _KIND.get(p[1][2], '?'))
    if not (isinstance(o, list) and len(o) == 5):
        return cls
    for s in o[0]:
        cls.append('session=%s' % _RES.get(s[0], '?'))
        if not any(e[2] for e in s[1]):
            cls.append('session_without_progress')
    cls.append('final=%s' % _RES.get(o[1][0], '?'))
    n = sum(1 for s in o[0] if any(e[2] for e in s[1]))
    cls.append('sessions_with_progress=%d' % min(n, 4))
    return sorted(set(cls))


PROPS = {
    'C40': dict(
        id='C40', cluster='Genesis', crate='h-genesis', tag=40,
        n={'quick': 400, 'thorough': 6000},
        theorems=['resume_equiv', 'resume_applies_each_group_once', 'resume_needs_memoryless',
                  'c40_checker_sound', 'c40_model_passes'],
        classify=_c40_classes,
        shard=200, workers=16,
        rule='(a) recording handlers (Coins -> Coins, Messages -> Messages reading Coins) over explicit groups with fresh and '
             'colliding keys; (b) the real on-chain/off-chain handlers in run_workers order over generated JSON snapshots '
             '(coins, messages, blobs, contracts with state/balances spanning several groups, group sizes 1,2,3,7, sometimes one '
             'invalid coin: tx-pointer above the genesis height or a duplicate UTXO id). For a few imports of each kind EVERY '
             'single interruption is run: each of {group read error, handler error before writing, after half of the group, '
             'after the whole group} at each group of each table, and cancellation after each number of completed groups; plus '
             'random schedules of 0..6 interrupted sessions (cancellation and/or failure, also unreachable or repeated '
             'positions, sessions without progress), sometimes with preset progress rows (0, len-1, len, usize::MAX). Each '
             'case ends with a run to completion and is compared with the uninterrupted import of a fresh database: table '
             'digests of all on-chain and off-chain columns, committed (task, group) lists, progress rows, results. '
             'non-trivial = distinct case with a non-panic trace',
        assumptions=['theorem hypothesis (validated by the digest comparison, not proved of the Rust handlers): ImportTable::process '
                     'depends only on (group, transaction view), not on handler memory kept across groups',
                     'the migration names (progress rows) of the tasks of one database are pairwise distinct (asserted by the '
                     'harness for the 26 tasks of run_workers); a table has at most usize::MAX groups',
                     'tasks run in place one after the other as TaskManager::run does for tables with fewer than 10 groups; '
                     'the harness replicates that sequencing (and the num_groups == 0 shortcut) of spawn_worker_* around the real '
                     'ImportTask::{new, run}; concurrent spawn_blocking tasks of larger tables are not modelled',
                     'failures are injected by a wrapper around the real handler and around the group iterator; storage-level '
                     'commit failures are not injected (in-memory databases)',
                     'real handlers: the model treats the database as opaque (digests are the oracle of the implementation); '
                     'it predicts results, committed groups and progress rows'],
        profiles=['dev'],
        level='proof'),
}
