"""Txn cluster: C10 storage transactions (coq/Txn, harness/h-store)."""

_OPN = {0: 'begin', 1: 'commit', 2: 'drop', 3: 'detach', 4: 'merge', 10: 'exists', 11: 'size', 12: 'get',
        13: 'read_exact', 14: 'read_zerofill', 20: 'put', 21: 'replace', 22: 'write', 23: 'take', 24: 'delete',
        25: 'batch', 30: 'dump'}


def _c10_classes(i, o):
    cls = ['ops=%d' % (10 * min(len(i) // 10, 8))]
    depth = 0
    maxd = 0
    for op, ob in zip(i, o if isinstance(o, list) else []):
        code = op[0]
        name = _OPN.get(code, '?')
        via = op[1] if code >= 10 and code < 30 else 0
        cls.append('op=%s%s' % (name, '/table' if via else ''))
        if code == 0 and ob == [0]:
            depth += 1
            maxd = max(maxd, depth)
        if code in (1, 2, 3) and ob != [-1]:
            depth -= 1
        if code in (1, 4) and isinstance(ob, list) and len(ob) == 2:
            cls.append('%s=%s' % (name, 'ok' if ob[0] == 0 else 'rejected'))
        if code in (13, 14) and isinstance(ob, list) and len(ob) == 3:
            cls.append('%s=%s' % (name, {0: 'ok', 1: 'key_not_found', 2: 'out_of_bounds'}.get(ob[0], '?')))
        if code in (13, 14) and op[4] > 1 << 60:
            cls.append('offset=huge')
        if code in (21, 23) and isinstance(ob, list) and len(ob) == 2:
            cls.append('%s_prev=%s' % (name, 'some' if ob[1] else 'none'))
    cls.append('depth=%d' % maxd)
    return sorted(set(cls))


PROPS = {
    'C10': dict(
        id='C10', cluster='Txn', crate='h-store', tag=10,
        n={'quick': 1500, 'thorough': 40000},
        theorems=['read_your_writes', 'read_exact_cases', 'read_zerofill_cases', 'replace_take_return_view',
                  'writes_update_view', 'commit_applies_net', 'merge_fail_iff_common_key',
                  'siblings_fail_iff_common_key', 'fail_leak_bounded', 'lower_levels_untouched', 'drop_noop',
                  'reachable_wf', 'nested_depth_any', 'trace_checker_sound', 'model_trace_accepted'],
        classify=_c10_classes,
        rule='sweep: value length 0..4 x offset {0..5, usize::MAX-1, usize::MAX} x buffer 0..5 x value living in '
             'base / own change set / parent change set x KeyValue / table API, read_exact and read_zerofill each; '
             'plus random linear programs of 5..45 (thorough 10..80) ops over 3 columns x 6 keys (a third over 2 x 2), '
             'nesting <= 4, policies Fail/Overwrite, begin/commit/drop/into_changes/commit_changes, every '
             'KeyValueInspect/KeyValueMutate/BatchOperations method and the StructuredStorage table API of the plain '
             'table ContractsRawCode, sibling-merge templates, dumps of the change sets. observation = result of every '
             'op (value bytes, sizes, error variant tags, buffers) + final base contents sorted. non-trivial = distinct '
             'program with a non-empty, non-panic trace',
        assumptions=['the iteration order of the std HashMap handed to commit_changes is not determined by the program: '
                     'it is read from the observation of each commit/merge (column order) and checked by the model to be a '
                     'permutation of its own column set; it only influences what a rejected Fail commit leaves behind',
                     'keys are [id; 32] byte strings, so key-id order = BTreeMap byte order',
                     'table API: for the Plain blueprint with Raw codecs every table method is the KeyValue method of '
                     'the same name on the encoded key (checked by running both paths against the same model op)',
                     'usize = u64'],
        profiles=['dev'],
        level='proof'),
}
