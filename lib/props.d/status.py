"""Registry entries of cluster Status (fuel-core-tx-status-manager): C23, C22, C44."""


def _c23_classes(i, o):
    ttl, ntx, ops = i
    cls = ['ops=%d' % min(len(ops), 20), 'ttl=%d' % ttl]
    pubs = [op for op in ops if op[0] == 0]
    if any(op[2] == 0 for op in pubs):
        cls.append('has-submitted')
    if any(op[2] != 0 for op in pubs):
        cls.append('has-prunable')
    # boundary classes of the pruning test `now - past < ttl`: was some queue entry seen with
    # age exactly ttl-1 / ttl / above at a publication?
    now = 0
    stamps = []
    for op in ops:
        if op[0] == 1:
            now += op[1]
        else:
            for t in stamps:
                age = now - t
                if age + 1 == ttl:
                    cls.append('age=ttl-1')
                elif age == ttl:
                    cls.append('age=ttl')
                elif age > ttl:
                    cls.append('age>ttl')
            if op[2] != 0:
                stamps.append(now)
    if isinstance(o, list) and o and isinstance(o[-1], list) and len(o[-1]) == 4:
        if any(len(e[1]) > len(e[2]) for e in o if isinstance(e, list) and len(e) == 4):
            cls.append('queue-has-stale-entries')
        if any(a == [] for a in o[-1][0]):
            cls.append('final-some-unknown')
    return sorted(set(cls))


def _c22_classes(i, o):
    cap, ttl, ops = i
    cls = ['ops=%d' % min(len(ops) // 5 * 5, 60), 'cap=%d' % cap, 'ttl=%s' % ('inf' if ttl > 100000 else ttl)]
    if isinstance(o, list):
        flat = [e for e in o if isinstance(e, list) and e]
        if any(e == [5] for e in flat):
            cls.append('no-permit')
        if any(e == [2] for e in flat):
            cls.append('end-of-stream')
        if any(e == [1] for e in flat):
            cls.append('pending')
        if any(e[0] == 0 and e[1] == [7] for e in flat if len(e) == 2):
            cls.append('failed-marker-delivered')
        if any(e[0] == 0 and isinstance(e[1], list) and len(e[1]) == 2 and e[1][0] in (1, 3, 4, 5)
               for e in flat if len(e) == 2):
            cls.append('final-delivered')
    # longest run of publications for one tx without a read in between (channel capacity 3)
    run = best = 0
    for op in ops:
        if op[0] == 0:
            run += 1
            best = max(best, run)
        elif op[0] == 2:
            run = 0
    cls.append('unread-run=%s' % (best if best < 5 else '5+'))
    if any(op[0] == 3 for op in ops):
        cls.append('has-drop')
    return sorted(set(cls))


def _c44_classes(i, o):
    ops = i[0]
    cls = ['ops=%d' % min(len(ops), 30)]
    clock = 0
    for op in ops:
        if op[0] == 2:
            clock = op[1]
        elif op[0] == 1:
            cls.append('batch:now%sexp' % ('<' if clock < op[1] else '=' if clock == op[1] else '>'))
            if not op[3]:
                cls.append('batch:verifies-under-no-key')
            if op[4][1] >= 2:
                cls.append('batch:sig-malformed(zero/random bytes)')
        elif op[0] == 0:
            cls.append('delegation:%s' % ('sig-ok' if op[3] else 'sig-bad'))
            if op[4][1] >= 2:
                cls.append('delegation:sig-unrecoverable(%s)' % ('zero' if op[4][1] == 2 else 'random'))
            cls.append('delegation:now%sexp' % ('<' if clock < op[1] else '=' if clock == op[1] else '>'))
        elif op[0] == 3:
            cls.append('rotation')
    if isinstance(o, list):
        for op, e in zip(ops, o):
            if op[0] == 1 and isinstance(e, list) and len(e) == 4:
                cls.append('batch:%s' % ('accepted' if e[1] == [1] else 'rejected'))
    return sorted(set(cls))


PROPS = {
    'C23': dict(
        id='C23', cluster='Status', crate='h-status', tag=23,
        n={'quick': 3000, 'thorough': 40000},
        theorems=['status_is_spec', 'status_latest', 'kept_at_least_ttl', 'submitted_kept_until_replaced',
                  'forgotten_after_ttl', 'unpublished_unknown', 'cache_consistent',
                  'c23_checker_sound', 'c23_model_passes'],
        classify=_c23_classes,
        rule='bounded-exhaustive: ttl 2 ms, two transactions, every sequence of length <= 4 (thorough 5) over the alphabet '
             '{publish tx0 Submitted, tx0 Success, tx1 PreConfirmationSuccess, tx0 Failure, advance 1 ms, advance 2 ms}; plus '
             'random histories of 2..16 (40) ops for 1..4 transactions, all seven status kinds, ttl in {0,1,3,5,10,1000} ms and '
             'clock advances at ttl-1 / ttl / ttl+1 / halves. After every op the harness reads status(tx) for every tx and the '
             'whole cache (pruning queue, prunable and non-prunable maps). non-trivial = distinct input with a non-empty trace',
        assumptions=['time is the paused tokio clock in whole milliseconds; Instant arithmetic does not overflow',
                     'publication goes through TxStatusManager::status_update (register_status + subscriber notification); '
                     'the payload of a status (a gas / timestamp / reason field) identifies the publication',
                     'a prunable status is forgotten at the first later register_status call (publication of any transaction) '
                     'that happens when its age is >= ttl, not by a timer'],
    ),
    'C22': dict(
        id='C22', cluster='Status', crate='h-status', tag=22,
        n={'quick': 3000, 'thorough': 40000},
        theorems=['delivered_is_subsequence', 'nothing_after_final', 'drained_gets_all',
                  'c22_checker_sound', 'c22_model_passes'],
        classify=_c22_classes,
        rule='bounded-exhaustive: every sequence of length <= 5 (thorough 6) over {subscribe tx0, publish Submitted, publish '
             'PreConfirmationSuccess, publish Success, poll subscriber 0, drop subscriber 0} with 2 permits; channel-capacity '
             'sweeps (0..6 unread publications with a final status at every position, then reads; overflow followed by reads '
             'and further publications so that the FailedStatus marker is delivered); plus random interleavings of 3..24 (60) '
             'ops: publications of all seven kinds for 1..2 transactions, subscriptions under 1..3 permits, polls, drops, '
             'clock advances around the subscription ttl; a third of the cases have a subscriber that polls until pending '
             'after every publication. non-trivial = distinct input with a non-empty trace',
        assumptions=['tokio::sync::mpsc is modelled as a bounded FIFO of capacity BUFFER_SIZE = 3: try_send answers Closed when the '
                     'receiver was dropped (checked first), Full when 3 messages wait; a dropped sender lets the receiver drain '
                     'the buffer and then see the end of the stream',
                     'schedules = interleavings of the atomic operations publish (TxStatusManager::status_update) / subscribe '
                     '(tx_update_subscribe) / one poll of a TxStatusStream / drop of a stream / clock advance, on a '
                     'current-thread runtime with paused time',
                     'published statuses are one of the seven TransactionStatus variants; the payload identifies the publication',
                     'drained_gets_all holds for a subscriber that has read everything sent so far before each publication, has '
                     'not dropped its stream, and whose subscription is younger than the subscription ttl whenever '
                     'remove_closed_and_expired runs'],
    ),
    'C44': dict(
        id='C44', cluster='Status', crate='h-status', tag=44,
        n={'quick': 2000, 'thorough': 30000},
        theorems=['status_change_requires_delegation', 'all_else_rejected', 'delegated_accepted', 'expired_unusable',
                  'delegation_step', 'registered_iff', 'c44_checker_sound', 'c44_model_passes'],
        classify=_c44_classes,
        rule='bounded-exhaustive: every sequence of length <= 4 (thorough 5) over {clock 19/20/21, valid delegation (exp 20, key 0), '
             'valid delegation (exp 20, key 1), delegation signed by a non-current protocol key, batch for exp 20 signed by key 0, '
             'by key 1}; plus random histories of 2..14 (30) messages: delegations for expirations {10,20,30} signed by the current '
             'or another protocol key, over other content, or carrying an UNRECOVERABLE signature (all-zero bytes / random bytes for '
             'which secp256k1 recovery fails; also directed: such a delegation followed by a batch correctly signed by the delegate it '
             'names, and one trying to overwrite a valid delegation), batches of 1..3 preconfirmations (all three variants, repeated transactions) '
             'signed by any of 3 delegate keys, over other content, or with all-zero / random signature bytes, clock moves to just below / at / just above every expiration (also '
             'backwards), protocol-key rotations. non-trivial = distinct input with a non-empty trace',
        assumptions=['signature checks are oracle inputs: for every message the harness records whether the real secp256k1 recovery '
                     '(against ProtocolPublicKey::latest_address at that moment) / the real ed25519 verification (under each of the '
                     'delegate keys) accepts; the theorems assume nothing about unforgeability',
                     'Tai64::now() is driven through an interposed clock_gettime(CLOCK_REALTIME) inside the harness process; '
                     'the clock may move arbitrarily (also backwards) between messages',
                     'observed: gossip validity reports of the P2P port, status updates on the all-events channel (checked against '
                     'TxStatusManager::status), and the delegate-key map after every message'],
        trusted=['libc symbol interposition of clock_gettime in the h-status binary'],
    ),
}
