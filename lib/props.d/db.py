"""Db cluster: C09 height-linked commits, exact reported height (coq/Db, harness/h-db)."""

_DESC = {0: 'on_chain', 1: 'off_chain', 2: 'relayer', 3: 'gas_price', 4: 'compression'}
_BK = {0: 'memory', 1: 'rocksdb_norewind', 2: 'rocksdb_rewind'}
_TAG = {0: 'ok', 1: 'multiple_heights', 2: 'not_linked', 3: 'height_not_set', 4: 'advance_overflow',
        5: 'backend_conflict', 6: 'refused'}


def _c09_classes(i, o):
    cls = ['desc=%s' % _DESC.get(i[0], '?'), 'backend=%s' % _BK.get(i[1], '?'), 'ops=%d' % min(len(i[2]), 30)]
    if not isinstance(o, list):
        return cls
    for op, ob in zip(i[2], o[1:]):
        if not (isinstance(ob, list) and len(ob) == 3):
            continue
        if op[0] == 0:
            cls.append('commit[%d rows%s%s]=%s' % (min(len(op[1]), 2), '+removals' if op[2] else '',
                                                   '+poison' if op[3] else '', _TAG.get(ob[0], '?')))
        elif op[0] == 1:
            cls.append('rollback=%s' % _TAG.get(ob[0], '?'))
            if ob[0] == 0 and ob[1] != ob[2]:
                cls.append('rollback_of_first_height>0')
        else:
            cls.append('reopen[%s]' % ('some' if ob[1] else 'none'))
    return sorted(set(cls))


PROPS = {
    'C09': dict(
        id='C09', cluster='Db', crate='h-db', tag=9,
        n={'quick': 600, 'thorough': 8000},
        theorems=['step_spec', 'accepted_iff_linked', 'persisted_height_exact', 'reported_height_exact_partial',
                  'reported_height_exact_no_rewind', 'reported_height_exact_refuted', 'deviation_shape',
                  'trace_checker_sound', 'model_trace_accepted_partial'],
        classify=_c09_classes,
        shard=24, workers=16,
        rule='directed: for each of the 5 descriptions, every first height in {none,0,1,7,max-1,max} x every second change '
             'set in {no height, same, +1, +2, -1, 0, max, two heights, same height twice} x tails {nothing, reopen, '
             'rollback+reopen, rollback / recommit with a removal row / rollback twice / height-less commit}, in memory '
             '(thorough: also both RocksDB policies; quick: RewindFullRange rollback tails for on-chain and relayer); plus random '
             'histories of 2..14 (thorough 3..30) ops: linked, repeated, skipped, stale, far, 0/1/2 rows, removal rows, '
             'metadata-key poison (backend refusal), rollbacks, reopens, heights at the u32/u64 maximum; 15% (thorough 30%) of the '
             'random histories on RocksDB temp dirs under /verif/target/tmp (deleted per case). observation = result '
             'variant tag + HistoricalView::latest_height + latest_height_from_metadata after every op. non-trivial = '
             'distinct history with a non-panic trace',
        assumptions=['the Database height bookkeeping is modelled; the backends are abstracted to: commit succeeds unless '
                     'the change set list touches one (column,key) twice (MemoryStore, RocksDb conflict finder; not the '
                     'flattening historical path), RewindFullRange keeps one rollback record per committed height that '
                     'restores the metadata, MemoryStore/NoRewind refuse rollback',
                     'the "poison" write puts back the metadata bytes that are already there, so that the non-atomic '
                     'MemoryStore commit does not change the persisted height by itself',
                     'in-memory reopen = Database::new over the same Arc<MemoryStore>; RocksDB reopen = drop + open_rocksdb '
                     'on the same directory'],
        profiles=['dev'],
        level='proof'),
}
