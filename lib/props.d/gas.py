"""Registry entries of the Gas cluster (C34, C35)."""


def _c34_classes(i, o):
    cfg, tracker, blocks, ops = i
    cls = ['ops=%s' % ('1-5' if len(ops) <= 5 else '6-20' if len(ops) <= 20 else '21-99' if len(ops) < 100 else '100+')]
    cls.append('factor=%s' % ('1' if cfg[6] == 1 else 'max' if cfg[6] >= 2 ** 64 - 2 else 'huge' if cfg[6] >= 2 ** 32 else 'small'))
    for name, pct in (('exec_pct', cfg[2]), ('da_pct', cfg[9])):
        cls.append('%s=%s' % (name, '0' if pct == 0 else '<100' if pct < 100 else '100' if pct == 100 else '>100'))
    if cfg[7] > cfg[8]:
        cls.append('min_da>max_da')
    if cfg[3] >= 2 ** 32 - 8:
        cls.append('height~u32max')
    if isinstance(o, list) and len(o) == 2 and isinstance(o[1], list):
        for op, st in zip(ops, o[1]):
            kind = 'l2' if op[0] == 0 else 'da'
            cls.append('%s:res=%d' % (kind, st[0]))
            if op[0] == 0 and op[3] == 0:
                cls.append('l2:capacity=0')
        # clamping classes on accepted L2 updates
        prev = o[0][0]
        for op, st in zip(ops, o[1]):
            cur = st[1]
            if st[0] == 0 and op[0] == 0:
                f = cfg[6]
                mn = min(cfg[1] * f, 2 ** 64 - 1)
                if cur[0] == mn:
                    cls.append('exec=min')
                if cur[0] == 2 ** 64 - 1:
                    cls.append('exec=u64max')
                lo = min(cfg[7] * f, 2 ** 64 - 1)
                hi = min(max(cfg[7], cfg[8]) * f, 2 ** 64 - 1)
                if cur[5] == lo:
                    cls.append('da=min')
                elif cur[5] == hi:
                    cls.append('da=max')
                elif cur[5] > prev[5]:
                    cls.append('da:up')
                elif cur[5] < prev[5]:
                    cls.append('da:down')
                else:
                    cls.append('da:same')
                cls.append('exec:up' if cur[0] > prev[0] else 'exec:down' if cur[0] < prev[0] else 'exec:same')
            prev = cur
    return cls


def _c35_classes(i, o):
    price, fh, pct, hs, da_price, da_pct = i
    cls = []
    cls.append('price=%s' % ('0' if price == 0 else '<2^47' if price < 2 ** 47 else '<2^53' if price < 2 ** 53 else '>=2^53'))
    cls.append('pct=%s' % ('<25' if pct < 25 else '25' if pct == 25 else '26-300' if pct <= 300 else 'huge'))
    if isinstance(o, list):
        for h, e in zip(hs, o):
            b = max(0, h - fh)
            cls.append('blocks=%s' % ('0' if b == 0 else '<25' if b < 25 else '25' if b == 25 else '26-300' if b <= 300 else '>300'))
            if isinstance(e, list) and len(e) == 5:
                if e[0] == -777 or e[2] == -777:
                    cls.append('panic')
                elif e[0] == 2 ** 64 - 1:
                    cls.append('saturated')
                if b <= 300 and e[0] >= 0 and 2 ** 47 * 100 ** b <= price * (100 + pct) ** b:
                    cls.append('known-class-horizon')
                    if e[0] * 100 ** b < price * (100 + pct) ** b:
                        cls.append('estimate<real-compounding')
    return cls


PROPS = {
    'C34': dict(
        id='C34', cluster='Gas', crate='h-gas', tag=34,
        n={'quick': 1500, 'thorough': 6000},
        theorems=['gas_bounds_all_sequences', 'gas_trace_checker_sound', 'gas_wf_preserved',
                  'gas_invariant_all_sequences', 'exec_ge_min_scaled', 'da_within_scaled_bounds',
                  'da_within_scaled_bounds_record', 'exec_step_bounded', 'da_step_bounded',
                  'da_record_step_bounded', 'da_record_error_keeps_prices', 'step_bounded_under_invariant',
                  'skipped_height_rejected_unchanged', 'accepted_iff_next_height',
                  'repeated_height_accepted_at_u32max', 'descaled_exec_ge_min', 'descaled_da_within'],
        classify=_c34_classes,
        translators=[['python3', 'translators/exptable2coq.py']],
        profiles=['dev', 'release'],
        rule='boundary sweep: one L2 block + one DA record for every price in {0,1,49..200,u64::MAX/2..u64::MAX} x '
             'percent {0,1,50,99,100,101,200,65535} x factor {1,100,u64::MAX} x full/empty block x (min,max) incl. min>max; '
             'plus random sequences of 1..300 (thorough 1000) updates (3/4 L2 blocks incl. skipped / repeated / random heights, '
             'capacity 0/1/huge, used >= capacity, huge fees; 1/4 DA records incl. empty ranges, 0 recorded bytes, ranges at '
             'u32::MAX) from arbitrary public-field states (a third with realistic configurations so that the PID part moves '
             'the DA price both ways). observation = all 24 numeric fields, the unrecorded-blocks map and '
             'algorithm().calculate() after every update + the error variant. non-trivial = distinct input with a non-panic trace',
        assumptions=['theorems assume wf: prices in u64, percentages in u16, 1 <= gas_price_factor <= u64::MAX (the Rust types)',
                     'capacity 0 is rejected by the caller (v1/service.rs validate_block_gas_capacity) and never reaches the updater',
                     'the DA percentage bound is per update_da_gas_price call: an L2 block processed together with k DA records '
                     'may move the DA price k+1 times',
                     'at l2_block_height = u32::MAX the same height is accepted again (saturating_add); stated as a theorem',
                     'update_unrecorded_block_bytes is modelled by a filter over the map instead of a loop over the range '
                     '(same result; generated ranges are at most a few dozen heights wide)'],
        level='proof'),
    'C35': dict(
        id='C35', cluster='Gas', crate='h-gas', tag=35,
        n={'quick': 1500, 'thorough': 30000},
        theorems=['table_lookup_in_bounds', 'estimate_total', 'worst_case_estimate_total',
                  'round_to_nearest_even_monotone', 'estimate_monotone_in_horizon_table',
                  'estimate_monotone_in_horizon_libm_partial', 'estimate_bounds_compounded_refuted',
                  'estimate_bounds_compounded_partial', 'estimates_checker_sound',
                  'float_model_agrees_with_flocq'],
        classify=_c35_classes,
        translators=[['python3', 'translators/exptable2coq.py']],
        profiles=['dev', 'release'],
        panic_is_failure=True,
        trusted=['translators/exptable2coq.py (syntactic: table literals -> binary64 bit patterns via Python struct, '
                 'dimensions, guard operators, rounding constants)',
                 'libm exp/ln are not modelled: the multiplier of the non-table branch is taken from the '
                 'implementation run (same expression evaluated by the harness binary) and only its consequences are checked'],
        rule='exhaustive over the table region and its rim: every percentage 0..=27 x every horizon 0..=27 (all 28 horizons '
             'of one (price, percentage) in one case, so monotonicity is checked across the table/libm seam) for boundary '
             'prices {0,1,2,3,99..101,1e9,2^50,2^53-1..2^53+1,1e16,cutoff,cutoff+1,1e17,2^62,2^63+1025,u64::MAX/175,'
             'u64::MAX-1,u64::MAX} (quick: every second price), the DA component with the mirrored percentage; plus random '
             'cases: prices of every magnitude, percentages 0..27 / up to 300 / 65535, 65536, 2^32, 2^53, u64::MAX, 1..8 '
             'horizons per case below / at / above the best height, around 25, up to 1e5, u32::MAX. Every call is guarded '
             'separately (a panic is the observation -777). Pcheck = no panic, estimates non-decreasing in the horizon '
             '(exec, DA and worst_case), and estimate >= the price compounded block by block with integer rounding for '
             'horizons <= 300. non-trivial = distinct input with a non-panic observation',
        assumptions=['u64 price, u32 heights, u64 percentage (u16 for worst_case)',
                     'the compounded-price bound is evaluated by Pcheck for horizons <= 300 blocks only (compounding is '
                     'iterated block by block)',
                     'bound theorem is _partial: table branch and price*(1+pct/100)^blocks < 2^47; the complement is the '
                     'known finding K-C35-rounding-shortfall (witness theorem estimate_bounds_compounded_refuted)',
                     'monotonicity in the libm branch and across the table/libm seam is relative to the multipliers libm '
                     'returned (checked on the observed results, proved only relative to ordered multipliers)',
                     'binary64 is modelled exactly by integers in units of 2^-1074 with round-to-nearest-even; the model is '
                     'cross-checked against Flocq binary64 by vm_compute (float_model_agrees_with_flocq), not proved equal'],
        level='proof'),
}
