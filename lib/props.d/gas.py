"""Registry entries of the Gas cluster (C34, C35)."""


def _c34_classes(i, o):
    cfg, tracker, blocks, ops = i
    cls = ['ops=%s' % ('1-5' if len(ops) <= 5 else '6-20' if len(ops) <= 20 else '21-99' if len(ops) < 100 else '100+')]
    cls.append('factor=%s' % ('1' if cfg[6] == 1 else 'max' if cfg[6] >= 2 ** 64 - 2 else 'huge' if cfg[6] >= 2 ** 32 else 'small'))
    for name, pct in (('exec_pct', cfg[2]), ('da_pct', cfg[9])):
        cls.append('%s=%s' % (name, '0' if pct == 0 else '<100' if pct < 100 else '100' if pct == 100 else '>100'))
    if cfg[7] > cfg[8]:
        cls.append('min_da>max_da')
    if cfg[3] >= 2 ** 32 - 8:
        cls.append('height~u32max')
    if isinstance(o, list) and len(o) == 2 and isinstance(o[1], list):
        for op, st in zip(ops, o[1]):
            kind = 'l2' if op[0] == 0 else 'da'
            cls.append('%s:res=%d' % (kind, st[0]))
            if op[0] == 0 and op[3] == 0:
                cls.append('l2:capacity=0')
        # clamping classes on accepted L2 updates
        prev = o[0][0]
        for op, st in zip(ops, o[1]):
            cur = st[1]
            if st[0] == 0 and op[0] == 0:
                f = cfg[6]
                mn = min(cfg[1] * f, 2 ** 64 - 1)
                if cur[0] == mn:
                    cls.append('exec=min')
                if cur[0] == 2 ** 64 - 1:
                    cls.append('exec=u64max')
                lo = min(cfg[7] * f, 2 ** 64 - 1)
                hi = min(max(cfg[7], cfg[8]) * f, 2 ** 64 - 1)
                if cur[5] == lo:
                    cls.append('da=min')
                elif cur[5] == hi:
                    cls.append('da=max')
                elif cur[5] > prev[5]:
                    cls.append('da:up')
                elif cur[5] < prev[5]:
                    cls.append('da:down')
                else:
                    cls.append('da:same')
                cls.append('exec:up' if cur[0] > prev[0] else 'exec:down' if cur[0] < prev[0] else 'exec:same')
            prev = cur
    return cls


PROPS = {
    'C34': dict(
        id='C34', cluster='Gas', crate='h-gas', tag=34,
        n={'quick': 1500, 'thorough': 40000},
        theorems=['gas_bounds_all_sequences', 'gas_trace_checker_sound', 'gas_wf_preserved',
                  'gas_invariant_all_sequences', 'exec_ge_min_scaled', 'da_within_scaled_bounds',
                  'da_within_scaled_bounds_record', 'exec_step_bounded', 'da_step_bounded',
                  'da_record_step_bounded', 'da_record_error_keeps_prices', 'step_bounded_under_invariant',
                  'skipped_height_rejected_unchanged', 'accepted_iff_next_height',
                  'repeated_height_accepted_at_u32max', 'descaled_exec_ge_min', 'descaled_da_within'],
        classify=_c34_classes,
        translators=[['python3', 'translators/exptable2coq.py']],
        profiles=['dev', 'release'],
        rule='boundary sweep: one L2 block + one DA record for every price in {0,1,49..200,u64::MAX/2..u64::MAX} x '
             'percent {0,1,50,99,100,101,200,65535} x factor {1,100,u64::MAX} x full/empty block x (min,max) incl. min>max; '
             'plus random sequences of 1..300 (thorough 1000) updates (3/4 L2 blocks incl. skipped / repeated / random heights, '
             'capacity 0/1/huge, used >= capacity, huge fees; 1/4 DA records incl. empty ranges, 0 recorded bytes, ranges at '
             'u32::MAX) from arbitrary public-field states (a third with realistic configurations so that the PID part moves '
             'the DA price both ways). observation = all 24 numeric fields, the unrecorded-blocks map and '
             'algorithm().calculate() after every update + the error variant. non-trivial = distinct input with a non-panic trace',
        assumptions=['theorems assume wf: prices in u64, percentages in u16, 1 <= gas_price_factor <= u64::MAX (the Rust types)',
                     'capacity 0 is rejected by the caller (v1/service.rs validate_block_gas_capacity) and never reaches the updater',
                     'the DA percentage bound is per update_da_gas_price call: an L2 block processed together with k DA records '
                     'may move the DA price k+1 times',
                     'at l2_block_height = u32::MAX the same height is accepted again (saturating_add); stated as a theorem',
                     'update_unrecorded_block_bytes is modelled by a filter over the map instead of a loop over the range '
                     '(same result; generated ranges are at most a few dozen heights wide)'],
        level='proof'),
    'C35': dict(
        id='C35', cluster='Gas', crate='h-gas', tag=35,
        n={'quick': 1500, 'thorough': 30000},
        theorems=[],
        translators=[['python3', 'translators/exptable2coq.py']],
        profiles=['dev', 'release'],
        panic_is_failure=True,
        level='proof (partial)'),
}
