def _c15_classes(i, o):
    cls = ['cfg=%s' % ('poa' if i[2][0] == 0 else 'poav2_%d' % len(i[2][2]))]
    if isinstance(o, list):
        for b in o:
            if isinstance(b, list) and len(b) == 4:
                cls.append('fields=%d' % b[1])
                cls.append('consensus=%d' % b[2])
    return cls


PROPS = {
    'C15': dict(
        id='C15', crosscheck_n=1, cluster='Consensus', crate='h-consensus', tag=15,
        n={'quick': 96, 'thorough': 480}, shard=6, profiles=['release'],
        theorems=['accept_iff_rules', 'consensus_iff_key', 'header_binding', 'txns_root_binding', 'block_binding',
                  'pair_checker_sound'],
        classify=_c15_classes,
        rule='each case = configuration (PoA key or PoAV2 key schedule over heights 1..6), parent (root, DA height, time; sometimes '
             'missing), one block produced like the executor does (0..4 transactions from a pool of 5 scripts, mostly valid, sometimes '
             'zero height / stale root / lower DA height or time), signed mostly by the right key, plus 24 (thorough 40) single mutations '
             'of it: every header field, transaction insert/remove/swap/replace, signer change, tampered signature, genesis kind, each '
             'with or without the attacker recomputing the dependent hashes and re-signing. Observed per block: id, field-check '
             'result variant, consensus verdict, try_from_executed. non-trivial = distinct case with a non-empty observation',
        assumptions=['signature recovery is an oracle: a signature made over id X by key k recovers to k on X and to no configured key on any other message',
                     'binding theorems assume an ideal hash (injective, 32-byte output); SHA-256 is computed concretely for the correspondence',
                     'release build: in debug builds BlockHeaderV1::hash debug_asserts the application hash, so id() of a tampered header panics there',
                     'headers reach the verifier through a serde round trip (no cached id), as from the network'],
        trusted=['coq/Common/Sha256.v executable SHA-256 (NIST vectors by vm_compute; differential vs the real block ids on every case)'],
    ),
}
