def _c24_classes(i, o):
    cls = ['trigger=' + {0: 'never', 1: 'instant', 2: 'interval', 3: 'open'}.get(i[0][0], '?'), 'ops=%d' % min(len(i[3]), 30)]
    for op in i[3]:
        k = op[0]
        cls.append('op=' + {0: 'tick', 1: 'manual', 2: 'sync_update', 3: 'db_import', 4: 'advance'}.get(k, '?'))
        if k == 0:
            cls.append('leader=' + {0: 'error', 1: 'follower', 2: 'leader', 3: 'unreconciled'}.get(op[3][0], '?'))
        if k in (0, 1) and op[-1]:
            cls.append('fail_stage=%d' % op[-1][1])
    if isinstance(o, list):
        for ob in o:
            if isinstance(ob, list) and len(ob) == 3:
                for e in ob[2]:
                    cls.append('call=' + {0: 'leader_state', 1: 'produce', 2: 'seal', 3: 'commit_result', 4: 'execute_and_commit', 5: 'release'}.get(e[0], '?'))
    return cls


PROPS = {
    'C24': dict(
        id='C24', cluster='PoA', crate='h-poa', tag=24,
        n={'quick': 1500, 'thorough': 20000}, shard=100,
        theorems=['requests_next_height', 'produce_block_contract', 'interval_deadline', 'block_time_vs_db_partial',
                  'resync_keeps_timestamp', 'block_time_vs_db_refuted', 'exec_after_failed_import_refuted'],
        classify=_c24_classes,
        level='proof (partial)',
        rule='random schedules of 1..16 (thorough 30) operations on the real MainTask (mock ports, paused tokio clock): iterations of the real run '
             'loop with a scripted leader state (error / follower / leader / unreconciled batch given relative to the asked height, with per-block '
             'import outcome, stale entries and gaps), manual production (start time given or derived, 0..3 blocks or one block with transactions), '
             'sync-task updates and direct database imports at heights relative to last_height (below, equal, +1, +2), clock advances of '
             '1/500/999/1000/1001/2500/10000 ms, wall clock mostly advancing (sometimes going back), signer unavailable, producer / seal / commit '
             'failure of the k-th production, all four triggers (Interval 1/2/3/10 s, Open 1/2/5 s), timestamps next to u64::MAX in 4% of the cases. '
             'Observed per operation: result, (last_height, last_timestamp, last_block_created, Instant::now) and the ordered port-call log with '
             'heights, times, deadline and call instant. non-trivial = distinct schedule with a non-empty observation',
        assumptions=['the sync task stays Synced on the initial header (no network block stream in the harness): ensure_synced is a no-op; '
                     'sync-task updates are injected through update_last_block_values',
                     'no predefined blocks; the producer returns within production_timeout',
                     'heights stay below u32::MAX (next_height panics there)',
                     'Pcheck (op_okb) is a decidable conjunction of local trace predicates (seal order, height/time chains, deadline, no advance '
                     'without a commit); its declarative reading is not proved separately in this round'],
    ),
}
