def _c24_classes(i, o):
    cls = ['trigger=' + {0: 'never', 1: 'instant', 2: 'interval', 3: 'open'}.get(i[0][0], '?'), 'ops=%d' % min(len(i[4]), 30),
           'sync_config=' + ('always_synced' if i[3] == [0, 0] else ('timer_only' if i[3][0] == 0 else ('peers_no_timer' if i[3][1] == 0 else 'peers_and_timer')))]
    for op in i[4]:
        k = op[0]
        cls.append('op=' + {0: 'tick', 1: 'manual', 2: 'direct_update', 3: 'db_change', 4: 'advance', 5: 'peers', 6: 'p2p_import'}.get(k, '?'))
        if k == 0:
            cls.append('leader=' + {0: 'error', 1: 'follower', 2: 'leader', 3: 'unreconciled'}.get(op[3][0], '?'))
            if op[5]:
                cls.append('import_during_iteration')
        if k in (0, 1) and op[4 if k == 0 else 5]:
            cls.append('fail_stage=%d' % op[4 if k == 0 else 5][1])
    if isinstance(o, list):
        for ob in o:
            if isinstance(ob, list) and len(ob) == 4:
                if isinstance(ob[0], list) and len(ob[0]) == 4:
                    cls.append('ensure_synced=' + {0: 'passed', 1: 'blocked'}.get(ob[0][0], '?'))
                    cls.append('run=' + {0: 'continue', 1: 'error_continue', 2: 'stop', 3: 'blocked'}.get(ob[0][3][0] if ob[0][3] else -1, '?'))
                cls.append('sync=' + ('synced' if ob[2] else 'not_synced'))
                for e in ob[3]:
                    cls.append('call=' + {0: 'leader_state', 1: 'produce', 2: 'seal', 3: 'commit_result', 4: 'execute_and_commit', 5: 'release',
                                          6: 'announced', 7: 'p2p'}.get(e[0], '?'))
    return cls


PROPS = {
    'C24': dict(
        id='C24', cluster='PoA', crate='h-poa', tag=24,
        n={'quick': 1500, 'thorough': 20000}, shard=100,
        theorems=['requests_next_height', 'produce_block_contract', 'interval_deadline', 'parse_flatten_inverse', 'op_okb_sound',
                  'step_refines', 'step_passes', 'predefined_block_passes', 'fstep_refines', 'frun_passes', 'produces_only_when_synced',
                  'sync_published_iff_synced', 'sync_invb_meaning', 'block_time_vs_db_partial', 'resync_keeps_timestamp',
                  'block_time_vs_db_refuted', 'a1_during_run_refuted', 'exec_after_failed_import_refuted', 'no_timer_never_synced'],
        classify=_c24_classes,
        level='proof',
        rule='random schedules of 1..16 (thorough 30) operations on the real MainTask and its real SyncTask (mock ports, paused tokio clock, '
             'min_connected_reserved_peers 0..2, time_until_synced 0/700/1300/2300 ms): ensure_synced followed by an iteration of the real run loop '
             '(both abandoned after 100 s of virtual time when they do not return) with a scripted leader state (error / follower / leader / '
             'unreconciled batch given relative to the asked height, with per-block import outcome, stale entries and gaps) and optionally a block '
             'imported by another path right before the database height is read; manual production (start time given or derived, 0..3 blocks or one '
             'block with transactions); reserved-peer counts 0..3; blocks imported by another path at heights relative to last_height (below, equal, '
             '+1, +2), announced on the importer block stream like the real importer does (so are the blocks committed by the task, as local, and the '
             'reconciliation imports, as network); silent database changes; direct update_last_block_values; clock advances of '
             '1/500/999/1000/1001/2500/10000 ms; wall clock mostly advancing (sometimes going back); signer unavailable; producer / seal / commit '
             'failure of the k-th production; all four triggers (Interval 1/2/3/10 s, Open 1/2/5 s); timestamps next to u64::MAX in 4% of the cases. '
             'Observed per operation: result (for a tick: outcome of ensure_synced, state and published sync state at that point, outcome of the '
             'iteration), (last_height, last_timestamp, last_block_created, Instant::now, database), the state published by the sync task, and the '
             'ordered log of port calls and block-stream announcements with heights, times, deadline and instant. '
             'non-trivial = distinct schedule with a non-empty observation',
        assumptions=['time_until_synced values are chosen so that a sync timer tick never falls on an instant at which the main task wakes up '
                     '(the order in which two tasks woken at the same instant run is the scheduler\'s choice and is not modelled)',
                     'announcements are handled by the sync task when the main task next yields to let the clock advance (or at the end of the '
                     'operation); the main task yields only on timers',
                     'manual production is driven through the hook, not through the request channel (no ensure_synced before it)',
                     'predefined blocks have times not below last_timestamp (produce_predefined_block does not check it)',
                     'heights stay below u32::MAX (next_height panics there)'],
    ),
}
