"""Compress cluster: C33 DA-compression registry round trip (coq/Compress, harness/h-compress)."""

_KS = 16777215


def _c33_classes(i, o):
    r, nanos, ops = i
    cls = ['retention=%d' % r, 'blocks=%d' % min(sum(1 for op in ops if op[0] == 0), 12)]
    if nanos:
        cls.append('retention_nanos')
    if any(op[0] == 1 for op in ops):
        cls.append('cursor_preset')
    if any(op[0] == 1 and op[2] >= _KS - 3 for op in ops):
        cls.append('cursor_near_wrap')
    prev_t = None
    for op in ops:
        if op[0] != 0:
            continue
        t = op[2]
        if prev_t is not None:
            d = t - prev_t
            if d < 0:
                cls.append('dt<0')
            elif d == 0:
                cls.append('dt=0')
            elif d < r:
                cls.append('dt<r')
            elif d == r:
                cls.append('dt=r')
            elif d == r + 1:
                cls.append('dt=r+1')
            else:
                cls.append('dt>r+1')
        prev_t = t if prev_t is None else max(prev_t, t)
        if len(op[3]) >= 8:
            cls.append('big_block')
    if isinstance(o, list):
        seen_vals = [dict() for _ in range(5)]      # value -> key it was last registered under
        live = [dict() for _ in range(5)]           # key -> value
        for ob in o:
            if not isinstance(ob, list) or not ob:
                continue
            if ob[0] == 1:
                cls.append('compress_refused')
            if ob[0] != 0 or len(ob) != 8:
                continue
            nreg = sum(len(x) for x in ob[2])
            cls.append('new_keys=%s' % ('0' if nreg == 0 else '1-3' if nreg <= 3 else '4-19' if nreg < 20 else '20+'))
            keys = [k for tx in ob[1] for k in tx]
            if any(k[1] == _KS for k in keys):
                cls.append('default_value')
            regd = [set(kv[0] for kv in x) for x in ob[2]]
            if any(k[1] != _KS and k[1] not in regd[k[0]] for k in keys):
                cls.append('key_reused')
            for ks in range(5):
                ks_keys = [kv[0] for kv in ob[2][ks]]
                if ks_keys and max(ks_keys) >= _KS - 3 and min(ks_keys) <= 3:
                    cls.append('wrap_inside_block')
                for k, v in ob[2][ks]:
                    if k in live[ks]:
                        cls.append('overwrite_same_value' if live[ks][k] == v else 'key_overwritten')
                    if v in seen_vals[ks]:
                        cls.append('value_reregistered')
                    live[ks][k] = v
                    seen_vals[ks][v] = k
            if ob[3] != 0:
                cls.append('decompress_failed')
    return sorted(set(cls))


PROPS = {
    'C33': dict(
        id='C33', cluster='Compress', crate='h-compress', tag=33,
        n={'quick': 400, 'thorough': 6000},
        theorems=['accessible_at_registration'],
        classify=_c33_classes,
        rule='TODO',
        assumptions=['TODO'],
        profiles=['dev'],
        level='proof'),
}
