"""Compress cluster: C33 DA-compression registry round trip (coq/Compress, harness/h-compress)."""

_KS = 16777215


def _c33_classes(i, o):
    r, nanos, ops = i
    cls = ['retention=%d' % r, 'blocks=%d' % min(sum(1 for op in ops if op[0] == 0), 12)]
    if nanos:
        cls.append('retention_nanos')
    if any(op[0] == 1 for op in ops):
        cls.append('cursor_preset')
    if any(op[0] == 1 and op[2] >= _KS - 3 for op in ops):
        cls.append('cursor_near_wrap')
    if any(op[0] == 0 and (any(len(tx) > 3 and tx[3] != 0 for tx in op[3]) or (len(op[4]) > 2 and op[4][2] != 0))
           for op in ops):
        cls.append('executed_form(malleable fields set)')
    prev_t = None
    for op in ops:
        if op[0] != 0:
            continue
        t = op[2]
        if prev_t is not None:
            d = t - prev_t
            if d < 0:
                cls.append('dt<0')
            elif d == 0:
                cls.append('dt=0')
            elif d < r:
                cls.append('dt<r')
            elif d == r:
                cls.append('dt=r')
            elif d == r + 1:
                cls.append('dt=r+1')
            else:
                cls.append('dt>r+1')
        prev_t = t if prev_t is None else max(prev_t, t)
        if len(op[3]) >= 8:
            cls.append('big_block')
    if isinstance(o, list):
        seen_vals = [dict() for _ in range(5)]      # value -> key it was last registered under
        live = [dict() for _ in range(5)]           # key -> value
        for ob in o:
            if not isinstance(ob, list) or not ob:
                continue
            if ob[0] == 1:
                cls.append('compress_refused')
            if ob[0] != 0 or len(ob) != 9:
                continue
            if ob[5] == 0 and ob[6] == 1:
                cls.append('same_ids_but_not_equal')
            nreg = sum(len(x) for x in ob[2])
            cls.append('new_keys=%s' % ('0' if nreg == 0 else '1-3' if nreg <= 3 else '4-19' if nreg < 20 else '20+'))
            keys = [k for tx in ob[1] for k in tx]
            if any(k[1] == _KS for k in keys):
                cls.append('default_value')
            regd = [set(kv[0] for kv in x) for x in ob[2]]
            if any(k[1] != _KS and k[1] not in regd[k[0]] for k in keys):
                cls.append('key_reused')
            for ks in range(5):
                ks_keys = [kv[0] for kv in ob[2][ks]]
                if ks_keys and max(ks_keys) >= _KS - 3 and min(ks_keys) <= 3:
                    cls.append('wrap_inside_block')
                for k, v in ob[2][ks]:
                    if k in live[ks]:
                        cls.append('overwrite_same_value' if live[ks][k] == v else 'key_overwritten')
                    if v in seen_vals[ks]:
                        cls.append('value_reregistered')
                    live[ks][k] = v
                    seen_vals[ks][v] = k
            if ob[3] != 0:
                cls.append('decompress_failed')
    return sorted(set(cls))


PROPS = {
    'C33': dict(
        id='C33', cluster='Compress', crate='h-compress', tag=33,
        n={'quick': 400, 'thorough': 4000}, shard=100,
        theorems=['roundtrip_history_partial', 'roundtrip_history_refuted', 'roundtrip_history_up_to_malleable',
                  'roundtrip_from_empty', 'roundtrip_history_any', 'roundtrip_one_block', 'handed_out_key_decodes',
                  'compress_step_invariant', 'next_key_terminates', 'next_key_fresh', 'next_key_fuel_is_adequate',
                  'compress_never_refused', 'replay_core_sound', 'replay_checker_sound', 'model_trace_core_accepted',
                  'model_trace_accepted', 'empty_registry_wf'],
        classify=_c33_classes,
        rule='thorough tier only: bounded-exhaustive family of 2250 three-block histories over one keyspace (5 address pairs per block, time deltas {0,r,r+1}^2, cursor put back onto live keys or not). Both tiers: 7 directed histories (wrap-around inside one block, cursor put back onto live keys, expiry without refresh on reuse, '
             'an expired value moving to a new key while its old key is overwritten in the same block, a block older than the '
             'registry, retention 0, default values only) plus random histories of 2..9 (thorough 2..16) real blocks over a pool of '
             '1..4 addresses / asset ids / contract ids / scripts / predicates per keyspace (plus the default value and occasional '
             'fresh values), script transactions with contract / message-predicate / coin-predicate / signed-coin inputs and coin / '
             'change / contract-created / variable / contract outputs and the mint transaction, block time deltas from '
             '{0, 1, r-1, r, r+1, 2r+1} for retention r in {0,1,3,10,50} s (with and without sub-second part), every tenth history '
             'with one block older than its predecessor, the evictor cursor preset through EvictorDb::set_latest_assigned_key to '
             'MAX_WRITABLE, MAX_WRITABLE-1, -2 or onto small live keys (before and between blocks), one block in twelve with 8..22 '
             '(thorough 20..60) transactions of mostly fresh values. Real compress() over CompressionContext and decompress() over '
             'DecompressionContext (storage-backed TemporalRegistry / EvictorDb / HistoryLookup, in-memory stores, the compressed '
             'block goes through postcard). Observed per block: the registry key of every substituted field, the registrations in '
             'header order, decompression status, header equality, transaction equality and tx-id equality with the original, and the '
             'sorted registry + timestamp + reverse-index tables of BOTH stores (+ the evictor cursor). one history in eight carries transactions in executed form (non-default malleable '
             'compress(skip) fields: known finding K-C33-malleable). Pcheck replays the specification decompressor on the observed '
             'compressed blocks (codes 2 spec cannot decode, 3 implementation decompressor wrong, 4 tables differ, 5 only exactness '
             'of malleable fields fails). non-trivial = distinct history with a non-panic trace',
        assumptions=['fuel-compression derive macros (Compress/Decompress of everything that is not Address, AssetId, ContractId, '
                     'ScriptCode, PredicateCode) and postcard are trusted: the model sees a transaction as the list of its '
                     'registry-substituted fields in traversal order',
                     'fields marked compress(skip) decompress to their default (modelled as one malleable marker per transaction); '
                     'exact equality is claimed only for transactions in prepared-for-signing form (roundtrip_history_partial), '
                     'otherwise equality up to these fields = same transaction ids (roundtrip_history_up_to_malleable); coins point '
                     'to one on-chain origin transaction with TxPointer::default()',
                     'the reverse index of script / predicate code is keyed by SHA-256 of the bytes: no collisions among the values in use',
                     'the iteration order of the HashMap of registrations is not determined by the block: it is read from the '
                     'observed compressed block (hint) and the theorems hold for every order',
                     'block timestamps non-decreasing (PoA rule) and fewer than 2^24-1 distinct values per keyspace and block for '
                     'roundtrip_history; roundtrip_history_any needs neither',
                     'registry, timestamp and index rows of one key are written together by write_registry (modelled as one table)'],
        profiles=['dev'],
        level='proof'),
}
