"""Relayer cluster: C29 (log pagination, download / write, sync state)."""


def _c29_classes(i, o):
    deploy, dbi, ps, ml, grow, logs, rounds = i
    cls = ['rounds=%d' % len(rounds), 'page_size=%s' % (ps if ps <= 8 else ('u64max' if ps == 18446744073709551615 else '>8'))]
    cls.append('db_init=%s' % ('some' if dbi else 'none'))
    if isinstance(o, list) and len(o) >= 2 and o != [-777]:
        for r in o[1:-1]:
            if isinstance(r, list) and len(r) == 5:
                cls.append('round=%s' % ('ok' if r[0] == 0 else 'err'))
                cls.append('pages=%d' % min(len(r[1]), 8))
                if r[3][0] == 1:
                    cls.append('synced')
        sizes = [r[4][0] for r in o[1:-1] if isinstance(r, list) and len(r) == 5]
        prev = ps
        for s in sizes:
            if s < prev:
                cls.append('page-size-shrunk')
            if s > prev:
                cls.append('page-size-grown')
            prev = s
        if isinstance(o[-1], list):
            cls.append('stored_heights=%d' % min(len(o[-1]), 20))
            if any(len(e[1]) > 1 for e in o[-1]):
                cls.append('several-events-at-a-height')
    for (_f, sc) in rounds:
        if 1 in sc:
            cls.append('script=rpc-error')
        if 2 in sc:
            cls.append('script=transport-error')
    return cls


PROPS = {
    'C29': dict(
        id='C29', cluster='Relayer', crate='h-relayer', tag=29,
        n={'quick': 1500, 'thorough': 30000},
        theorems=['page_advance_contiguous', 'page_size_stays_positive', 'pages_tile_gap', 'tiles_are_disjoint_and_cover',
                  'stored_exact', 'synced_monotone', 'relayer_trace_ok', 'pages_checker_sound', 'stored_checker_sound'],
        classify=_c29_classes,
        rule='bounded-exhaustive pagination: gaps of 1..7 blocks x page sizes 0..8 x an RPC error (error response / transport '
             'failure) at every call position, followed by a retry iteration; shrink on too many logs (max_logs 0..3) and regrow '
             'after `grow` successes; restart from a stored height, already synced, finalized behind the stored height; plus random '
             'cases: deploy height 0 / 1 / small / next to u64::MAX / random, optional pre-stored height, page size 0, 1, 2.., larger '
             'than the gap, u64::MAX, 0..14 (40) logs with colliding log indexes, unknown events and a non-listened contract, 1..4 '
             'iterations whose finalized height advances, stalls or goes back, with scripted RPC outcomes. non-trivial = distinct '
             'input with a non-empty observation',
        assumptions=['the DA node is the scripted provider of the harness (same address + block-range filter as the crate\'s MockProvider); '
                     'alloy\'s provider and the real RPC are an oracle',
                     'the finalized height is < u64::MAX (at u64::MAX the last page is requested twice: pages_overlap_at_u64max); '
                     'the generator stays below it',
                     'the configured page size is >= 1 for the theorems (with 0 the relayer requests no page and never syncs; the '
                     'model and the harness cover 0 too)',
                     'the task is driven through the hook VerifTask: the real Task / run::run / download_logs / write_logs and the '
                     'crate\'s RelayerDb::insert_events (storage.rs) over an in-memory storage transaction; the grow threshold of the '
                     'page sizer (50 in into_task) is a parameter; the shutdown watcher (take_until) never fires'],
        level='proof'),
}
