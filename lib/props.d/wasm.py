"""Registry entry of the Wasm cluster: C07 (WASM and native state transition functions agree)."""

_CALLS = {0: 'input', 1: 'peek_v0', 2: 'peek', 3: 'consume', 4: 'size_of_value', 5: 'get',
          6: 'relayer_enabled', 7: 'relayer_size', 8: 'relayer_get'}


def _c07_classes(i, o):
    kind = i[0]
    if kind in (0, 1, 2, 3):
        return ['codec=%s' % ('pack_ptr_len', 'pack_esr', 'unpack_ptr_len', 'unpack_esr')[kind]]
    if kind == 4:
        env, calls = i[1], i[2]
        cls = ['host_script', 'host_calls=%d' % min(len(calls), 12)]
        for c in calls:
            cls.append('call=' + _CALLS.get(c[0], '?'))
        if isinstance(o, list) and o and o[-1] == [-1]:
            cls.append('host_trap')
        # two peeks in a row (a guest the shipped one never is)
        for a, b in zip(calls, calls[1:]):
            if a[0] in (1, 2) and b[0] in (1, 2) and env[0] == 1:
                sizes = [len(x) for x in env[2]]
                cls.append('double_peek')
                if len(sizes) >= 2 and len(set(sizes[:2])) == 1:
                    cls.append('double_peek_same_size')
        rows = env[3]
        for c in calls:
            if c[0] == 4 and any(r[0] == c[1] and r[1] == c[2] and r[2] == 0 for r in rows):
                cls.append('size_of_failing_key')
        return cls
    if kind == 5:
        cls = ['diff_history', 'flags=%d' % i[4]]
        if not (isinstance(o, list) and len(o) == 2):
            return cls + ['diff_malformed']
        nat, was = o
        cls.append('blocks=%d' % len(nat))
        cls.append('agree' if nat == was else 'DISAGREE')
        for b in nat:
            prod, val, tam = b
            if prod[0] == 0:
                cls.append('txs=%d' % min(prod[2], 8))
                cls.append('events=%d' % min(prod[10], 6))
                if prod[8]:
                    cls.append('status_failed')
                for s in prod[11]:
                    cls.append('skipped_err=%d' % s[1])
                cls.append('source_calls=%d' % min(prod[12], 6))
            else:
                cls.append('produce_err=%d' % prod[1])
            if val and val[0] == 1:
                cls.append('validate_err=%d' % val[1])
            for t in tam:
                cls.append('tamper%d=%s' % (t[0], 'rejected' if t[1][0] == 1 else 'accepted'))
        return cls
    return ['unknown_kind']


def _c07_nontrivial(i, o):
    if i[0] == 5:
        return isinstance(o, list) and len(o) == 2 and any(b[0][0] == 0 and b[0][2] > 1 for b in o[0])
    return isinstance(o, list) and len(o) > 0 and o != [-777]


PROPS = {
    'C07': dict(
        id='C07', cluster='Wasm', crate='h-wasm', tag=7,
        # n = number of differential histories (1-3 blocks each, thorough 1-5); the codec and
        # host-protocol cases are sized by the tier inside the generator
        n={'quick': 14, 'thorough': 300}, shard=700, workers=16, crosscheck_n=3, search_rounds=1,
        theorems=['unpack_pack', 'pack_fits_u64', 'unpack_total', 'unpack_pack_esr', 'pack_esr_fits_u64',
                  'unpack_esr_total', 'pack_checker_sound', 'pack_esr_checker_sound', 'unpack_checker_sound',
                  'unpack_esr_checker_sound', 'output_passing',
                  'host_get_faithful_partial', 'host_get_faithful_refuted', 'host_get_error_masked',
                  'host_get_unknown_column', 'relayer_get_faithful', 'peek_consume_fifo',
                  'answers_are_source_prefix', 'pending_batches_same_size_lifo',
                  'model_trace_ok', 'model_trace_failure_classes', 'checker_get_sound', 'checker_size_sound',
                  'checker_consume_sound',
                  'convert_v1_roundtrip', 'produce_boundary_identity', 'validate_boundary_identity',
                  'conversion_keeps_shape', 'observation_eq_sound', 'differential_code_sound'],
        classify=_c07_classes, nontrivial=_c07_nontrivial,
        rule='three kinds of cases in one run. (a) codec: the real pack_ptr_and_len / unpack_ptr_and_len / pack_exists_size_result / '
             'unpack_exists_size_result of fuel-core-wasm-executor on all products of 14 u32 and 8 u16 boundary values, every single-bit / '
             'all-but-one-bit / low-mask u64, four 16-bit windows (0.., 0xffff0000.., 0x7fff8000.., one random; stride 97 in quick; in thorough the first two '
             'exhaustively, the others with stride 5), all u16 result codes (strided in quick) and random 64-bit values, compared with the Gallina model and '
             'checked for round trip. (b) host protocol: a straight-line WASM guest assembled per case with wasm-encoder issues 1-16 raw host '
             'calls (input, peek v0/v1, consume, storage_size_of_value, storage_get, relayer_enabled/size/get) against the REAL host '
             'functions of instance.rs over mock views (storage rows present/absent/failing with values of 0..300 bytes, relayer rows '
             'ok/failing/default, 0-3 source batches of equal or different encoded size); scripts follow the shipped guest\'s discipline or '
             'break it (wrong buffer length, get before size, unknown column, count > u16::MAX, double peek, consume without peek); observed = '
             'return value and exact bytes written per call (two runs with different fill patterns) or the trap; compared with the model and '
             'checked against the views by calls_ok. (c) differential: generated chains (generators of h-exec: script transactions with '
             'ret/rvrt/tro/smo, coin/message inputs, change/coin/variable outputs, missing/mismatching/double-spent inputs, unsigned, expired, '
             'resubmitted ids; flags tiny gas/size limit, missing coinbase contract, utxo collision, fees near u64::MAX, relayer enabled with '
             'deposits and forced transactions incl. undecodable/under-claimed/mint payloads, wrong-height messages, failing relayer) - '
             'every block is produced with Executor::native and Executor::wasm from the same view through limit-respecting and '
             'limit-ignoring sources, the native block is validated with both, and tampered variants (mint amount/price/index, missing or '
             'misplaced mint, repeated / earlier / dropped transactions) are validated with both; observed per strategy = digests of block id, '
             'transaction ids, whole block, sorted Changes, statuses, events, skipped (id, error variant, error text digest) or the error. '
             'non-trivial = a differential history with a produced block of at least two transactions, or any other case with a non-empty '
             'non-panic observation',
        assumptions=[
            'equality of the two COMPILED state transition functions (rustc wasm32 backend + wasmtime vs native) is validated on the '
            'generated blocks of this run (translation-validation style tie between the two implementations), not proved; the theorems '
            'cover the boundary codec, the host-call protocol and the ReturnType conversions',
            'postcard/serde encodings of the input (InputSerializationType), of transaction batches, relayer events and the ReturnType are '
            'carried as opaque byte strings in the model; the serde_json round trip of ExecutorError is a hypothesis of the conversion theorems',
            'host memory accesses stay inside the guest memory (scripts are generated in bounds); wasmtime traps are observed as traps',
            'peek_consume_fifo is about the shipped guest (ext::next_transactions); the LIFO order of same-sized pending batches '
            '(suspicion E3) needs a guest that peeks twice before consuming and is witnessed by pending_batches_same_size_lifo and by '
            'scripted double-peek cases on the real host',
            'storage failures (Err from the view) are outside host_get_faithful_partial: storage_size_of_value reports them as '
            '"absent" (host_get_faithful_refuted / host_get_error_masked, known finding K-C07-storage-error-masked)'],
        trusted=['wasm-encoder (assembling the scripted guest), the mock views of harness/h-wasm',
                 'wasmtime 43 and the wasm32 code generator (the differential part observes them, nothing proves them)'],
        level='proof',
        level_text='Partial proof plus validation. Proved in Coq for all u32/u16/bool/u64 values, all views, keys, host states and request '
                   'lists: the two u64 packings of utils.rs are exact inverses and never hit their `expect`; through storage_size_of_value/'
                   'storage_get the shipped guest obtains exactly the view\'s answer for every non-failing read (a failing read is reported '
                   'as "absent": refuted full statement + exact characterisation, recorded as a known finding); relayer events are obtained '
                   'exactly, with a cache that stays genuine; transaction batches reach the guest in source order even when equal-sized; '
                   'the ReturnType V0/V1 conversions are the identity on results given the serde_json round trip of errors. The model is '
                   'tied to the real pack/unpack functions and to the real host functions of instance.rs (scripted WASM guest) on every run. '
                   'What is NOT proved: that the wasm32 build of the executor computes the same state transition as the native build - no '
                   'executable model can stand in for rustc\'s wasm32 backend and wasmtime; that part is validated by producing and '
                   'validating every generated block under both strategies and comparing block, Changes, statuses, events, skipped lists '
                   'and error variants (translation-validation style, sampled).',
        technique='Coq proof over a hand-written Gallina model of the WASM boundary + correspondence with the Rust codec and host functions '
                  '+ differential execution of both executor strategies on generated blocks'),
}
