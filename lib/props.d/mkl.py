def _c13_classes(i, o):
    cls = ['ops=%d' % min(len(i), 25)]
    kinds = {0: 'insert', 1: 'replace', 2: 'take', 3: 'remove', 4: 'insert_batch', 5: 'remove_batch'}
    for op in i:
        cls.append('op=' + kinds.get(op[0], '?'))
    if isinstance(o, list) and len(o) == 3:
        for ob in o[0]:
            cls.append('res=%s' % {0: 'ok', 1: 'ok_none', 2: 'ok_some', 3: 'err'}.get(ob[0][0], '?'))
    return cls


def _c14_classes(i, o):
    cls = ['ops=%d' % min(len(i[1]), 25)]
    kinds = {0: 'insert', 1: 'replace', 2: 'take', 3: 'remove', 4: 'init', 5: 'insert_batch', 6: 'remove_batch'}
    for op in i[1]:
        cls.append('op=' + kinds.get(op[0], '?'))
    if isinstance(o, list):
        for ob in o:
            if isinstance(ob, list) and ob and isinstance(ob[0], list):
                cls.append('res=%s' % {0: 'ok', 1: 'ok_none', 2: 'ok_some', 3: 'err'}.get(ob[0][0], '?'))
    return cls


PROPS = {
    'C13': dict(
        id='C13', crosscheck_n=1, cluster='Mkl', crate='h-mkl', tag=13,
        n={'quick': 400, 'thorough': 8000}, shard=50,
        theorems=['dense_exact', 'dense_protected', 'dense_reachable_inv', 'dense_prim_checker_sound',
                  'dense_insert_on_stored_key_refuted'],
        classify=_c13_classes,
        rule='random histories of 1..14 (thorough 24) single/batched insert, replace, take, remove operations on the real FuelBlocks '
             'table over 2..7 keys (plus u32::MAX keys), values = distinct blocks whose BlockEncoder bytes are part of the input; every 8th '
             'history may insert onto a stored key (known-finding class). Observed: result variant and the Latest metadata row after every '
             'operation, all Primary rows and table rows at the end; roots recomputed by the model with its own SHA-256. '
             'non-trivial = distinct history with a non-empty observation',
        assumptions=['fuel-merkle binary tree is specified by the RFC-6962 style from-scratch root (validated against it on every case)',
                     'operations are applied on one StorageTransaction over the in-memory test storage (partial effects of failed batches stay visible)'],
        trusted=['coq/Common/Sha256.v executable SHA-256 (NIST vectors by vm_compute; differential vs sha2 crate through every root comparison)'],
    ),
    'C14': dict(
        id='C14', crosscheck_n=1, cluster='Mkl', crate='h-mkl', tag=14,
        n={'quick': 160, 'thorough': 3000}, shard=10,
        theorems=['sparse_exact', 'sparse_frame', 'sparse_okb_sound'],
        classify=_c14_classes,
        rule='random histories of 1..10 (thorough 20) single and batched (init/insert/remove) operations over three sparse-merklized '
             'compression-registry tables (Address, AssetId, ScriptCode = primary keys 1, 2, 4), 2..6 registry keys plus the top of the 24-bit '
             'space, few distinct values incl. empty script bytes; after every operation the recorded root of all three primary keys is read '
             'and compared with the from-scratch sparse root computed by the model (own SHA-256). non-trivial = distinct history with a '
             'non-empty observation',
        assumptions=['fuel-merkle sparse tree is specified by the from-scratch sparse root (validated against it on every case)',
                     'in this code base the primary key of a Merkleized<Table> is the table column id, so one batch never mixes primary keys'],
        trusted=['coq/Common/Sha256.v executable SHA-256 (NIST vectors by vm_compute; differential vs sha2 crate through every root comparison)'],
    ),
}
