"""The integer-tree exchange format: (1 2 (3 -4) ()) <-> nested python lists of ints."""


def parse(s):
    s = s.strip()
    # strip trailing comment "; ..."
    if ';' in s:
        s = s[:s.index(';')].strip()
    pos = 0
    n = len(s)
    stack = []
    cur = None
    top = None
    i = 0
    while i < n:
        c = s[i]
        if c in ' \t\r':
            i += 1
        elif c == '(':
            new = []
            if cur is not None:
                cur.append(new)
                stack.append(cur)
            cur = new
            i += 1
        elif c == ')':
            if cur is None:
                raise ValueError('unbalanced )')
            if stack:
                cur = stack.pop()
            else:
                top = cur
                cur = None
                if s[i + 1:].strip():
                    raise ValueError('trailing input')
                return top
            i += 1
        else:
            j = i
            while j < n and s[j] not in ' \t()':
                j += 1
            v = int(s[i:j])
            if cur is None:
                if s[j:].strip():
                    raise ValueError('trailing input')
                return v
            cur.append(v)
            i = j
    raise ValueError('unexpected end: %r' % s[:80])


def show(t):
    if isinstance(t, bool):
        return '1' if t else '0'
    if isinstance(t, int):
        return str(t)
    return '(' + ' '.join(show(x) for x in t) + ')'


def size(t):
    if isinstance(t, int):
        return 1
    return 1 + sum(size(x) for x in t)


def shrink_candidates(t):
    """One-step simplifications of t (generic delta debugging over the tree)."""
    out = []

    def rec(node, rebuild):
        if isinstance(node, int):
            if node != 0:
                cands = {0, node // 2, node - 1 if node > 0 else node + 1}
                for c in sorted(cands, key=abs):
                    if c != node:
                        out.append(rebuild(c))
            return
        # drop chunks then single elements
        n = len(node)
        if n >= 4:
            half = n // 2
            out.append(rebuild(node[:half]))
            out.append(rebuild(node[half:]))
        for i in range(n):
            out.append(rebuild(node[:i] + node[i + 1:]))
        for i in range(n):
            rec(node[i], lambda x, i=i, node=node: rebuild(node[:i] + [x] + node[i + 1:]))

    rec(t, lambda x: x)
    return out
