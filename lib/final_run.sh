#!/bin/bash
# Runs every claimed check once (quick tier) on the current tree, two streams in parallel
# (light harness crates / heavy ones), and prints a summary.  Used before committing evidence.
cd /verif; mkdir -p /tmp/scratch
python3 - <<'PY' > /tmp/scratch/final_groups.txt
import json, os, sys
sys.path.insert(0, 'lib')
from props import PROPS
claimed = json.load(open('lib/claimed.json'))
light, heavy = [], []
for i in claimed:
    crate = PROPS[i]['crate']
    (heavy if os.path.exists('harness/%s/TARGET_DIR' % crate) else light).append(i)
print(' '.join(light)); print(' '.join(heavy))
PY
L=$(sed -n 1p /tmp/scratch/final_groups.txt); H=$(sed -n 2p /tmp/scratch/final_groups.txt)
run() { for p in "$@"; do s=$(date +%s); out=$(timeout 6000 ./check $p 2>&1 | grep -E "^(OK|VIOLATION|KNOWN-FINDING)|problem" | cut -c1-200); echo "[$(( $(date +%s) - s ))s] $p: $out"; done; }
run $L > /tmp/scratch/final_light.log 2>&1 &
run $H > /tmp/scratch/final_heavy.log 2>&1 &
wait
echo "light:"; grep -c "OK property" /tmp/scratch/final_light.log; grep -E "VIOLATION|problem" /tmp/scratch/final_light.log
echo "heavy:"; grep -c "OK property" /tmp/scratch/final_heavy.log; grep -E "VIOLATION|problem" /tmp/scratch/final_heavy.log
