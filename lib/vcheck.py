"""Driver shared by all property checks.  See DESIGN.md section 4.

A property entry (lib/props.py) names: the Coq cluster (directory under coq/), the
harness crate/binary, the request tag understood by the cluster's main_T, case counts per
tier, the property theorems (checked with Print Assumptions) and an optional
coverage classifier.
"""
import concurrent.futures as cf
import hashlib
import json
import os
import re
import subprocess
import sys
import time

import tfmt

ROOT = os.path.dirname(os.path.dirname(os.path.abspath(__file__)))
COQ = os.path.join(ROOT, 'coq')
OCAML_GEN = os.path.join(ROOT, 'ocaml', 'gen')
TARGET = os.path.join(ROOT, 'target')
ENV = dict(os.environ, CARGO_NET_OFFLINE='true', CARGO_TERM_COLOR='never')

FORBIDDEN = re.compile(
    r'\b(Admitted|admit|Axiom|Axioms|Parameter|Parameters|Conjecture|Conjectures|Admit Obligations)\b'
    r'|Unset\s+Guard|bypass_check|type-in-type|impredicative-set|Unset\s+Universe\s+Checking'
    r'|Unset\s+Positivity')

# axioms of the standard library that may appear in Print Assumptions (DESIGN section 5)
ALLOWED_AXIOMS = {
    'Coq.Logic.FunctionalExtensionality.functional_extensionality_dep',
    'functional_extensionality_dep',
    'FunctionalExtensionality.functional_extensionality_dep',
    'Coq.Logic.Classical_Prop.classic', 'Classical_Prop.classic', 'classic',
    'ClassicalDedekindReals.sig_forall_dec', 'ClassicalDedekindReals.sig_not_dec',
    'sig_forall_dec', 'sig_not_dec',
    'Coq.Logic.Eqdep.Eq_rect_eq.eq_rect_eq', 'Eqdep.Eq_rect_eq.eq_rect_eq', 'eq_rect_eq',
    'Coq.Logic.JMeq.JMeq_eq', 'JMeq_eq', 'JMeq.JMeq_eq',
    'Coq.Logic.ProofIrrelevance.proof_irrelevance', 'proof_irrelevance',
    'Coq.Logic.PropExtensionality.propositional_extensionality', 'propositional_extensionality',
}


LEVELS = ['exploration', 'fault_enumeration', 'model_checking', 'proof', 'translation_validation', 'other']


def norm_level(x):
    if x in LEVELS:
        return x
    for l in LEVELS:
        if str(x).startswith(l):
            return l
    return 'other'


def log(*a):
    print(*a, file=sys.stderr, flush=True)


def sh(cmd, timeout, cwd=None, inp=None, env=None):
    """Run under a shell timeout; returns (rc, stdout+stderr)."""
    try:
        p = subprocess.run(cmd, cwd=cwd, input=inp, env=env or ENV, timeout=timeout,
                           stdout=subprocess.PIPE, stderr=subprocess.STDOUT, text=True)
        return p.returncode, p.stdout
    except subprocess.TimeoutExpired as e:
        out = e.stdout or ''
        if isinstance(out, bytes):
            out = out.decode(errors='replace')
        return 124, out + '\n[timeout after %ss]' % timeout


# ------------------------------------------------------------------------------------
# gate + Coq build

def gate_scan(cluster_dirs):
    """Forbidden constructs anywhere in the claimed development (comments included): Common, the
    cluster under check and every cluster of a claimed property.  Clusters still being written by a
    builder and not yet claimed are scanned when they are claimed."""
    hits = []
    scope = set(cluster_dirs) | {'Common'}
    try:
        import props as _props
        claimed = set(json.load(open(os.path.join(ROOT, 'lib', 'claimed.json'))))
        scope |= {v['cluster'] for k, v in _props.PROPS.items() if k in claimed}
    except Exception:
        scope = None
    for base, _dirs, files in os.walk(COQ):
        if scope is not None and os.path.relpath(base, COQ).split(os.sep)[0] not in scope:
            continue
        for f in files:
            if not f.endswith('.v'):
                continue
            p = os.path.join(base, f)
            for i, line in enumerate(open(p, encoding='utf-8', errors='replace'), 1):
                if FORBIDDEN.search(line):
                    hits.append('%s:%d: %s' % (os.path.relpath(p, ROOT), i, line.strip()))
    return hits


def coq_files():
    """Every .v of the development except the Extract.v drivers and generated scratch."""
    fs = []
    for d in sorted(os.listdir(COQ)):
        dd = os.path.join(COQ, d)
        if not os.path.isdir(dd):
            continue
        for f in sorted(os.listdir(dd)):
            if f.endswith('.v') and f != 'Extract.v' and not f.startswith('.') and not f.startswith('tmp_'):
                fs.append('%s/%s' % (d, f))
    return fs


def ensure_makefile():
    """_CoqProject is derived from the directory tree (one directory per cluster)."""
    mk = os.path.join(COQ, 'Makefile')
    cp = os.path.join(COQ, '_CoqProject')
    want = '-Q . FC\n' + '\n'.join(coq_files()) + '\n'
    have = open(cp).read() if os.path.exists(cp) else ''
    if want != have or not os.path.exists(mk):
        open(cp, 'w').write(want)
        rc, out = sh(['coq_makefile', '-f', '_CoqProject', '-o', 'Makefile'], 120, cwd=COQ)
        if rc != 0:
            raise RuntimeError('coq_makefile failed: ' + out)


def coq_build(cluster, timeout=3600):
    """Full .vo build of <cluster>/Properties.vo (and its dependencies); Properties.v is
    always recompiled so that its Print Assumptions output is fresh."""
    ensure_makefile()
    target = '%s/Properties.vo' % cluster
    try:
        os.remove(os.path.join(COQ, target))
    except FileNotFoundError:
        pass
    rc, out = sh(['make', '-j16', target], timeout, cwd=COQ)
    return rc, out


def parse_assumptions(out):
    """Print Assumptions blocks of the build output -> (n_closed, {axiom names})."""
    closed = out.count('Closed under the global context')
    axioms = set()
    lines = out.splitlines()
    i = 0
    while i < len(lines):
        if lines[i].strip().startswith('Axioms:'):
            i += 1
            while i < len(lines) and lines[i].strip() and not lines[i].startswith('COQC') \
                    and not lines[i].strip().startswith('Axioms:') \
                    and 'Closed under' not in lines[i]:
                m = re.match(r'^([A-Za-z_][\w.\']*)\s*(:|$)', lines[i])
                if m and not lines[i].startswith(' '):
                    axioms.add(m.group(1))
                i += 1
        else:
            i += 1
    return closed, axioms


def count_obligations(cluster):
    n_thm = 0
    n_lem = 0
    d = os.path.join(COQ, cluster)
    for f in sorted(os.listdir(d)):
        if not f.endswith('.v'):
            continue
        txt = open(os.path.join(d, f)).read()
        c = len(re.findall(r'^\s*(Theorem|Lemma|Corollary|Example|Fact|Remark|Proposition)\s', txt, re.M))
        if f == 'Properties.v':
            n_thm += c
        else:
            n_lem += c
    return n_thm, n_lem


def theorem_names(cluster):
    txt = open(os.path.join(COQ, cluster, 'Properties.v')).read()
    return re.findall(r'^\s*Theorem\s+([\w\']+)', txt, re.M)


# ------------------------------------------------------------------------------------
# model (extracted OCaml) and harness

def build_model(cluster, timeout=1800):
    """Extract <cluster>/Extract.v and compile it with the generic driver."""
    os.makedirs(OCAML_GEN, exist_ok=True)
    name = cluster.lower()
    # the .vo files Extract.v requires (From FC Require Import A.B A.C.) must exist; Model.v always
    targets = ['%s/Model.vo' % cluster]
    try:
        ext = open(os.path.join(COQ, cluster, 'Extract.v')).read()
        for m in re.finditer(r'From\s+FC\s+Require\s+(?:Import|Export)\s+((?:[A-Za-z_]\w*(?:\.[A-Za-z_]\w*)*\s*)+)\.(?:\s|$)', ext):
            for mod in m.group(1).split():
                t = mod.replace('.', '/') + '.vo'
                if t not in targets and os.path.exists(os.path.join(COQ, t[:-1])):
                    targets.append(t)
    except OSError:
        pass
    rc, out = sh(['make', '-j16'] + targets, timeout, cwd=COQ)
    if rc != 0:
        return rc, out
    rc, out2 = sh(['coqc', '-Q', COQ, 'FC', os.path.join(COQ, cluster, 'Extract.v')], timeout, cwd=OCAML_GEN)
    out += out2
    if rc != 0:
        return rc, out
    model = open(os.path.join(OCAML_GEN, name + '_model.ml')).read()
    driver = open(os.path.join(ROOT, 'ocaml', 'driver.ml')).read()
    main = os.path.join(OCAML_GEN, name + '_main.ml')
    new = model + '\n' + driver
    exe = os.path.join(OCAML_GEN, name + '_main')
    if os.path.exists(main) and os.path.exists(exe) and open(main).read() == new:
        return 0, out
    open(main, 'w').write(new)
    rc, out3 = sh(['ocamlfind', 'ocamlopt', '-O2', '-w', '-a', name + '_main.ml', '-o', name + '_main'],
                  timeout, cwd=OCAML_GEN)
    return rc, out + out3


def model_exe(cluster):
    return os.path.join(OCAML_GEN, cluster.lower() + '_main')


def target_dir(crate):
    """Heavy crates (those depending on the `fuel-core` crate) are built in their own target
    directory so that they do not hold the cargo lock of the light ones: a harness crate opts in
    with a file `harness/<crate>/TARGET_DIR` holding the directory name (relative to /verif)."""
    f = os.path.join(ROOT, 'harness', crate, 'TARGET_DIR')
    if os.path.exists(f):
        return os.path.join(ROOT, open(f).read().strip())
    return TARGET


def fix_workspace():
    """The harness workspace globs `h-*`; a member directory that is still being created (no
    src/main.rs yet) would break every build, so such directories are listed under `exclude`."""
    hd = os.path.join(ROOT, 'harness')
    bad = sorted(d for d in os.listdir(hd) if d.startswith('h-') and os.path.isdir(os.path.join(hd, d))
                 and not (os.path.exists(os.path.join(hd, d, 'Cargo.toml')) and os.path.exists(os.path.join(hd, d, 'src', 'main.rs'))))
    p = os.path.join(hd, 'Cargo.toml')
    txt = open(p).read()
    new = re.sub(r'\nexclude = \[[^\]]*\]', '', txt)
    if bad:
        new = new.replace('members = ["vcommon", "h-*"]', 'members = ["vcommon", "h-*"]\nexclude = [%s]' % ', '.join('"%s"' % b for b in bad))
    if new != txt:
        open(p, 'w').write(new)


def build_harness(crate, profile='dev', timeout=7200):
    fix_workspace()
    lock_src = '/repo/Cargo.lock'
    lock_dst = os.path.join(ROOT, 'harness', 'Cargo.lock')
    if not os.path.exists(lock_dst):
        open(lock_dst, 'w').write(open(lock_src).read())
    cmd = ['cargo', 'build', '--offline', '-p', crate]
    if profile == 'release':
        cmd.append('--release')
    env = dict(ENV, CARGO_TARGET_DIR=target_dir(crate))
    rc, out = sh(cmd, timeout, cwd=os.path.join(ROOT, 'harness'), env=env)
    if rc != 0 and ('failed to select a version' in out or 'is yanked' in out):
        # cargo pruned a (meanwhile yanked) package from the shared lock file that a new member needs:
        # start again from the repository's lock file, which pins everything
        open(lock_dst, 'w').write(open(lock_src).read())
        rc, out = sh(cmd, timeout, cwd=os.path.join(ROOT, 'harness'), env=env)
    return rc, out


def harness_exe(crate, profile='dev'):
    return os.path.join(target_dir(crate), 'release' if profile == 'release' else 'debug', crate)


def _run_lines(cmd, lines, timeout):
    if not lines:
        return []
    rc, out = sh(cmd, timeout, inp='\n'.join(lines) + '\n')
    res = [l for l in out.split('\n') if l.strip()]
    if rc != 0 or len(res) != len(lines):
        raise RuntimeError('%s: rc=%s, %d lines for %d inputs\n%s' % (cmd, rc, len(res), len(lines), out[-2000:]))
    return res


def run_sharded(cmd, lines, timeout, shard=4000, workers=16):
    if len(lines) <= shard:
        return _run_lines(cmd, lines, timeout)
    chunks = [lines[i:i + shard] for i in range(0, len(lines), shard)]
    with cf.ThreadPoolExecutor(max_workers=workers) as ex:
        parts = list(ex.map(lambda c: _run_lines(cmd, c, timeout), chunks))
    return [l for p in parts for l in p]


def harness_gen(exe, prop, seed, n, tier, timeout=600):
    rc, out = sh([exe, 'gen', prop, '--seed', str(seed), '--n', str(n), '--tier', tier], timeout)
    if rc != 0:
        raise RuntimeError('harness gen failed: ' + out[-2000:])
    return [l for l in out.split('\n') if l.strip()]


def harness_run(exe, prop, inputs, timeout=3600, shard=4000, workers=16):
    """-> list of observed strings (same order as inputs)."""
    res = run_sharded([exe, 'run', prop], inputs, timeout, shard, workers)
    obs = []
    for inp, line in zip(inputs, res):
        parts = line.split('\t')
        if len(parts) != 2:
            raise RuntimeError('bad harness line: ' + line[:300])
        obs.append(parts[1].strip())
    return obs


def model_run(cluster, tag, inputs, observed, timeout=3600, shard=4000):
    """-> list of (model_out_str, pcheck_bool or None, raw)."""
    reqs = ['(%d %s %s)' % (tag, i, o.split(';')[0].strip()) for i, o in zip(inputs, observed)]
    res = run_sharded([model_exe(cluster)], reqs, timeout, shard)
    out = []
    for r in res:
        try:
            t = tfmt.parse(r)
        except ValueError:
            out.append((r, None, r))
            continue
        if isinstance(t, list) and len(t) >= 2 and isinstance(t[1], int) and t[0] != -999 and t[0] != -998:
            out.append((tfmt.show(t[0]), t[1] == 1, t))
        else:
            out.append((tfmt.show(t), None, t))
    return out


def coq_term(t):
    """python nested list/int -> Gallina term of type T"""
    if isinstance(t, int):
        return 'I (%d)%%Z' % t
    return 'L [' + '; '.join(coq_term(x) for x in t) + ']'


def extraction_crosscheck(cluster, tag, samples, timeout=900):
    """Re-evaluate sample requests with vm_compute inside coqc and compare with the extracted
    OCaml model's answers.  samples: list of (input_str, observed_str, ocaml_answer_T)."""
    if not samples:
        return 0, 0, []
    ext = open(os.path.join(COQ, cluster, 'Extract.v')).read()
    mods = []
    for m in re.finditer(r'From\s+FC\s+Require\s+(?:Import|Export)\s+((?:[A-Za-z_]\w*(?:\.[A-Za-z_]\w*)*\s*)+)\.(?:\s|$)', ext):
        mods += m.group(1).split()
    rc, out = sh(['make', 'Common/Show.vo'], 300, cwd=COQ)
    if rc != 0:
        return 0, len(samples), ['Common/Show.vo does not build: ' + out[-300:]]
    os.makedirs(os.path.join(ROOT, 'target', 'tmp'), exist_ok=True)
    path = os.path.join(ROOT, 'target', 'tmp', 'crosscheck_%s_%d_%d.v' % (cluster, tag, os.getpid()))
    lines = ['From FC Require Import Common.T Common.Show %s.' % ' '.join(mods), 'Require Import List ZArith String.', 'Import ListNotations.', 'Open Scope string_scope.']
    for inp, obs, _ in samples:
        req = [tag, tfmt.parse(inp), tfmt.parse(obs.split(';')[0].strip())]
        lines.append('Eval vm_compute in (show (main_T (%s))).' % coq_term(req))
    open(path, 'w').write('\n'.join(lines) + '\n')
    rc, out = sh(['coqc', '-Q', COQ, 'FC', '-noglob', path], timeout, cwd=os.path.dirname(path))
    for ext_ in ('.vo', '.vok', '.vos', '.glob', '.v'):
        try:
            os.remove(path[:-2] + ext_)
        except OSError:
            pass
    if rc != 0:
        return 0, len(samples), ['vm_compute cross-check did not run: ' + out[-400:].replace('\n', ' | ')]
    got = re.findall(r'=\s*"((?:[^"]|"")*)"', out.replace('\n', ' '))
    agree = 0
    bad = []
    for (inp, obs, ans), g in zip(samples, got):
        g = re.sub(r'\s+', ' ', g)
        if g == tfmt.show(ans):
            agree += 1
        else:
            bad.append('vm_compute %s <> extracted %s on input %s' % (g[:200], tfmt.show(ans)[:200], inp[:200]))
    if len(got) != len(samples):
        bad.append('vm_compute printed %d answers for %d requests' % (len(got), len(samples)))
    return agree, len(samples), bad


# ------------------------------------------------------------------------------------
# known findings

def load_known():
    p = os.path.join(ROOT, 'known_findings.json')
    if not os.path.exists(p):
        return {'findings': [], 'fixed': []}
    return json.load(open(p))


def match_known(prop, inp_t, obs_t, known, pcode=0):
    for k in known.get('findings', []):
        if k.get('property') != prop or k.get('status', 'open') != 'open':
            continue
        try:
            env = {'__builtins__': {}, 'inp': inp_t, 'obs': obs_t, 'pcode': pcode, 'len': len, 'any': any, 'all': all,
                   'isinstance': isinstance, 'int': int, 'list': list, 'max': max, 'min': min, 'sum': sum, 'range': range,
                   'abs': abs, 'sorted': sorted, 'set': set, 'enumerate': enumerate, 'zip': zip}
            if eval(k['match'], env):
                return k
        except Exception:
            continue
    return None


# ------------------------------------------------------------------------------------
# evidence

def write_evidence(prop, data):
    os.makedirs(os.path.join(ROOT, 'evidence'), exist_ok=True)
    p = os.path.join(ROOT, 'evidence', prop + '.json')
    with open(p, 'w') as f:
        json.dump(data, f, indent=1, sort_keys=True)
    return p


def write_replay(prop, seed, data):
    os.makedirs(os.path.join(ROOT, 'replay'), exist_ok=True)
    p = os.path.join(ROOT, 'replay', '%s-%s.json' % (prop, seed))
    with open(p, 'w') as f:
        json.dump(data, f, indent=1)
    return p


def load_corpus(prop):
    d = os.path.join(ROOT, 'corpus', prop)
    lines = []
    if os.path.isdir(d):
        for f in sorted(os.listdir(d)):
            for l in open(os.path.join(d, f)):
                l = l.strip()
                if l and not l.startswith('#'):
                    lines.append(l)
    return lines


# ------------------------------------------------------------------------------------
# the generic correspondence + Pcheck check

class Outcome:
    def __init__(self):
        self.violations = []       # (kind, input, observed, model)
        self.known = {}            # finding id -> count
        self.mismatch = []         # correspondence disagreements with Pcheck true
        self.pfail = []            # Pcheck false, not known
        self.errors = []
        self.n = 0
        self.distinct_nontrivial = 0
        self.dist = {}
        self.samples = []
        self.xsamples = []         # (input, observed, extracted model answer) for the extraction cross-check


def evaluate(spec, inputs, known, exe, timeout=3600):
    """Run implementation and model on [inputs]; classify every case."""
    prop = spec['id']
    out = Outcome()
    obs = harness_run(exe, prop, inputs, timeout, spec.get('shard', 4000), spec.get('workers', 16))
    mod = model_run(spec['cluster'], spec['tag'], inputs, obs, timeout, spec.get('shard', 4000))
    seen = set()
    classify = spec.get('classify')
    for inp, o, (m, pc, raw) in zip(inputs, obs, mod):
        out.n += 1
        o_clean = o.split(';')[0].strip()
        try:
            o_t = tfmt.parse(o_clean)
            i_t = tfmt.parse(inp)
        except ValueError:
            out.errors.append((inp, o, m))
            continue
        if pc is None:
            out.errors.append((inp, o, m))
            continue
        if classify:
            for c in classify(i_t, o_t):
                out.dist[c] = out.dist.get(c, 0) + 1
        nontrivial = spec.get('nontrivial', lambda i, o: isinstance(o, list) and len(o) > 0 and o != [-777])
        if inp not in seen and nontrivial(i_t, o_t):
            seen.add(inp)
            out.distinct_nontrivial += 1
        if isinstance(raw, list) and len(inp) + len(o_clean) < 6000:
            out.xsamples.append((inp, o_clean, raw))
            if len(out.xsamples) > 64:      # keep the smallest requests only
                out.xsamples.sort(key=lambda x: len(x[0]) + len(x[1]))
                del out.xsamples[16:]
        if len(out.samples) < 3 and out.n % 97 in (1, 2, 3):
            out.samples.append({'input': inp[:400], 'observed': o_clean[:400], 'model': m[:400], 'pcheck': pc})
        if not pc:
            pcode = raw[1] if isinstance(raw, list) and len(raw) >= 2 and isinstance(raw[1], int) else 0
            k = match_known(prop, i_t, o_t, known, pcode)
            if k:
                out.known[k['id']] = out.known.get(k['id'], 0) + 1
                # a known failing class must still agree with the model
                if m != o_clean:
                    out.mismatch.append((inp, o_clean, m))
            else:
                out.pfail.append((inp, o_clean, m))
        elif m != o_clean:
            out.mismatch.append((inp, o_clean, m))
    if not out.samples and inputs:
        out.samples.append({'input': inputs[0][:400], 'observed': obs[0][:400], 'model': mod[0][0][:400], 'pcheck': mod[0][1]})
    return out


def shrink(spec, exe, known, inp, pred, rounds=40, width=300):
    """Greedy generic shrinking of a failing input; pred(outcome_for_single_case) -> bool."""
    cur = tfmt.parse(inp)
    for _ in range(rounds):
        cands = tfmt.shrink_candidates(cur)
        cands = [c for c in cands if tfmt.size(c) <= tfmt.size(cur)][:width]
        if not cands:
            break
        lines = [tfmt.show(c) for c in cands]
        try:
            obs = harness_run(exe, spec['id'], lines, 600)
            mod = model_run(spec['cluster'], spec['tag'], lines, obs, 600)
        except RuntimeError:
            break
        found = None
        for c, l, o, (m, pc, raw) in zip(cands, lines, obs, mod):
            o_clean = o.split(';')[0].strip()
            if pc is None or o_clean.startswith('(-776') or o_clean == '(-777)' and not spec.get('panic_is_failure'):
                continue
            try:
                o_t = tfmt.parse(o_clean)
            except ValueError:
                continue
            pcode = raw[1] if isinstance(raw, list) and len(raw) >= 2 and isinstance(raw[1], int) else 0
            if pred(c, o_t, o_clean, m, pc, pcode) and c != cur:
                if found is None or tfmt.size(c) < tfmt.size(found):
                    found = c
        if found is None:
            break
        cur = found
    return tfmt.show(cur)


def run_check(spec, tier, seed, replay=None):
    t0 = time.time()
    prop = spec['id']
    cluster = spec['cluster']
    known = load_known()
    trusted = [
        'Coq 8.16.1 kernel and vm_compute (no native_compute)',
        'Extraction with ExtrOcamlBasic only (bool/option/list/prod/unit/sumbool mapped; numbers stay inductive), OCaml 4.13.1',
        'ocaml/driver.ml (text <-> inductive integers), lib/vcheck.py, harness generators/canonicalisers',
    ] + spec.get('trusted', [])
    ev = {
        'property_id': prop, 'tier': tier, 'seed': seed, 'level': norm_level(spec.get('level', 'proof')),
        'coverage': {}, 'assumptions': spec.get('assumptions', []), 'wall_s': 0.0, 'violations': 0,
    }
    problems = []           # broken obligations / ties (strings)
    lines_out = []

    # 0. translators
    for tr in spec.get('translators', []):
        rc, out = sh(tr, 300, cwd=ROOT)
        if rc != 0:
            problems.append('translator %s failed: %s' % (' '.join(tr), out[-500:]))

    # 1. gate
    hits = gate_scan([cluster])
    if hits:
        problems.append('forbidden constructs in the Coq development: ' + '; '.join(hits[:5]))

    # 2. proofs
    rc, out = coq_build(cluster)
    n_thm, n_lem = count_obligations(cluster)
    thms = theorem_names(cluster)
    mine = [t for t in thms if t in spec['theorems']] if spec.get('theorems') else thms
    proofs_ok = rc == 0
    if rc != 0:
        m = re.search(r'File "([^"]+)", line (\d+)', out)
        where = '%s:%s' % (m.group(1), m.group(2)) if m else cluster
        problems.append('proof obligation no longer checks (%s): %s' % (where, out[-600:].replace('\n', ' | ')))
    closed, axioms = parse_assumptions(out)
    bad_axioms = sorted(a for a in axioms if a not in ALLOWED_AXIOMS and a.split('.')[-1] not in ALLOWED_AXIOMS)
    if bad_axioms:
        problems.append('theorems depend on axioms outside the allowlist: ' + ', '.join(bad_axioms))
    missing = [t for t in spec.get('theorems', []) if t not in thms]
    if missing:
        problems.append('property theorems missing from %s/Properties.v: %s' % (cluster, ', '.join(missing)))

    # 3. model + harness
    model_ok = True
    rc, mout = build_model(cluster)
    if rc != 0:
        model_ok = False
        problems.append('model does not build/extract: ' + mout[-600:].replace('\n', ' | '))
    profiles = spec.get('profiles', ['dev'])
    if tier == 'quick':
        profiles = profiles[:1]
    harness_ok = True
    for prof in profiles:
        rc, hout = build_harness(spec['crate'], prof)
        if rc != 0:
            harness_ok = False
            problems.append('harness build failed against /repo working tree (%s): %s' % (prof, hout[-1500:].replace('\n', ' | ')))

    total = Outcome()
    n_eval = 0
    if model_ok and harness_ok:
        for prof in profiles:
            exe = harness_exe(spec['crate'], prof)
            if replay:
                rp = json.load(open(replay))
                inputs = [rp['input']] if 'input' in rp else rp.get('inputs', [])
            else:
                inputs = load_corpus(prop)
                n = spec['n'][tier]
                inputs += harness_gen(exe, prop, seed, n, tier)
            try:
                o = evaluate(spec, inputs, known, exe)
            except RuntimeError as e:
                problems.append('correspondence run failed: ' + str(e)[:800])
                continue
            n_eval += o.n
            total.n += o.n
            total.distinct_nontrivial = max(total.distinct_nontrivial, o.distinct_nontrivial)
            for k, v in o.known.items():
                total.known[k] = total.known.get(k, 0) + v
            for k, v in o.dist.items():
                total.dist[k] = total.dist.get(k, 0) + v
            total.mismatch += [(prof,) + x for x in o.mismatch]
            total.pfail += [(prof,) + x for x in o.pfail]
            total.errors += [(prof,) + x for x in o.errors]
            if not total.samples:
                total.samples = o.samples
            if not total.xsamples:
                total.xsamples = o.xsamples

    # extraction cross-check: a sample of this run's requests re-evaluated by vm_compute in coqc
    x_agree, x_n, x_bad = (0, 0, [])
    if model_ok and total.xsamples and not spec.get('no_crosscheck'):
        try:
            xs = sorted(total.xsamples, key=lambda x: len(x[0]) + len(x[1]))
            # not the degenerate smallest ones only: one small, the rest from the middle of the kept range
            k = spec.get('crosscheck_n', 3)
            pick = [xs[0]] + xs[len(xs) // 2:len(xs) // 2 + max(0, k - 1)] if len(xs) > k else xs
            x_agree, x_n, x_bad = extraction_crosscheck(cluster, spec['tag'], pick[:k])
        except Exception as e:      # noqa
            x_bad = ['extraction cross-check crashed: %s' % e]
        for b in x_bad:
            problems.append('extraction cross-check: ' + b)

    exe = harness_exe(spec['crate'], profiles[0])
    violation = None
    if total.errors:
        prof, inp, o, m = total.errors[0]
        problems.append('undecodable case (harness or model rejected it): input=%s observed=%s model=%s' % (inp[:200], o[:200], m[:200]))

    if total.pfail:
        prof, inp, o, m = total.pfail[0]
        exe_p = harness_exe(spec['crate'], prof)
        small = inp
        if not spec.get('no_shrink'):
            try:
                small = shrink(spec, exe_p, known, inp,
                               lambda c, o_t, o_s, m_s, pc, pcode=0: (not pc) and match_known(prop, c, o_t, known, pcode) is None)
            except Exception as e:     # shrinking is best effort
                log('shrink failed:', e)
        so = harness_run(exe_p, prop, [small], 600)[0]
        sm = model_run(cluster, spec['tag'], [small], [so], 600)[0]
        violation = {
            'property': prop, 'kind': 'property fails on the implementation (Pcheck false on an implementation trace)',
            'input': small, 'observed': so, 'model': sm[0], 'original_input': inp, 'profile': prof,
            'n_failing_cases': len(total.pfail), 'theorems': spec.get('theorems', thms),
            'how_to_replay': './check %s --replay <this file>' % prop,
        }
    elif total.mismatch or problems:
        # a tie or a proof broke, but no implementation trace falsifies the property:
        # directed search with fresh seeds before giving up
        found = None
        if model_ok and harness_ok and not replay:
            for extra in range(1, spec.get('search_rounds', 3) + 1):
                try:
                    inputs = harness_gen(exe, prop, seed * 1000 + extra, spec['n'][tier] * 2, 'thorough')
                    o = evaluate(spec, inputs, known, exe)
                except RuntimeError as e:
                    break
                n_eval += o.n
                if o.pfail:
                    found = o.pfail[0]
                    break
        if found:
            inp, o, m = found
            small = inp
            try:
                small = shrink(spec, exe, known, inp,
                               lambda c, o_t, o_s, m_s, pc, pcode=0: (not pc) and match_known(prop, c, o_t, known, pcode) is None)
            except Exception as e:
                log('shrink failed:', e)
            so = harness_run(exe, prop, [small], 600)[0]
            sm = model_run(cluster, spec['tag'], [small], [so], 600)[0]
            violation = {'property': prop, 'kind': 'property fails on the implementation (found by directed search after a tie/proof broke)',
                         'input': small, 'observed': so, 'model': sm[0], 'original_input': inp,
                         'broken': problems[:5], 'how_to_replay': './check %s --replay <this file>' % prop}
        else:
            first = None
            if total.mismatch:
                prof, inp, o, m = total.mismatch[0]
                small = inp
                try:
                    small = shrink(spec, harness_exe(spec['crate'], prof), known, inp,
                                   lambda c, o_t, o_s, m_s, pc, pcode=0: o_s != m_s)
                    so = harness_run(harness_exe(spec['crate'], prof), prop, [small], 600)[0]
                    sm = model_run(cluster, spec['tag'], [small], [so], 600)[0][0]
                except Exception as e:
                    log('shrink failed:', e)
                    so, sm = o, m
                first = {'input': small, 'observed_impl': so, 'model': sm, 'profile': prof, 'original_input': inp}
            violation = {'property': prop, 'kind': 'no-failing-input-found',
                         'broken': (['correspondence %s model vs implementation disagrees on %d cases' % (cluster, len(total.mismatch))] if total.mismatch else []) + problems[:5],
                         'first_disagreement': first, 'theorems': spec.get('theorems', thms),
                         'note': 'the property is no longer shown to hold: a proof obligation or the model/code correspondence broke; no implementation input falsifying the property was found within the budget'}

    # evidence
    cov = {
        'obligations': n_thm + n_lem,
        'discharged': (n_thm + n_lem) if proofs_ok and not bad_axioms else 0,
        'checker_cmd': 'make -C coq %s/Properties.vo (coqc 8.16.1, full .vo) + Print Assumptions allowlist + forbidden-construct scan' % cluster,
        'trusted_base': trusted,
        'property_theorems': spec.get('theorems', thms),
        'print_assumptions': {'closed_under_global_context': closed, 'axioms': sorted(axioms)},
        'evaluations': n_eval,
        'distinct_nontrivial': total.distinct_nontrivial,
        'rule': spec.get('rule', 'cases from the harness generator (corpus first); non-trivial = distinct input whose implementation observation is a non-empty, non-panic trace'),
        'traces_validated_against_impl': total.n - len(total.mismatch) - len(total.errors),
        'correspondence_disagreements': len(total.mismatch),
        'pcheck_failures_unlisted': len(total.pfail),
        'known_findings_reproduced': total.known,
        'distribution': total.dist,
        'samples': total.samples or [{'note': 'no case was run', 'problems': problems[:3]}],
        'profiles': profiles,
        'extraction_crosscheck': {'requests_reevaluated_by_vm_compute': x_n, 'agree_with_extracted_model': x_agree},
    }
    ev['coverage'] = cov
    ev['violations'] = 1 if violation else 0
    ev['wall_s'] = round(time.time() - t0, 2)
    write_evidence(prop, ev)

    for k in known.get('findings', []):
        if k.get('property') == prop and k.get('status', 'open') == 'open':
            cnt = total.known.get(k['id'], 0)
            print('KNOWN-FINDING: property=%s %s [%s; reproduced on %d generated cases this run]' % (prop, k['what'], k['id'], cnt))
    if violation:
        path = write_replay(prop, seed, violation)
        tail = ' no-failing-input-found' if violation['kind'] == 'no-failing-input-found' else ''
        print('VIOLATION property=%s replay=%s%s' % (prop, path, tail))
        for p in problems[:5]:
            log('  problem:', p[:1000])
        return 1
    print('OK property=%s tier=%s seed=%s cases=%d agree=%d theorems=%s wall=%.1fs' % (
        prop, tier, seed, n_eval, cov['traces_validated_against_impl'], ','.join(spec.get('theorems', thms)), ev['wall_s']))
    return 0
