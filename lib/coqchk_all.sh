#!/bin/bash
# Independent re-check of every cluster's compiled Properties (and everything it depends on) with coqchk,
# listing the axioms of all loaded libraries.  Not part of ./check (minutes per cluster); run before a release
# of the development.  Output: docs/coqchk.txt
# usage: lib/coqchk_all.sh [Cluster ...]   (default: every cluster with a Properties.v)
cd /verif/coq
python3 -c "import sys; sys.path.insert(0,'/verif/lib'); import vcheck; vcheck.ensure_makefile()"
CL="$@"; [ -z "$CL" ] && CL=$(ls -d */ | tr -d / | while read c; do [ -f $c/Properties.v ] && echo $c; done)
mkdir -p /verif/docs/coqchk
one() { c=$1; timeout 3000 make -s $c/Properties.vo > /dev/null 2>&1
  ( echo "== FC.$c.Properties  ($(date -u +%FT%TZ))"; timeout 6000 coqchk -o -silent -Q . FC FC.$c.Properties 2>&1 | sed -n '/CONTEXT SUMMARY/,$p'; echo "exit=${PIPESTATUS[0]}" ) > /verif/docs/coqchk/$c.txt; }
export -f one
printf "%s\n" $CL | xargs -P 6 -I{} bash -c 'one {}'
cat /verif/docs/coqchk/*.txt > /verif/docs/coqchk.txt
grep -c "exit=0" /verif/docs/coqchk.txt
