"""Registry of property checks: one entry per property id."""

U32MAX = 4294967295


def _c27_classes(i, o):
    s, e, size, cache = i
    cls = []
    cls.append('len=%d' % min(e - s + 1, 10))
    cls.append('cached=%d' % min(len(cache), 10))
    if e == U32MAX:
        cls.append('end=u32max')
    if isinstance(o, list):
        kinds = sorted(set(c[0] for c in o if isinstance(c, list) and c))
        cls.append('kinds=' + ''.join(str(k) for k in kinds))
    return cls


def _c28_classes(i, o):
    cls = ['events=%d' % min(len(i[2]), 15)]
    if isinstance(o, list) and o and isinstance(o[-1], list):
        last = o[-1][0] if isinstance(o[-1][0], list) else o[-1]
        cls.append('final=%s' % {0: 'uninit', 1: 'processing', 2: 'committed'}.get(last[0], '?'))
    return cls


def _c26_classes(i, o):
    cls = ['rounds=%d' % len(i[3]), 'size=%d' % i[2]]
    if isinstance(o, list):
        for r in o:
            if not (isinstance(r, list) and len(r) == 6):
                continue
            cls.append('round_ok=%d' % r[1] if r[0] else 'round_idle')
            for e in r[2]:
                if e[0] == 1:
                    cls.append('report=%d' % e[2])
            for e in r[3]:
                if e[0] == 0:
                    cls.append('exec_ok=%d' % e[5])
            if r[4]:
                cls.append('cache_nonempty_after')
    return cls


PROPS = {
    'C26': dict(
        id='C26', cluster='Sync', crate='h-pure', tag=26,
        n={'quick': 1200, 'thorough': 60000},
        theorems=['import_round_ok', 'import_history_ok', 'missing_headers_reported', 'invalid_header_reported',
                  'bad_transactions_reported'],
        classify=_c26_classes,
        rule='random histories of 1..3 (thorough 5) import rounds of the real Import over scripted peers: per possible request start a '
             'headers answer (peer, ok/error/none, 0..size+1 headers with wrong heights, invalid or erroring consensus flags, '
             'execution-failure flags) and a transactions answer (ok/error/none, matching, mismatching, short), batch sizes 1..4, ranges '
             'of 2..10 heights, observed/committed-height events between rounds; three fault levels (clean, occasional, heavy). '
             'Observed per round: processing range, success flag, fetch-side log (requests, reports, DA awaits), execution-side log '
             '(every execute_and_commit with header variant, flags, transaction variant, result; success reports), cache dump, status. '
             'non-trivial = distinct history with a non-empty observation',
        assumptions=['schedule: current-thread runtime, block_stream_buffer_size 1, the mock executor yields until the fetch side blocks '
                     '(two batches ahead); other schedules change only how far the fetch side prefetches',
                     'processing range ends below u32::MAX (see K-C27-u32max)', 'no shutdown signal during a round'],
    ),
    'C27': dict(
        id='C27', cluster='Sync', crate='h-pure', tag=27,
        n={'quick': 1500, 'thorough': 40000},
        theorems=['chunks_partition', 'chunks_okb_sound'],
        classify=_c27_classes,
        rule='bounded-exhaustive: every range inside 0..=6 (thorough 0..=8), every batch size 1..=7 (9), every '
             'absent/header/block assignment of the heights of the range; plus random ranges anywhere in u32 '
             '(a quarter next to u32::MAX) with cached items also outside the range. non-trivial = distinct input '
             'whose emitted batch list is non-empty',
        assumptions=['range start <= range end (BTreeMap::range panics otherwise; callers pass State::process_range)',
                     'payload identity of a cached header/block is its height'],
    ),
    'C28': dict(
        id='C28', cluster='Sync', crate='h-pure', tag=28,
        n={'quick': 4000, 'thorough': 60000},
        theorems=['status_shape', 'committed_monotone'],
        classify=_c28_classes,
        rule='exhaustive: every initial (committed, observed) pair over {none,0..5,u32::MAX-1,u32::MAX} x every single '
             'event (thorough: every pair of events) over the same heights; plus random histories of 2..9 (14) events. '
             'non-trivial = distinct input with a non-empty status trace',
        assumptions=['observation of the private status goes through the Debug text of State'],
    ),
}


# cluster fragments: lib/props.d/<name>.py, each defining PROPS = {...}
import glob as _glob
import importlib.util as _ilu
import os as _os

for _f in sorted(_glob.glob(_os.path.join(_os.path.dirname(_os.path.abspath(__file__)), 'props.d', '*.py'))):
    _spec = _ilu.spec_from_file_location('props_' + _os.path.basename(_f)[:-3], _f)
    _m = _ilu.module_from_spec(_spec)
    _spec.loader.exec_module(_m)
    for _k, _v in _m.PROPS.items():
        PROPS[_k] = _v
