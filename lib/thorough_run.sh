#!/bin/bash
# Runs the thorough tier of the given checks one after the other; log: /tmp/scratch/thorough.log
# (evidence/<id>.json is then the thorough run's; re-run lib/final_run.sh to restore quick-tier evidence).
cd /verif; mkdir -p /tmp/scratch
for p in "$@"; do s=$(date +%s); out=$(timeout 7200 ./check $p --tier thorough 2>&1 | grep -E "^(OK|VIOLATION|KNOWN-FINDING)|problem" | cut -c1-220 | tr '\n' ' '); echo "[$(( $(date +%s) - s ))s] $p: $out (exit ${PIPESTATUS[0]})"; done >> /tmp/scratch/thorough.log 2>&1
