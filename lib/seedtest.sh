#!/bin/bash
# usage: lib/seedtest.sh <ID> <n> <cargo -p args...> -- <test filter>
# applies /tmp/wt-<id>/OUT/patch.diff to /repo, runs ./check <ID>, reverts; then confirms the demo in the
# scratch worktree (fails with the patch, passes without), and stores the seed under seeded/<ID>-<n>/.
ID=$1; N=$2; shift 2
PKG=(); while [ "$1" != "--" ]; do PKG+=("$1"); shift; done; shift
FILTER=$1
lid=$(echo $ID | tr 'A-Z' 'a-z'); WT=/tmp/wt-$lid
cd /repo && git apply $WT/OUT/patch.diff || { echo "PATCH DOES NOT APPLY"; exit 2; }
(cd /verif && timeout 3000 ./check $ID | grep -E "^(VIOLATION|OK)" | cut -c1-200; python3 -c "
import json; d=json.load(open('/verif/replay/$ID-1.json')); print('  kind:', d['kind']); print('  replay input:', str(d.get('input') or d.get('first_disagreement'))[:500])")
cd /repo && git apply -R $WT/OUT/patch.diff
cd $WT && echo "demo WITH patch:" && (CARGO_NET_OFFLINE=true timeout 3000 cargo test --offline "${PKG[@]}" $FILTER 2>&1 | grep -E "^test result" | head -2)
git apply -R OUT/patch.diff && echo "demo WITHOUT patch:" && (CARGO_NET_OFFLINE=true timeout 3000 cargo test --offline "${PKG[@]}" $FILTER 2>&1 | grep -E "^test result" | head -2); git apply OUT/patch.diff
mkdir -p /verif/seeded/$ID-$N && cp OUT/patch.diff OUT/demo.diff OUT/notes.md /verif/seeded/$ID-$N/
