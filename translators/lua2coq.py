#!/usr/bin/env python3
"""lua2coq: crates/fuel-core/redis_leader_lease_adapter_scripts/*.lua -> coq/Lease/LuaScripts.v

Parses the six Lua scripts of the Redis leader-lease adapter into the deep-embedded AST of
coq/Lease/Lua.v (expr / exprs / stmt).  The accepted subset is deliberately narrow:

  chunk   ::= { stat }
  stat    ::= 'local' Name [ '=' exp ]
            | Name '=' exp
            | 'if' exp 'then' chunk { 'elseif' exp 'then' chunk } [ 'else' chunk ] 'end'
            | 'for' Name '=' exp ',' exp [ ',' exp ] 'do' chunk 'end'
            | 'for' Name ',' Name 'in' 'ipairs' '(' exp ')' 'do' chunk 'end'
            | 'break' | 'return' exp
            | 'table.insert' '(' Name ',' exp ')'
            | call                                   (redis.call(...) as a statement)
  exp     ::= or-exp with the Lua precedences  or < and < comparison < '..' < '+' '-' < not '#'
  primary ::= nil | true | false | Number | String | Name | KEYS | ARGV | '{' [exp {',' exp}] '}'
            | '(' exp ')' | tonumber(exp) | tostring(exp) | redis.call(exp,...)
            | redis.error_reply(exp) | redis.status_reply(exp)        each optionally followed by '[' exp ']'

Local variables are resolved to numbered slots (every `local` / loop variable gets a fresh slot,
which implements Lua's block scoping: a name refers to the innermost declaration in scope).
Anything else (while, repeat, functions, methods, goto, multiple assignment, varargs, metatables,
string escapes other than \\\\ \\" \\n, ...) makes the translator exit non-zero and leaves a
LuaScripts.v that cannot compile, so stale output is never checked.  Trusted base: this file.
"""
import os
import re
import sys

SRC_DIR = os.environ.get('LEASE_LUA_DIR', '/repo/crates/fuel-core/redis_leader_lease_adapter_scripts')
OUT = os.path.join(os.path.dirname(os.path.dirname(os.path.abspath(__file__))), 'coq', 'Lease', 'LuaScripts.v')

SCRIPTS = ['check_lease_owner', 'promote_leader', 'release_lock', 'write_block',
           'read_latest_stream_entry', 'read_stream_entries']

KEYWORDS = {'and', 'break', 'do', 'else', 'elseif', 'end', 'false', 'for', 'function', 'if', 'in', 'local',
            'nil', 'not', 'or', 'repeat', 'return', 'then', 'true', 'until', 'while', 'goto'}


class Untranslatable(Exception):
    pass


def die(msg):
    raise Untranslatable(msg)


# --------------------------------------------------------------------------------------
# lexer

TOKEN_RE = re.compile(r'''
    (?P<ws>\s+)
  | (?P<comment>--[^\n]*)
  | (?P<num>\d+)
  | (?P<name>[A-Za-z_][A-Za-z_0-9]*)
  | (?P<str>"(?:[^"\\\n]|\\.)*")
  | (?P<op>\.\.|==|~=|<=|>=|[-+#<>=(){}\[\],.])
''', re.X)


def lex(src, fname):
    pos = 0
    toks = []
    line = 1
    while pos < len(src):
        m = TOKEN_RE.match(src, pos)
        if not m:
            die('%s:%d: unexpected character %r' % (fname, line, src[pos]))
        kind = m.lastgroup
        text = m.group(kind)
        if kind == 'comment' and text.startswith('--[['):
            die('%s:%d: long comments are outside the subset' % (fname, line))
        if kind == 'str':
            body = text[1:-1]
            out = []
            i = 0
            while i < len(body):
                c = body[i]
                if c == '\\':
                    i += 1
                    e = body[i]
                    if e == 'n':
                        out.append('\n')
                    elif e in '\\"':
                        out.append(e)
                    else:
                        die('%s:%d: string escape \\%s is outside the subset' % (fname, line, e))
                else:
                    if ord(c) > 126 or ord(c) < 32:
                        die('%s:%d: non-printable character in string literal' % (fname, line))
                    out.append(c)
                i += 1
            toks.append(('str', ''.join(out), line))
        elif kind == 'num':
            toks.append(('num', int(text), line))
        elif kind == 'name':
            toks.append(('kw' if text in KEYWORDS else 'name', text, line))
        elif kind == 'op':
            toks.append(('op', text, line))
        line += text.count('\n')
        pos = m.end()
    toks.append(('eof', '', line))
    return toks


# --------------------------------------------------------------------------------------
# parser -> Coq term text

class Parser:
    def __init__(self, toks, fname):
        self.t = toks
        self.i = 0
        self.fname = fname
        self.nslots = 0
        self.scopes = [{}]
        self.slot_names = []

    # -- helpers
    def peek(self, k=0):
        return self.t[min(self.i + k, len(self.t) - 1)]

    def fail(self, msg):
        kind, text, line = self.peek()
        die('%s:%d: %s (at %s %r)' % (self.fname, line, msg, kind, text))

    def at(self, kind, text=None):
        k, t, _ = self.peek()
        return k == kind and (text is None or t == text)

    def eat(self, kind, text=None):
        if not self.at(kind, text):
            self.fail('expected %s %s' % (kind, text or ''))
        tok = self.peek()
        self.i += 1
        return tok

    def fresh(self, name):
        s = self.nslots
        self.nslots += 1
        self.slot_names.append(name)
        return s

    def declare(self, name):
        s = self.fresh(name)
        self.scopes[-1][name] = s
        return s

    def lookup(self, name):
        for sc in reversed(self.scopes):
            if name in sc:
                return sc[name]
        self.fail('global or undeclared variable %r is outside the subset' % name)

    def dotted(self):
        """Name { '.' Name } at the current position, without consuming; returns (text, ntokens)."""
        if not self.at('name'):
            return None, 0
        parts = [self.peek()[1]]
        k = 1
        while self.peek(k)[0] == 'op' and self.peek(k)[1] == '.' and self.peek(k + 1)[0] == 'name':
            parts.append(self.peek(k + 1)[1])
            k += 2
        return '.'.join(parts), k

    # -- statements
    def chunk(self, terminators):
        stmts = []
        while True:
            k, t, _ = self.peek()
            if k == 'eof' or (k == 'kw' and t in terminators):
                break
            s = self.stat()
            stmts.append(s)
            if s.startswith('(SReturn') or s == 'SBreak':
                k, t, _ = self.peek()
                if not (k == 'eof' or (k == 'kw' and t in terminators)):
                    self.fail('statement after return/break in the same block')
                break
        return seq(stmts)

    def block(self, terminators):
        self.scopes.append({})
        c = self.chunk(terminators)
        self.scopes.pop()
        return c

    def stat(self):
        k, t, line = self.peek()
        if k == 'kw' and t == 'local':
            self.eat('kw', 'local')
            if self.at('kw', 'function'):
                self.fail('local functions are outside the subset')
            name = self.eat('name')[1]
            if self.at('op', ','):
                self.fail('multiple assignment is outside the subset')
            if self.at('op', '='):
                self.eat('op', '=')
                e = self.exp()
            else:
                e = 'ENil'
            # the initialiser is evaluated before the new name comes into scope
            s = self.declare(name)
            return '(SLocal %d%%nat (* %s *) %s)' % (s, name, e)
        if k == 'kw' and t == 'if':
            self.eat('kw', 'if')
            arms = []
            c = self.exp()
            self.eat('kw', 'then')
            b = self.block({'elseif', 'else', 'end'})
            arms.append((c, b))
            els = 'SSkip'
            while True:
                if self.at('kw', 'elseif'):
                    self.eat('kw', 'elseif')
                    c = self.exp()
                    self.eat('kw', 'then')
                    b = self.block({'elseif', 'else', 'end'})
                    arms.append((c, b))
                elif self.at('kw', 'else'):
                    self.eat('kw', 'else')
                    els = self.block({'end'})
                    self.eat('kw', 'end')
                    break
                else:
                    self.eat('kw', 'end')
                    break
            out = els
            for c, b in reversed(arms):
                out = '(SIf %s %s %s)' % (c, b, out)
            return out
        if k == 'kw' and t == 'for':
            self.eat('kw', 'for')
            n1 = self.eat('name')[1]
            if self.at('op', '='):
                self.eat('op', '=')
                lo = self.exp()
                self.eat('op', ',')
                hi = self.exp()
                step = '(ENum 1)'
                if self.at('op', ','):
                    self.eat('op', ',')
                    step = self.exp()
                self.eat('kw', 'do')
                self.scopes.append({})
                s = self.declare(n1)
                body = self.chunk({'end'})
                self.scopes.pop()
                self.eat('kw', 'end')
                return '(SForNum %d%%nat (* %s *) %s %s %s %s)' % (s, n1, lo, hi, step, body)
            self.eat('op', ',')
            n2 = self.eat('name')[1]
            self.eat('kw', 'in')
            if not (self.at('name', 'ipairs')):
                self.fail('only `for k, v in ipairs(e)` generic loops are inside the subset')
            self.eat('name', 'ipairs')
            self.eat('op', '(')
            e = self.exp()
            self.eat('op', ')')
            self.eat('kw', 'do')
            self.scopes.append({})
            s1 = self.declare(n1)
            s2 = self.declare(n2)
            body = self.chunk({'end'})
            self.scopes.pop()
            self.eat('kw', 'end')
            return '(SForIpairs %d%%nat (* %s *) %d%%nat (* %s *) %s %s)' % (s1, n1, s2, n2, e, body)
        if k == 'kw' and t == 'break':
            self.eat('kw', 'break')
            return 'SBreak'
        if k == 'kw' and t == 'return':
            self.eat('kw', 'return')
            k2, t2, _ = self.peek()
            if k2 == 'eof' or (k2 == 'kw' and t2 in ('end', 'else', 'elseif')):
                return '(SReturn ENil)'
            e = self.exp()
            if self.at('op', ','):
                self.fail('multiple return values are outside the subset')
            return '(SReturn %s)' % e
        if k == 'name':
            d, n = self.dotted()
            if d == 'table.insert':
                self.i += n
                self.eat('op', '(')
                name = self.eat('name')[1]
                s = self.lookup(name)
                self.eat('op', ',')
                e = self.exp()
                self.eat('op', ')')
                return '(STableInsert %d%%nat (* %s *) %s)' % (s, name, e)
            if d == 'redis.call':
                e = self.primary()
                return '(SCall %s)' % e
            if n == 1 and self.peek(1)[0] == 'op' and self.peek(1)[1] == '=':
                name = self.eat('name')[1]
                if name in ('KEYS', 'ARGV'):
                    self.fail('assignment to KEYS/ARGV is outside the subset')
                s = self.lookup(name)
                self.eat('op', '=')
                e = self.exp()
                return '(SAssign %d%%nat (* %s *) %s)' % (s, name, e)
        self.fail('statement form is outside the subset')

    # -- expressions (Lua precedence, low to high: or, and, comparison, .., + -, unary)
    def exp(self):
        return self.or_exp()

    def or_exp(self):
        a = self.and_exp()
        while self.at('kw', 'or'):
            self.eat('kw', 'or')
            b = self.and_exp()
            a = '(EBin BOr %s %s)' % (a, b)
        return a

    def and_exp(self):
        a = self.cmp_exp()
        while self.at('kw', 'and'):
            self.eat('kw', 'and')
            b = self.cmp_exp()
            a = '(EBin BAnd %s %s)' % (a, b)
        return a

    CMP = {'==': 'BEq', '~=': 'BNe', '<': 'BLt', '<=': 'BLe', '>': 'BGt', '>=': 'BGe'}

    def cmp_exp(self):
        a = self.cat_exp()
        while self.at('op') and self.peek()[1] in self.CMP:
            op = self.eat('op')[1]
            b = self.cat_exp()
            a = '(EBin %s %s %s)' % (self.CMP[op], a, b)
        return a

    def cat_exp(self):
        a = self.add_exp()
        if self.at('op', '..'):
            self.eat('op', '..')
            b = self.cat_exp()          # right associative
            return '(EBin BConcat %s %s)' % (a, b)
        return a

    def add_exp(self):
        a = self.unary()
        while self.at('op') and self.peek()[1] in ('+', '-'):
            op = self.eat('op')[1]
            b = self.unary()
            a = '(EBin %s %s %s)' % ('BAdd' if op == '+' else 'BSub', a, b)
        return a

    def unary(self):
        if self.at('kw', 'not'):
            self.eat('kw', 'not')
            return '(ENot %s)' % self.unary()
        if self.at('op', '#'):
            self.eat('op', '#')
            return '(ELen %s)' % self.unary()
        if self.at('op', '-'):
            self.fail('unary minus is outside the subset')
        return self.primary()

    def args(self):
        self.eat('op', '(')
        items = []
        if not self.at('op', ')'):
            items.append(self.exp())
            while self.at('op', ','):
                self.eat('op', ',')
                items.append(self.exp())
        self.eat('op', ')')
        return items

    FUNS = {'tonumber': ('FToNumber', 1), 'tostring': ('FToString', 1), 'redis.call': ('FRedisCall', None),
            'redis.error_reply': ('FErrorReply', 1), 'redis.status_reply': ('FStatusReply', 1)}

    def primary(self):
        k, t, line = self.peek()
        if k == 'kw' and t == 'nil':
            self.i += 1
            e = 'ENil'
        elif k == 'kw' and t == 'true':
            self.i += 1
            e = 'ETrue'
        elif k == 'kw' and t == 'false':
            self.i += 1
            e = 'EFalse'
        elif k == 'num':
            self.i += 1
            e = '(ENum %d)' % t
        elif k == 'str':
            self.i += 1
            e = '(EStr %s)' % coq_string(t)
        elif k == 'op' and t == '(':
            self.eat('op', '(')
            e = self.exp()
            self.eat('op', ')')
        elif k == 'op' and t == '{':
            self.eat('op', '{')
            items = []
            if not self.at('op', '}'):
                while True:
                    if self.at('name') and self.peek(1)[0] == 'op' and self.peek(1)[1] == '=' :
                        self.fail('record-style table constructors are outside the subset')
                    if self.at('op', '['):
                        self.fail('keyed table constructors are outside the subset')
                    items.append(self.exp())
                    if self.at('op', ','):
                        self.eat('op', ',')
                        if self.at('op', '}'):
                            break
                        continue
                    break
            self.eat('op', '}')
            e = '(ETable %s)' % exprs(items)
        elif k == 'name':
            d, n = self.dotted()
            if d in self.FUNS:
                self.i += n
                fn, arity = self.FUNS[d]
                a = self.args()
                if arity is not None and len(a) != arity:
                    self.fail('%s takes %d argument(s) in the subset' % (d, arity))
                if arity is None and not a:
                    self.fail('redis.call needs a command name')
                e = '(ECall %s %s)' % (fn, exprs(a))
            elif n > 1:
                self.fail('field access / library function %r is outside the subset' % d)
            elif t == 'KEYS':
                self.i += 1
                e = 'EKeys'
            elif t == 'ARGV':
                self.i += 1
                e = 'EArgv'
            else:
                self.i += 1
                if self.at('op', '(') or self.at('str') or self.at('op', '{'):
                    self.fail('call of %r is outside the subset' % t)
                e = '(EVar %d%%nat (* %s *))' % (self.lookup(t), t)
        else:
            self.fail('expression form is outside the subset')
        while self.at('op', '['):
            self.eat('op', '[')
            ix = self.exp()
            self.eat('op', ']')
            e = '(EIndex %s %s)' % (e, ix)
        if self.at('op', '.') or self.at('op', '(') and False:
            self.fail('field access is outside the subset')
        return e


def coq_string(s):
    if '\n' in s:
        die('newline inside a string literal is outside the subset')
    return '"%s"' % s.replace('"', '""')


def exprs(items):
    out = 'XNil'
    for e in reversed(items):
        out = '(XCons %s %s)' % (e, out)
    return out


def seq(stmts):
    if not stmts:
        return 'SSkip'
    out = stmts[-1]
    for s in reversed(stmts[:-1]):
        out = '(SSeq %s\n   %s)' % (s, out)
    return out


def translate(name):
    path = os.path.join(SRC_DIR, name + '.lua')
    try:
        src = open(path, encoding='utf-8').read()
    except OSError as e:
        die('cannot read %s: %s' % (path, e))
    p = Parser(lex(src, name + '.lua'), name + '.lua')
    body = p.chunk(set())
    if not p.at('eof'):
        p.fail('trailing input')
    return src, body, p.nslots, p.slot_names


def main():
    out = ['(* GENERATED by translators/lua2coq.py from crates/fuel-core/redis_leader_lease_adapter_scripts/*.lua.',
           '   Do not edit: regenerated on every ./check C25 run. *)',
           'From FC Require Import Lease.Lua.',
           'Open Scope str_scope.', 'Open Scope Z_scope.', '']
    found = sorted(f[:-4] for f in os.listdir(SRC_DIR) if f.endswith('.lua'))
    if found != sorted(SCRIPTS):
        die('script directory holds %s, expected exactly %s' % (found, sorted(SCRIPTS)))
    for name in SCRIPTS:
        src, body, nslots, names = translate(name)
        out.append('(* %s.lua -- local slots: %s *)' % (name, ', '.join('%d=%s' % (i, n) for i, n in enumerate(names)) or 'none'))
        out.append('Definition %s_body : stmt :=\n  %s.' % (name, body))
        out.append('Definition %s : script := mkScript %d%%nat %s_body.' % (name, nslots, name))
        out.append('')
    text = '\n'.join(out) + '\n'
    os.makedirs(os.path.dirname(OUT), exist_ok=True)
    old = open(OUT).read() if os.path.exists(OUT) else None
    if old != text:
        open(OUT, 'w').write(text)
    return 0


if __name__ == '__main__':
    try:
        sys.exit(main())
    except Untranslatable as e:
        try:
            os.makedirs(os.path.dirname(OUT), exist_ok=True)
            open(OUT, 'w').write('(* lua2coq FAILED: %s *)\nFrom FC Require Import Lease.Lua.\n'
                                 'Definition translation_failed : False := I.\n' % str(e).replace('*)', '* )'))
        except OSError:
            pass
        print('lua2coq: cannot translate: %s' % e, file=sys.stderr)
        sys.exit(3)
