#!/usr/bin/env python3
"""seqlock2coq: /repo/crates/services/src/seqlock.rs -> /verif/coq/Svc/SeqlockProg.v

Extracts the ordered atomic steps of `SeqLockWriter::write` and `SeqLockReader::read`
as two programs in the step language of coq/Svc/Model.v (winstr / rinstr), the initial
value of the sequence counter, and the positions of the `verif_hooks::point(n)` scheduling
points (index of the instruction that follows each point).

The translator is purely syntactic and deliberately narrow: every statement of the two
function bodies must match one of the patterns below, otherwise it exits non-zero and the
check reports the proof obligation as broken.  Trusted base: this file.
"""
import os
import re
import sys

SRC = os.environ.get('SEQLOCK_SRC', '/repo/crates/services/src/seqlock.rs')
OUT = os.path.join(os.path.dirname(os.path.dirname(os.path.abspath(__file__))), 'coq', 'Svc', 'SeqlockProg.v')

ORDERINGS = {'Relaxed', 'Acquire', 'Release', 'AcqRel', 'SeqCst'}


class Untranslatable(Exception):
    pass


def die(msg):
    raise Untranslatable(msg)


def strip_comments(src):
    src = re.sub(r'/\*.*?\*/', ' ', src, flags=re.S)
    src = re.sub(r'//[^\n]*', ' ', src)
    return src


def find_block(src, start):
    """src[start] must be '{'; returns index just after the matching '}'."""
    assert src[start] == '{'
    depth = 0
    i = start
    while i < len(src):
        c = src[i]
        if c == '{':
            depth += 1
        elif c == '}':
            depth -= 1
            if depth == 0:
                return i + 1
        elif c == '"':
            die('string literal inside a translated function body')
        i += 1
    die('unbalanced braces')


def fn_body(src, header_re, what):
    ms = list(re.finditer(header_re, src))
    if len(ms) != 1:
        die('expected exactly one %s, found %d' % (what, len(ms)))
    i = src.index('{', ms[0].end() - 1)
    j = find_block(src, i)
    return src[i + 1:j - 1]


def split_statements(body):
    """Top-level statements of a block: `...;` or a block statement ending in `}`."""
    stmts = []
    depth = 0
    cur = ''
    i = 0
    while i < len(body):
        c = body[i]
        cur += c
        if c in '({[':
            depth += 1
        elif c in ')}]':
            depth -= 1
            if depth < 0:
                die('unbalanced delimiters')
            if depth == 0 and c == '}' and re.match(r'\s*(if|loop|while|for|match|unsafe)\b', cur):
                # `if … { }` may be followed by else
                rest = body[i + 1:]
                if re.match(r'\s*else\b', rest):
                    i += 1
                    continue
                stmts.append(cur.strip())
                cur = ''
        elif c == ';' and depth == 0:
            stmts.append(cur.strip())
            cur = ''
        i += 1
    if cur.strip():
        die('trailing expression without `;` (a tail expression is not in the subset): %r' % cur.strip())
    return stmts


def norm(s):
    """statements are compared with ALL white space removed (`let x` becomes `letx`)"""
    return re.sub(r'\s+', '', s)


POINT_RE = re.compile(r'#\[cfg\(feature\s*=\s*"verif"\)\]\s*verif_hooks::point\((\d+)\);')


def mark_points(src):
    return POINT_RE.sub(lambda m: '__point(%s);' % m.group(1), src)


def ordering(o):
    if o not in ORDERINGS:
        die('unknown memory ordering %r' % o)
    return o


def translate_write(body):
    prog, points = [], []
    stmts = split_statements(body)
    lock_alias = False
    saw_result = False
    saw_resume = False
    for s in map(norm, stmts):
        m = re.fullmatch(r'__point\((\d+)\);', s)
        if m:
            points.append((int(m.group(1)), len(prog)))
            continue
        if s == 'letlock=&self.lock;':
            if prog:
                die('lock alias after the first step')
            lock_alias = True
            continue
        if not lock_alias:
            die('write: expected `let lock = &self.lock;` first, got %r' % s)
        m = re.fullmatch(r'lock\.sequence\.fetch_add\((\d+),Ordering::(\w+)\);', s)
        if m:
            prog.append('WFetchAdd %s %s' % (m.group(1), ordering(m.group(2))))
            continue
        m = re.fullmatch(r'fence\(Ordering::(\w+)\);', s)
        if m:
            prog.append('WFence %s' % ordering(m.group(1)))
            continue
        if s == ('letresult=std::panic::catch_unwind(std::panic::AssertUnwindSafe(||unsafe{'
                 'letdata=&mut*lock.data.get();f(data);}));'):
            if saw_result:
                die('write: the closure is called twice')
            saw_result = True
            prog.append('WCallF')
            continue
        if s == 'ifletErr(e)=result{std::panic::resume_unwind(e);}':
            # where the caught panic of the closure is re-raised: a step of the program,
            # everything after it is skipped when the closure panicked
            if not saw_result:
                die('write: resume_unwind before the closure call')
            if saw_resume:
                die('write: the panic is re-raised twice')
            saw_resume = True
            prog.append('WResume')
            continue
        die('write: statement outside the translated subset: %r' % s)
    if not saw_result:
        die('write: no call of the user closure found')
    if not saw_resume:
        die('write: the closure runs under catch_unwind but the panic is never re-raised '
            '(`if let Err(e) = result { resume_unwind(e) }` not found): cannot place WResume')
    return prog, points


COND_ATOMS = {
    'start==end': 'eq', 'end==start': 'eq',
    'start.is_multiple_of(2)': 'even', 'start%2==0': 'even',
    'end.is_multiple_of(2)': 'even_end',
}


def translate_read(body):
    stmts = split_statements(body)
    if len(stmts) != 2 or norm(stmts[0]) != 'letlock=&self.lock;' or not re.match(r'loop\s*\{', stmts[1]) \
            or not stmts[1].endswith('}'):
        die('read: expected `let lock = &self.lock; loop { … }`, got %r' % stmts)
    inner = stmts[1][stmts[1].index('{') + 1:-1]
    prog, points = [], []
    have = set()
    returned = False
    for s in map(norm, split_statements(inner)):
        if returned:
            die('read: statement after the return test: %r' % s)
        m = re.fullmatch(r'__point\((\d+)\);', s)
        if m:
            points.append((int(m.group(1)), len(prog)))
            continue
        m = re.fullmatch(r'let(start|end)=lock\.sequence\.load\(Ordering::(\w+)\);', s)
        if m:
            var = m.group(1)
            if var in have:
                die('read: %s loaded twice' % var)
            if var == 'end' and 'data' not in have:
                die('read: `end` loaded before the data copy')
            if var == 'start' and have:
                die('read: `start` must be the first load')
            have.add(var)
            prog.append('%s %s' % ('RLoadStart' if var == 'start' else 'RLoadEnd', ordering(m.group(2))))
            continue
        if s == 'if!start.is_multiple_of(2){std::thread::yield_now();continue;}' or \
           s == 'if!start.is_multiple_of(2){continue;}':
            if 'start' not in have:
                die('read: parity test before the start load')
            prog.append('RRetryIfOdd')
            continue
        m = re.fullmatch(r'fence\(Ordering::(\w+)\);', s)
        if m:
            prog.append('RFence %s' % ordering(m.group(1)))
            continue
        if s == 'letdata=unsafe{*lock.data.get()};':
            if 'data' in have or 'start' not in have:
                die('read: data copy out of place')
            have.add('data')
            prog.append('RCopyData')
            continue
        m = re.fullmatch(r'if(.+?)\{returndata;\}', s)
        if m:
            if 'end' not in have or 'data' not in have:
                die('read: return test before end/data are available')
            atoms = [a.strip() for a in m.group(1).split('&&')]
            kinds = set()
            for a in atoms:
                if a not in COND_ATOMS:
                    die('read: return condition atom outside the subset: %r' % a)
                kinds.add(COND_ATOMS[a])
            if 'even_end' in kinds:
                die('read: parity test on `end` is not in the step language')
            prog.append('RReturnIf %s %s' % ('true' if 'eq' in kinds else 'false',
                                             'true' if 'even' in kinds else 'false'))
            returned = True
            continue
        die('read: statement outside the translated subset: %r' % s)
    if not returned:
        die('read: no `if … { return data; }` found')
    return prog, points


def main():
    raw = open(SRC).read()
    src = mark_points(strip_comments(raw))
    # the translated region is everything before the test module
    cut = src.find('#[cfg(test)]')
    if cut >= 0:
        src = src[:cut]
    # structure: one atomic sequence counter + the data cell
    if not re.search(r'pub struct SeqLock<T:\s*Copy>\s*\{\s*sequence:\s*AtomicU64,\s*data:\s*UnsafeCell<T>,\s*\}', src):
        die('struct SeqLock is not {sequence: AtomicU64, data: UnsafeCell<T>}')
    m = re.search(r'sequence:\s*AtomicU64::new\((\d+)\)', src)
    if not m:
        die('initial sequence value not found in SeqLock::new')
    seq_init = int(m.group(1))
    wsig = re.search(r'pub fn write<F>\(\s*&(mut\s+)?self,\s*f:\s*F\s*\)', src)
    if not wsig:
        die('signature of write not recognised')
    write_takes_mut = bool(wsig.group(1))
    wbody = fn_body(src, r'pub fn write<F>\(\s*&(?:mut\s+)?self,\s*f:\s*F\s*\)\s*where\s*F:\s*FnOnce\(&mut T\)\s*\+\s*UnwindSafe,\s*\{', 'fn write')
    rbody = fn_body(src, r'pub fn read\(\s*&self\s*\)\s*->\s*T\s*\{', 'fn read')
    wprog, wpts = translate_write(wbody)
    rprog, rpts = translate_read(rbody)
    # any point left outside the two bodies would be silently lost
    n_points = len(re.findall(r'__point\(', src))
    if n_points != len(wpts) + len(rpts):
        die('a verif_hooks::point lies outside write/read')
    ids = [i for i, _ in wpts + rpts]
    if ids != list(range(len(ids))):
        die('scheduling point ids must be 0,1,2,… in source order (write first, then read): %r' % ids)
    writer_clone = bool(re.search(r'#\[derive\([^)]*\bClone\b[^)]*\)\]\s*pub struct SeqLockWriter', src))

    def lst(xs):
        return '[' + '; '.join(xs) + ']'

    out = []
    out.append('(* GENERATED by translators/seqlock2coq.py from crates/services/src/seqlock.rs.')
    out.append('   Do not edit: regenerated on every ./check C42 run. *)')
    out.append('From FC Require Import Svc.Model.')
    out.append('Open Scope N_scope.')
    out.append('')
    out.append('(* SeqLockWriter::write, in program order *)')
    out.append('Definition write_prog : list winstr :=\n  %s.' % lst(wprog))
    out.append('')
    out.append('(* one iteration of the loop of SeqLockReader::read, in program order *)')
    out.append('Definition read_prog : list rinstr :=\n  %s.' % lst(rprog))
    out.append('')
    out.append('(* AtomicU64::new(%d) in SeqLock::new *)' % seq_init)
    out.append('Definition seq_init : N := %d.' % seq_init)
    out.append('')
    out.append('(* verif_hooks::point(n) positions: index of the instruction following the point *)')
    out.append('Definition write_points : list nat := %s.' % lst(['%d%%nat' % p for _, p in wpts]))
    out.append('Definition read_points : list nat := %s.' % lst(['%d%%nat' % p for _, p in rpts]))
    out.append('')
    out.append('(* API facts used by the two-writer discussion: write takes %s; SeqLockWriter %s Clone *)'
               % ('&mut self' if write_takes_mut else '&self', 'derives' if writer_clone else 'does not derive'))
    out.append('Definition write_takes_mut_self : bool := %s.' % ('true' if write_takes_mut else 'false'))
    out.append('Definition writer_is_clone : bool := %s.' % ('true' if writer_clone else 'false'))
    text = '\n'.join(out) + '\n'
    os.makedirs(os.path.dirname(OUT), exist_ok=True)
    old = open(OUT).read() if os.path.exists(OUT) else None
    if old != text:
        open(OUT, 'w').write(text)
    return 0


if __name__ == '__main__':
    try:
        sys.exit(main())
    except Untranslatable as e:
        # leave a file that cannot compile, so that stale output is never checked
        try:
            os.makedirs(os.path.dirname(OUT), exist_ok=True)
            open(OUT, 'w').write('(* seqlock2coq FAILED: %s *)\nFrom FC Require Import Svc.Model.\n'
                                 'Definition translation_failed : False := I.\n' % str(e).replace('*)', '* )'))
        except OSError:
            pass
        print('seqlock2coq: cannot translate %s: %s' % (SRC, e), file=sys.stderr)
        sys.exit(3)
