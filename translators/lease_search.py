#!/usr/bin/env python3
"""Bounded random search for a fork on the EXTRACTED Lease model (C25).  Not part of ./check: the
search only FINDS a witness; a witness is then stated as a Coq lemma checked by vm_compute
(coq/Lease/Proofs25.v l1_forks, theorem no_fork_refuted).

Usage:  python3 translators/lease_search.py [--seed S] [--tries N] [--nodes 3] [--replicas 3] [--rounds 6]
Needs ocaml/gen/lease_main (built by any ./check C25 run).  Request kind 2 of main_T:
    (25 (2 (nodes replicas budget ttl maxlen attempts) (step ...)) ())  ->  ((fork chains streams) 1)
Schedules: production rounds of random replicas, each with at most one lost request per node
(fate 1 at a random position), all leases expiring between rounds; no data loss, no restarts.
"""
import os
import random
import subprocess
import sys

ROOT = os.path.dirname(os.path.dirname(os.path.abspath(__file__)))
EXE = os.path.join(ROOT, 'ocaml', 'gen', 'lease_main')


def show(t):
    if isinstance(t, list):
        return '(' + ' '.join(show(x) for x in t) + ')'
    return str(t)


def schedule(rng, nodes, replicas, rounds):
    steps = []
    for _ in range(rounds):
        r = rng.randrange(replicas)
        fates = []
        for _n in range(nodes):
            f = [0] * 6
            if rng.random() < 0.45:
                f[rng.randrange(6)] = 1
            fates.append(f)
        steps.append([0, r, fates])
        for n in range(nodes):
            steps.append([2, n, 2000])
    return steps


def main():
    a = sys.argv[1:]
    opt = {'--seed': 1, '--tries': 2000, '--nodes': 3, '--replicas': 3, '--rounds': 6}
    i = 0
    while i + 1 < len(a):
        opt[a[i]] = int(a[i + 1])
        i += 2
    rng = random.Random(opt['--seed'])
    cfg = [opt['--nodes'], opt['--replicas'], 0, 1000, 100, 1]
    batch = 200
    found = 0
    tried = 0
    while tried < opt['--tries']:
        cases = [schedule(rng, opt['--nodes'], opt['--replicas'], rng.randint(3, opt['--rounds'])) for _ in range(batch)]
        reqs = '\n'.join('(25 (2 %s %s) ())' % (show(cfg), show(c)) for c in cases) + '\n'
        out = subprocess.run([EXE], input=reqs, capture_output=True, text=True).stdout.strip().split('\n')
        for c, o in zip(cases, out):
            tried += 1
            if o.startswith('((1 '):
                found += 1
                if found <= 3:
                    print('FORK after %d schedules: %d steps (%d rounds)' % (tried, len(c), sum(1 for s in c if s[0] == 0)))
                    print('  schedule: ' + show([1, cfg, c]))
    print('%d schedules tried, %d with a fork' % (tried, found))
    return 0


if __name__ == '__main__':
    sys.exit(main())
