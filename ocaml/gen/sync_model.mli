
val negb : bool -> bool

type nat =
| O
| S of nat

val option_map : ('a1 -> 'a2) -> 'a1 option -> 'a2 option

val fst : ('a1 * 'a2) -> 'a1

val snd : ('a1 * 'a2) -> 'a2

val app : 'a1 list -> 'a1 list -> 'a1 list

type comparison =
| Eq
| Lt
| Gt

val compOpp : comparison -> comparison

val add : nat -> nat -> nat

val map : ('a1 -> 'a2) -> 'a1 list -> 'a2 list

val fold_left : ('a1 -> 'a2 -> 'a1) -> 'a2 list -> 'a1 -> 'a1

val forallb : ('a1 -> bool) -> 'a1 list -> bool

val filter : ('a1 -> bool) -> 'a1 list -> 'a1 list

type positive =
| XI of positive
| XO of positive
| XH

type n =
| N0
| Npos of positive

type z =
| Z0
| Zpos of positive
| Zneg of positive

module Pos :
 sig
  type mask =
  | IsNul
  | IsPos of positive
  | IsNeg
 end

module Coq_Pos :
 sig
  val succ : positive -> positive

  val add : positive -> positive -> positive

  val add_carry : positive -> positive -> positive

  val pred_double : positive -> positive

  type mask = Pos.mask =
  | IsNul
  | IsPos of positive
  | IsNeg

  val succ_double_mask : mask -> mask

  val double_mask : mask -> mask

  val double_pred_mask : positive -> mask

  val sub_mask : positive -> positive -> mask

  val sub_mask_carry : positive -> positive -> mask

  val compare_cont : comparison -> positive -> positive -> comparison

  val compare : positive -> positive -> comparison

  val eqb : positive -> positive -> bool

  val iter_op : ('a1 -> 'a1 -> 'a1) -> positive -> 'a1 -> 'a1

  val to_nat : positive -> nat
 end

module N :
 sig
  val succ_double : n -> n

  val double : n -> n

  val add : n -> n -> n

  val sub : n -> n -> n

  val compare : n -> n -> comparison

  val eqb : n -> n -> bool

  val leb : n -> n -> bool

  val ltb : n -> n -> bool

  val min : n -> n -> n

  val max : n -> n -> n

  val pos_div_eucl : positive -> n -> n * n

  val div_eucl : n -> n -> n * n

  val div : n -> n -> n

  val to_nat : n -> nat
 end

module Z :
 sig
  val compare : z -> z -> comparison

  val leb : z -> z -> bool

  val to_N : z -> n

  val of_N : n -> z
 end

type t =
| I of z
| L of t list

val tN : n -> t

val tB : bool -> t

val tListN : n list -> t

val getN : t -> n option

val getL : t -> t list option

val mapM : ('a1 -> 'a2 option) -> 'a1 list -> 'a2 list option

val getListN : t -> n list option

val getOptN : t -> n option option

val tErr : z -> t

val u32max : n

val sat_add : n -> n -> n -> n

val checked_add : n -> n -> n -> n option

val checked_sub : n -> n -> n option

type status =
| Uninit
| Processing of n * n
| Committed of n

val rempty : n -> n -> bool

val rcontains : n -> n -> n -> bool

val st_new : n option -> n option -> status

val process_range : status -> (n * n) option

val apply_status : status -> status option -> status

val commit : status -> n -> status

val observe : status -> n -> status * bool

val revert_before : n -> status

val failed : status -> n -> n -> status

type event =
| EObserve of n
| ECommit of n
| EFailed of n * n

val step : status -> event -> status

type ghost = { maxC : n option; maxO : n option; clean : bool }

val omax : n option -> n -> n option

val ole : n option -> n -> bool

val ghost_new : n option -> n option -> ghost

val ghost_step : ghost -> event -> ghost

val implied_committed : status -> n option

val oeqb : n option -> n option -> bool

val shape_ok : ghost -> status -> bool

type kind =
| KHeader
| KBlock

val kind_eqb : kind -> kind -> bool

type chunk =
| CNone of n * n
| CHeaders of n * n * n list
| CBlocks of n * n * n list

val chunk_start : chunk -> n

val chunk_end : chunk -> n

val chunk_empty : chunk -> bool

type item = n * kind

val missing_aux : nat -> n -> n -> n -> n -> chunk list

val nchunks : n -> n -> n -> nat

val push_missing : n -> n -> n -> n -> chunk list

val new_chunk : kind -> n -> chunk

val handle_current : chunk -> kind -> n -> n -> chunk list * chunk

val flush : chunk list -> chunk -> chunk list

type loop_state = (n * chunk list) * chunk

val chunk_step : n -> n -> loop_state -> item -> loop_state

val collect : item list -> n -> n -> item list

val get_chunks_items : item list -> n -> n -> n -> chunk list

val get_chunks : item list -> n -> n -> n -> chunk list

val lookup : item list -> n -> kind option

val nseq : nat -> n -> n list

val heights : n -> n -> n list

val listN_eqb : n list -> n list -> bool

val okind_eqb : kind option -> kind option -> bool

val content_okb : item list -> chunk -> bool

val tilesb : item list -> n -> n -> n -> chunk list -> bool

val chunks_okb : item list -> n -> n -> n -> chunk list -> bool

val status_T : status -> t

val t_status : t -> status option

val t_event : t -> event option

val obs_T : status -> event -> t

val run28 : status -> event list -> t list

val pcheck28 : ghost -> event list -> t list -> bool

val main28 : t -> t -> t

val t_kind : t -> kind option

val chunk_T : chunk -> t

val t_chunk : t -> chunk option

val t_item : t -> item option

val main27 : t -> t -> t

val main_T : t -> t
